# C09 — coroutines: exact value transfer, legal status transitions, one thread at a time,
#        no deadlock, no goroutine left behind.
#
#  proof obligations : coq/theories/Properties/C09.v  (models Thread/Proto.v — hand-off protocol as an
#                      interleaving semantics — and Thread/SpecS.v — sequential coroutine semantics)
#  (a) scripts       : coroutine scripts (one shared action list executed by whichever coroutine runs),
#                      enumerated to a depth bound + random larger ones, rendered to Lua, run on the
#                      real runtime (gvh-thread script) and compared with the extracted SpecS.srun
#                      (events = every value transferred, statuses, error classes) + goroutine count
#  (b) race build    : the same Lua sources on `gvh lua` built with -race under GOMAXPROCS 1,2,4,16;
#                      any race report / hang / crash is a violation
#  (c) trace valid.  : runtime/thread.go instrumented at build time (go build -overlay; the copy is
#                      regenerated from /repo's current source on every run), recorded action traces
#                      replayed through the extracted acceptor Proto.first_reject (cfg current)
#  (d) quota / __close-handler scripts: kills inside coroutines, handlers that perform coroutine
#                      operations (known deadlock / crash findings)
import itertools
import json
import os
import re

from lib import vlib

PROP = ["Properties/C09.v"]
TRUSTED = [
    "Coq 8.16.1 kernel (coqc); vm_compute only in Example/refuted witnesses",
    "no axioms (Print Assumptions: closed under the global context for every C09 theorem)",
    "extraction: ExtrOcamlBasic only; oracle/common/proto.ml + oracle/thread/driver.ml (glue), OCaml",
    "Go harness harness/cmd/gvh-thread, harness/hx (lua engine); python generator/renderer/diff in lib/props/C09.py",
    "the Lua interpreter prelude that executes a script (LUA_PRELUDE) is trusted to mean what SpecS.step_act says",
    "modelled not verified: Go's memory model, channel and mutex semantics (Proto.v: SC interleaving of atomic "
    "actions, unbuffered send/receive = one rendezvous action); the Go race detector and runtime.NumGoroutine exhibit "
    "what the model cannot; 'no data race under any interleaving' is therefore PARTIAL: proved for the modelled "
    "accesses, observed (race detector, 4 GOMAXPROCS settings) for the rest",
    "trace validation: the instrumentation (regex rewriter in this file, go build -overlay) and the trace normaliser "
    "(drops receive-side records after checking payload equality) are trusted; a send is linearised at its "
    "'before send' record",
]

# ------------------------------------------------------------------ scripts
VAL_SHAPES = [
    lambda k: [],
    lambda k: ["i%d" % (10 * k)],
    lambda k: ["n", "i%d" % (10 * k + 1)],
    lambda k: ["i%d" % (10 * k + 2), "n"],
    lambda k: ["b0", "i%d" % (10 * k + 3), "n", "n"],
]


def vals_for(k, salt=0):
    return VAL_SHAPES[(k + salt) % len(VAL_SHAPES)](k)


def act_tok(op, i, k, salt=0):
    """script token of action op on slot i at 1-based position k"""
    if op in ("c", "w", "x", "t"):
        return "%s%d" % (op, i)
    if op in ("r", "p"):
        v = vals_for(k, salt)
        return "%s%d:%s" % (op, i, ",".join(v) if v else "-")
    if op in ("y", "ret"):
        v = vals_for(k, salt + 1)
        return "%s:%s" % (op, ",".join(v) if v else "-")
    if op == "e":
        return "e:i%d" % (1000 + k)
    return "i"


def enum_scripts(depth, maxslots=3, only_len=None):
    """generator: every action sequence of length <= depth, slots introduced in order, only created slots
    referenced, nothing after a main-level terminal action when no coroutine exists yet"""
    def rec(prefix, created, k):
        if prefix and (only_len is None or len(prefix) == only_len):
            yield list(prefix)
        if k > depth:
            return
        opts = []
        for j in range(min(created + 1, maxslots)):
            opts.append(("c", j, created + 1 if j == created else created))
            opts.append(("w", j, created + 1 if j == created else created))
        for j in range(created):
            for op in ("r", "p", "x", "t"):
                opts.append((op, j, created))
        for op in ("y", "ret", "e", "i"):
            opts.append((op, 0, created))
        for op, j, c2 in opts:
            tok = act_tok(op, j, k)
            if created == 0 and op in ("y", "ret", "e"):
                if only_len is None or len(prefix) + 1 == only_len:
                    yield prefix + [tok]       # main-level terminal: the script ends here
                continue
            yield from rec(prefix + [tok], c2, k + 1)

    yield from rec([], 0, 1)


def rand_script(rng, maxslots=3):
    n = 4 + rng.geometric(10, 40)
    toks = []
    created = 0
    for k in range(1, n + 1):
        r = rng.below(100)
        salt = rng.below(5)
        if created == 0 or r < 14:
            j = rng.below(min(created + 1, maxslots))
            toks.append(act_tok("c" if rng.chance(3, 5) else "w", j, k))
            created = max(created, j + 1)
        elif r < 50:
            toks.append(act_tok("r" if rng.chance(3, 4) else "p", rng.below(created), k, salt))
        elif r < 70:
            toks.append(act_tok("y", 0, k, salt))
        elif r < 76:
            toks.append(act_tok("ret", 0, k, salt))
        elif r < 82:
            toks.append(act_tok("e", 0, k))
        elif r < 89:
            toks.append(act_tok("x", rng.below(created), k))
        elif r < 97:
            toks.append(act_tok("t", rng.below(created), k))
        else:
            toks.append("i")
    return toks


LUA_PRELUDE = r"""
local S, TBC = SCRIPT, TBCFLAG
local pc, nid, slot, kind, h, w = 0, -1, {}, {}, {}, {}
local mt = {__close = function(o, e)
  emit("C", o.id, e)
  if TBC == 2 or (TBC == 3 and o.id % 2 == 1) then error(2000 + o.id, 0) end   -- the handler fails
end}
local run
local function body(id)
  return function(...)
    h[id] = coroutine.running()
    local x <close> = TBC ~= 0 and setmetatable({id = id}, mt) or nil
    emit("S", id, ...)
    return run()
  end
end
local function newco(i, k)
  nid = nid + 1
  local id = nid
  slot[i] = id
  kind[id] = k
  if k == "c" then h[id] = coroutine.create(body(id)) else w[id] = coroutine.wrap(body(id)) end
end
run = function()
  while true do
    pc = pc + 1
    local k = pc
    local a = S[k]
    if not a then return end
    local op, i = a[1], a[2]
    local id = slot[i]
    if op == "c" then newco(i, "c")
    elseif op == "w" then newco(i, "w")
    elseif op == "r" then
      if id then
        if kind[id] == "c" then emit("R", k, coroutine.resume(h[id], table.unpack(a, 3, a.n)))
        else emit("W", k, w[id](table.unpack(a, 3, a.n))) end
      end
    elseif op == "p" then
      if id then
        if kind[id] == "c" then emit("P", k, pcall(coroutine.resume, h[id], table.unpack(a, 3, a.n)))
        else emit("P", k, pcall(w[id], table.unpack(a, 3, a.n))) end
      end
    elseif op == "y" then emit("Y", k, coroutine.yield(table.unpack(a, 3, a.n)))
    elseif op == "ret" then return table.unpack(a, 3, a.n)
    elseif op == "e" then error(a[3], 0)
    elseif op == "x" then if id and h[id] then emit("X", k, pcall(coroutine.close, h[id])) end
    elseif op == "t" then if id and h[id] then emit("T", k, coroutine.status(h[id])) end
    elseif op == "i" then emit("I", k, coroutine.isyieldable(), (select(2, coroutine.running())))
    end
  end
end
return run()
"""


def lua_val(v):
    if v == "n":
        return "nil"
    if v == "b0":
        return "false"
    if v == "b1":
        return "true"
    return v[1:]


def render_lua(toks, tbc):
    ents = []
    for t in toks:
        head, _, vs = t.partition(":")
        vals = [] if vs in ("", "-") else vs.split(",")
        if head in ("y", "ret", "e", "i"):
            op, slot = head, "0"
        else:
            op, slot = head[0], head[1:]
        items = ['"%s"' % op, slot] + [lua_val(v) for v in vals]
        ents.append("{%s, n=%d}" % (", ".join(items), 2 + len(vals)))
    src = LUA_PRELUDE.replace("SCRIPT", "{" + ",".join(ents) + "}").replace("TBCFLAG", str(int(tbc)))
    return src


MSGS = {
    "cannot resume dead thread": "m0",
    "cannot resume running thread": "m1",
    "cannot yield from main thread": "m2",
    "cannot close running thread": "m3",
    "cannot close normal thread": "m4",
}
MSG_HEX = {("s" + k.encode().hex()): v for k, v in MSGS.items()}


def norm_go(line):
    """gvh line -> (status, T, R, G, trace) comparable with the oracle's"""
    f = line.split(" ")
    if len(f) < 3 or f[1] in ("CRASH", "HANG"):
        return None
    d = {}
    for t in f[2:]:
        if ":" in t:
            k, _, v = t.partition(":")
            d[k] = v
    status = f[1]

    def mapv(v):
        if v in MSG_HEX:
            return MSG_HEX[v]
        if v.startswith("s6368756e6b3a"):       # "chunk:<line>: message" — position prefix added by the runtime
            try:
                msg = re.sub(r"^chunk:\d+: ", "", bytes.fromhex(v[1:]).decode("utf8", "replace"))
                return MSGS.get(msg, v)
            except ValueError:
                pass
        return v
    tr = ";".join(",".join(mapv(v) for v in ev.split(",")) for ev in d.get("T", "-").split(";"))
    ret = d.get("R", "-")
    if status == "error":
        if ret == "s":
            try:
                msg = bytes.fromhex(d.get("E", "")).decode("utf8", "replace")
            except ValueError:
                msg = "?"
            msg = re.sub(r"^chunk:\d+: ", "", msg)
            ret = MSGS.get(msg, "s:" + msg)
    else:
        ret = ",".join(mapv(v) for v in ret.split(","))
    return status, tr, ret, d.get("G", "?"), d.get("TR", "-")


def norm_model(line):
    f = line.split(" ")
    d = {}
    for t in f[2:]:
        k, _, v = t.partition(":")
        d[k] = v
    return f[1], d.get("T", "-"), d.get("R", "-"), d.get("G", "0")



# ------------------------------------------------------------------ (e) yields inside protected calls
# coroutine.close "runs the pending to-be-closed handlers": also those declared INSIDE pcall / xpcall /
# runtime.callcontext frames the coroutine is suspended in (nested), innermost first, each handler receiving the
# error raised by the previous one.  Template family + its expected event log (written from the manual).
PROT = {"p": ("pcall(function()", "end)"), "x": ("xpcall(function()", "end, function(m) return m end)"),
        "c": ("runtime.callcontext({}, function()", "end)")}


def protected_family():
    import itertools
    out = []
    for d in (1, 2, 3):
        for kinds in itertools.product("pxc", repeat=d):
            for outside in (0, 1):
                for ending in ("close", "closefail", "finish", "error"):
                    out.append(("".join(kinds), outside, ending))
    return out


def render_protected(kinds, outside, ending):
    d = len(kinds)
    L = ['local function tbc(n, fail) return setmetatable({}, {__close=function(_, e) emit("C", n, e); if fail then error(fail, 0) end end}) end',
         "local co = coroutine.create(function()"]
    if outside:
        L.append("  local o <close> = tbc(0)")
    for i, k in enumerate(kinds, 1):
        L.append("  " * i + PROT[k][0])
        L.append("  " * (i + 1) + "local v%d <close> = tbc(%d%s)" % (i, i, ", 7" if (ending == "closefail" and i == d) else ""))
    L.append("  " * (d + 1) + 'emit("Y", coroutine.yield(1))')
    L.append("  " * (d + 1) + ('error(5, 0)' if ending == "error" else 'emit("after")'))
    for i in range(d, 0, -1):
        L.append("  " * i + PROT[kinds[i - 1]][1])
    L.append("end)")
    L.append("emit(coroutine.resume(co))")
    if ending in ("finish", "error"):
        L.append("emit(coroutine.resume(co, 9))")
    else:
        L.append("emit(coroutine.close(co))")
    L.append("emit(coroutine.status(co)); emit(coroutine.close(co))")
    return "\n".join(L)


def expected_protected(kinds, outside, ending):
    d = len(kinds)
    C, Y = "s43", "s59"
    ev = ["b1,i1"]
    if ending in ("close", "closefail"):
        e = "n"
        for lvl in range(d, 0, -1):
            ev.append("%s,i%d,%s" % (C, lvl, e))
            if ending == "closefail" and lvl == d:
                e = "i7"
        if outside:
            ev.append("%s,i0,%s" % (C, e))
        res = "b1" if e == "n" else "b0,i7"
        ev += [res, "s64656164", res]
    else:
        ev.append("%s,i9" % Y)
        if ending == "finish":
            ev.append("s6166746572")
        for lvl in range(d, 0, -1):
            ev.append("%s,i%d,%s" % (C, lvl, "i5" if (ending == "error" and lvl == d) else "n"))
        if outside:
            ev.append("%s,i0,n" % C)
        ev += ["b1", "s64656164", "b1"]
    return "ok T:" + ";".join(ev) + " R:"


# ------------------------------------------------------------------ instrumentation (c)
TRACE_GO = r'''//go:build veriftrace

package runtime

// Generated by /verif/lib/props/C09.py into /verif/.work (never in /repo): records the atomic
// actions of the hand-off protocol in runtime/thread.go, tagged with the goroutine that performs them.
import (
	"bytes"
	goruntime "runtime"
	"strconv"
	"strings"
	"sync"
)

var verifTr struct {
	mu   sync.Mutex
	on   bool
	gids map[uint64]int
	tids map[*Thread]int
	next int
	ev   []string
}

func verifGid() uint64 {
	var buf [64]byte
	b := buf[:goruntime.Stack(buf[:], false)]
	b = bytes.TrimPrefix(b, []byte("goroutine "))
	i := bytes.IndexByte(b, ' ')
	n, _ := strconv.ParseUint(string(b[:i]), 10, 64)
	return n
}

// VerifTraceReset starts a new trace; the calling goroutine is goroutine 0 (main thread).
func VerifTraceReset() {
	verifTr.mu.Lock()
	defer verifTr.mu.Unlock()
	verifTr.on = true
	verifTr.gids = map[uint64]int{verifGid(): 0}
	verifTr.tids = map[*Thread]int{}
	verifTr.next = 1
	verifTr.ev = nil
}

func VerifTraceDump() string {
	verifTr.mu.Lock()
	defer verifTr.mu.Unlock()
	verifTr.on = false
	if len(verifTr.ev) == 0 {
		return "-"
	}
	return strings.Join(verifTr.ev, ";")
}

func verifWho() string {
	if g, ok := verifTr.gids[verifGid()]; ok {
		return strconv.Itoa(g)
	}
	return "?"
}

func verifTid(t *Thread) string {
	if t == nil {
		return "nil"
	}
	if t.IsMain() {
		return "0"
	}
	if id, ok := verifTr.tids[t]; ok {
		return strconv.Itoa(id)
	}
	return "?"
}

// veriftrace records label l for the current goroutine.
func veriftrace(l string) {
	verifTr.mu.Lock()
	if verifTr.on {
		verifTr.ev = append(verifTr.ev, verifWho()+":"+l)
	}
	verifTr.mu.Unlock()
}

// veriftraceT records label l followed by the id of thread t (and optional suffix).
func veriftraceT(l string, t *Thread, suffix string) {
	verifTr.mu.Lock()
	if verifTr.on {
		verifTr.ev = append(verifTr.ev, verifWho()+":"+l+verifTid(t)+suffix)
	}
	verifTr.mu.Unlock()
}

// veriftraceNew: thread t is being started by the current goroutine.
func veriftraceNew(t *Thread) {
	verifTr.mu.Lock()
	if verifTr.on {
		verifTr.tids[t] = verifTr.next
		verifTr.next++
		verifTr.ev = append(verifTr.ev, verifWho()+":C")
	}
	verifTr.mu.Unlock()
}

// veriftraceGo: the current goroutine is the one that runs thread t.
func veriftraceGo(t *Thread) {
	verifTr.mu.Lock()
	if verifTr.on {
		if id, ok := verifTr.tids[t]; ok {
			verifTr.gids[verifGid()] = id
		}
	}
	verifTr.mu.Unlock()
}

func verifMsgKind(args []Value, err error, exception interface{}) string {
	if exception != nil {
		if _, ok := exception.(threadClose); ok {
			return "c"
		}
		return "t"
	}
	if err != nil {
		return "e" + strconv.Itoa(len(args))
	}
	return "v" + strconv.Itoa(len(args))
}
'''


# the call in Thread.end that runs the pending to-be-closed handlers (its name changed once already)
CLEANUP_RE = r"err = t\.\w*[cC]lose\w*\("


def func_span(src, name):
    m = re.search(r"^func \(t \*Thread\) %s\(.*$" % re.escape(name), src, re.M)
    if not m:
        raise ValueError("function %s not found" % name)
    e = src.index("\n}\n", m.end())
    return m.start(), e + 3


def ins(body, pattern, code, where, occurrence=1, fn=""):
    """insert the statement `code` before/after the occurrence-th line matching pattern"""
    lines = body.split("\n")
    seen = 0
    if occurrence == -1:      # the last occurrence (the main path; earlier ones are early-exit branches)
        occurrence = sum(1 for l in lines if re.search(pattern, l))
    for i, l in enumerate(lines):
        if re.search(pattern, l):
            seen += 1
            if seen == occurrence:
                indent = re.match(r"\s*", l).group(0)
                if where == "before":
                    lines.insert(i, indent + code)
                elif where == "after":
                    lines.insert(i + 1, indent + code)
                else:   # replace
                    lines[i] = indent + code
                return "\n".join(lines)
    raise ValueError("%s: pattern %r (occurrence %d) not found" % (fn, pattern, occurrence))


def instrument_thread_go(src):
    """thread.go of /repo's current working tree -> instrumented copy (a Go build tag keeps the original
    semantics: only veriftrace* calls are added).  Raises ValueError when the code no longer has the
    shape the protocol model mirrors."""
    def edit(name, f):
        nonlocal src
        a, b = func_span(src, name)
        src = src[:a] + f(src[a:b]) + src[b:]

    def resume_like(name, lab):
        def f(b):
            b = ins(b, r"^\s*t\.mux\.Lock\(\)", 'veriftraceT("%s", t, %s)' % (lab[0], lab[1]), "before", 1, name)
            b = ins(b, r"^\s*t\.mux\.Lock\(\)", 'veriftrace("s1"); veriftrace("s2")', "after", 1, name)
            if re.search(r"caller\.resumeDepth >=", b):     # Resume's refusal after the status test (model: LRefuse at R3)
                b = ins(b, r"^\s*if caller\.resumeDepth >=", 'veriftrace("RF")', "after", 1, name)
            b = ins(b, r"^\s*caller\.mux\.Lock\(\)", 'veriftrace("s3")', "after", 1, name)
            b = ins(b, r"^\s*t\.caller = caller", 'veriftrace("s4")', "before", 1, name)
            b = ins(b, r"^\s*t\.mux\.Unlock\(\)", 'veriftrace("s5")', "before", -1, name)
            b = ins(b, r"^\s*caller\.mux\.Unlock\(\)", 'veriftrace("s6")', "before", 1, name)
            b = ins(b, r"^\s*t\.sendResumeValues\(", 'veriftrace("D")', "before", 1, name)
            return b
        edit(name, f)

    resume_like("Resume", ("R", '"."+strconv.Itoa(len(args))'))
    resume_like("Close", ("X", '""'))

    def fy(b):
        b = ins(b, r"^\s*t\.mux\.Lock\(\)", 'veriftrace("Y" + strconv.Itoa(len(args)))', "before", 1, "Yield")
        b = ins(b, r"^\s*t\.mux\.Lock\(\)", 'veriftrace("s11"); veriftrace("s12")', "after", 1, "Yield")
        b = ins(b, r"^\s*caller\.mux\.Lock\(\)", 'veriftrace("s13")', "after", 1, "Yield")
        b = ins(b, r"^\s*t\.status = ThreadSuspended", 'veriftrace("s14")', "before", 1, "Yield")
        b = ins(b, r"^\s*t\.mux\.Unlock\(\)", 'veriftrace("s15")', "before", -1, "Yield")
        b = ins(b, r"^\s*caller\.mux\.Unlock\(\)", 'veriftrace("s16")', "before", 1, "Yield")
        b = ins(b, r"^\s*caller\.sendResumeValues\(", 'veriftrace("D")', "before", 1, "Yield")
        return b
    edit("Yield", fy)

    def fe(b):
        lines = b.split("\n")

        def idx(pat):
            return next((i for i, l in enumerate(lines) if re.search(pat, l)), None)
        send, rel = idx(r"caller\.sendResumeValues\("), idx(r"t\.ReleaseBytes\(")
        lock, clean = idx(r"^\s*t\.mux\.Lock\(\)"), idx(CLEANUP_RE)
        if send is None or lock is None or clean is None:
            raise ValueError("end: send / lock / cleanupCloseStack not found")
        b = ins(b, r"^\s*caller := t\.caller", 'veriftrace("F" + verifMsgKind(args, err, exception)); veriftrace("s20")', "before", 1, "end")
        if clean < lock:
            # repaired order: the handler phase precedes the locked section; its end is one action
            b = ins(b, r"^\s*t\.mux\.Lock\(\)", 'veriftrace("HD" + verifMsgKind(args, err, exception))', "before", 1, "end")
        else:
            # handlers inside the locked section (old code): action 25 after they ran
            b = ins(b, CLEANUP_RE, 'veriftrace("s25")', "after", 1, "end")
        b = ins(b, r"^\s*t\.mux\.Lock\(\)", 'veriftrace("s21")', "after", 1, "end")
        b = ins(b, r"^\s*caller\.mux\.Lock\(\)", 'veriftrace("s22")', "after", 1, "end")
        b = ins(b, r"^\s*defer t\.mux\.Unlock\(\)", 'defer func() { veriftrace("s30"); t.mux.Unlock() }()', "replace", 1, "end")
        b = ins(b, r"^\s*defer caller\.mux\.Unlock\(\)", 'defer func() { veriftrace("s29"); caller.mux.Unlock() }()', "replace", 1, "end")
        b = ins(b, r"^\s*close\(t\.resumeCh\)", 'veriftrace("s23")', "before", 1, "end")
        b = ins(b, r"^\s*t\.status = ThreadDead", 'veriftrace("s24")', "before", 1, "end")
        b = ins(b, r"^\s*t\.closeErr = err", 'veriftrace("s26")', "before", 1, "end")
        if rel is not None:
            b = ins(b, r"^\s*t\.ReleaseBytes\(", 'veriftrace("%s")' % ("s27" if rel < send else "s28"), "before", 1, "end")
        b = ins(b, r"^\s*caller\.sendResumeValues\(", 'veriftrace("M" + verifMsgKind(args, err, exception)); veriftrace("D")', "before", 1, "end")
        return b
    edit("end", fe)

    def fs(b):
        b = ins(b, r"^\s*go func\(\) \{", "veriftraceNew(t)", "before", 1, "Start")
        b = ins(b, r"^\s*go func\(\) \{", "veriftraceGo(t)", "after", 1, "Start")
        return b
    edit("Start", fs)

    def fg(b):
        b = ins(b, r"^\s*res := <-t\.resumeCh", 'veriftrace("rv" + verifMsgKind(res.args, res.err, res.exception))', "after", 1, "getResumeValues")
        return b
    edit("getResumeValues", fg)
    src = src.replace('import (\n', 'import (\n\t"strconv"\n', 1)
    return src


def build_trace_binary(ck):
    d = os.path.join(ck.work, "overlay")
    os.makedirs(d, exist_ok=True)
    src = open(os.path.join(vlib.REPO, "runtime", "thread.go")).read()
    inst = instrument_thread_go(src)
    open(os.path.join(d, "thread.go"), "w").write(inst)
    open(os.path.join(d, "verif_trace_overlay.go"), "w").write(TRACE_GO)
    ov = {"Replace": {os.path.join(vlib.REPO, "runtime", "thread.go"): os.path.join(d, "thread.go"),
                      os.path.join(vlib.REPO, "runtime", "verif_trace_overlay.go"): os.path.join(d, "verif_trace_overlay.go")}}
    extra = os.environ.get("VERIF_C09_OVERLAY") or os.environ.get("VERIF_OVERLAY")   # mutation / seeded-change runs: overlay to merge (its thread.go is instrumented too)
    if extra:
        ex = json.load(open(extra))["Replace"]
        for k, v in ex.items():
            if k.endswith("runtime/thread.go"):
                open(os.path.join(d, "thread.go"), "w").write(instrument_thread_go(open(v).read()))
            else:
                ov["Replace"][k] = v
    ovp = os.path.join(d, "overlay.json")
    json.dump(ov, open(ovp, "w"))
    return ck.build_gvh(tags=("verif", "veriftrace"), pkg="./cmd/gvh-thread", name="gvh_thread_trace" + ("_mut" if extra else ""), overlay=ovp)


def normalise_trace(tr):
    """recorded trace -> (acceptor trace tokens, problems).  Receive records ('rv..') are dropped after
    checking that the payload equals the payload of the send that precedes them; the F (Lua finished)
    record that follows a receive of an exception is dropped (the model goes to end directly)."""
    toks = [] if tr in ("-", "") else tr.split(";")
    out = []
    problems = []
    pending = None          # payload kind of the last send not yet received
    drop_f = set()          # goroutines whose next F record is implied by a received exception
    last_lua = {}           # goroutine -> pending Lua decision payload (R<t>.<n> / Y<n> / F<m>)
    for t in toks:
        g, _, l = t.partition(":")
        if g == "?":
            problems.append("unknown goroutine in " + t)
            continue
        if l.startswith("rv"):
            kind = l[2:]
            if pending is None:
                problems.append("receive without send: " + t)
            elif pending != kind:
                problems.append("payload differs: sent %s received %s" % (pending, kind))
            pending = None
            if kind in ("c", "t"):
                drop_f.add(g)
            continue
        if l.startswith("F"):
            m = l[1:]
            if g in drop_f:
                drop_f.discard(g)
                last_lua[g] = m      # what end() really sends (after a threadClose: Start's stale `args`; ignored by Close)
                continue
            if g == "0":
                continue
            last_lua[g] = m
            out.append("%s:F%s" % (g, m if m[0] in "ve" else "t"))
            continue
        if l.startswith("HD"):
            m = l[2:]
            out.append("%s:HD%s" % (g, m if m[0] in "ve" else "t"))
            continue
        if l[0] == "M":          # what end is about to send (after the handlers may have changed err)
            last_lua[g] = l[1:]
            continue
        if l == "RF":
            pass
        elif l[0] == "R":
            last_lua[g] = "v" + l.split(".")[1]
        elif l[0] == "X":
            last_lua[g] = "c"
        elif l[0] == "Y":
            last_lua[g] = "v" + l[1:]
        elif l == "D":
            pending = last_lua.get(g)
        out.append(t)
    return out, problems


# ------------------------------------------------------------------ special scripts (d)
def load_specials():
    """corpus/C09/special-*.lua: quota kills inside coroutines, __close handlers run by Thread.end that do
    coroutine operations / yield / exhaust the quota (witnesses of the fixed findings; replayed first forever).
    Header: -- limits: .. / -- expect: <prefix of the result line> / -- goroutines: N / -- finding: id"""
    d = os.path.join(vlib.VERIF, "corpus", "C09")
    out = []
    for fn in sorted(os.listdir(d)) if os.path.isdir(d) else []:
        if fn.startswith("special-") and fn.endswith(".lua"):
            txt = open(os.path.join(d, fn)).read()
            hdr = dict(re.findall(r"^-- (\w+): ?(.*)$", txt, re.M))
            lua = "\n".join(l for l in txt.split("\n") if not re.match(r"^-- (limits|expect|goroutines|finding):", l))
            out.append((fn[8:-4], lua, hdr.get("limits", "").strip(), hdr.get("expect", "").strip() or None,
                        int(hdr.get("goroutines", "0") or 0), hdr.get("finding", "").strip()))
    return out


# to-be-closed mode of a script: 0 none, 1 handler records its call, 2 ... and raises its own error,
# 3 only handlers of odd-numbered coroutines raise (so that failing and succeeding handlers meet)
TBC_CYCLE = [1, 2, 0, 3, 2, 1, 3]


def hexsrc(s):
    return s.encode().hex()


def par_resilient(binary, args, lines, workers=6, **kw):
    """run_lines_resilient over `workers` child processes (contiguous chunks; order preserved)"""
    import threading
    if len(lines) < 4 * workers:
        return vlib.run_lines_resilient(binary, args, lines, **kw)
    sz = (len(lines) + workers - 1) // workers
    chunks = [lines[i:i + sz] for i in range(0, len(lines), sz)]
    res = [None] * len(chunks)

    def work(j):
        res[j] = vlib.run_lines_resilient(binary, args, chunks[j], **kw)
    ths = [threading.Thread(target=work, args=(j,)) for j in range(len(chunks))]
    for t in ths:
        t.start()
    for t in ths:
        t.join()
    return [l for r in res for l in r]


def run(tier, seed):
    ck = vlib.Check("C09", tier, seed, level="proof")
    ok_obl = ck.obligations(PROP, clean=False)
    mut = os.environ.get("VERIF_C09_OVERLAY")     # mutation experiments only: go build -overlay file
    sfx = "_mut" if mut else ""
    gvt, err = ck.build_gvh(pkg="./cmd/gvh-thread", name="gvh_thread" + sfx, overlay=mut)
    if gvt is None:
        ck.violation("harness does not build against /repo", {"kind": "build", "stderr": err[-3000:]}, no_input=True)
        return ck.finish("n/a", TRUSTED, [])
    oracle = ck.build_oracle("thread")
    if oracle is None:
        ck.violation("oracle (extracted model) does not build", {"kind": "build"}, no_input=True)
        return ck.finish("n/a", TRUSTED, [])
    known = {k["id"]: k for k in ck.known}

    # ---------------- (d) special scripts (corpus): quota kills and __close handlers run by Thread.end
    SPECIAL = load_specials()
    sl = ["q%d %s %s exp=%d" % (i, hexsrc(lua), lim, g) for i, (nm, lua, lim, ex, g, fid) in enumerate(SPECIAL)]
    so = vlib.run_lines_resilient(gvt, ["script"], sl, per_case_timeout=8)
    for i, (nm, lua, lim, ex, g, fid) in enumerate(SPECIAL):
        o = so[i] if i < len(so) else "?"
        ck.count("special:" + nm)
        ck.case("special:" + nm, True)
        f = o.split(" ")
        bad = None
        if len(f) > 1 and f[1] == "HANG":
            bad = "deadlock"
        elif len(f) > 1 and f[1] == "CRASH":
            bad = "crash"
        elif ex is not None and not any(" ".join(f[1:]).startswith(x.strip()) for x in ex.split(" || ")):
            bad = "wrong-result"
        elif ("G:%d" % g) not in f:
            bad = "goroutines-left"
        if bad:
            k = ck.known_match(lambda k: k.get("match", {}).get("special") == nm and k.get("match", {}).get("outcome") == bad)
            if k:
                ck.known_finding(k)
            else:
                ck.violation("special coroutine script %s: %s%s" % (nm, bad, (" (regression of fixed finding %s)" % fid) if fid else ""),
                             {"kind": "Go!=S", "engine": "thread", "special": nm, "lua": lua, "limits": lim, "impl": o[:1500],
                              "expected_prefix": ex, "expected_goroutines": g, "theorems": ["C09_no_deadlock"]})
    ck.log("(d) %d special scripts" % len(SPECIAL))

    # ---------------- (e) coroutines suspended inside pcall / xpcall / runtime.callcontext with <close> variables, then closed
    fam = protected_family()
    fl = ["y%d %s exp=0" % (i, hexsrc(render_protected(*f))) for i, f in enumerate(fam)]
    fo = par_resilient(gvt, ["script"], fl, per_case_timeout=20)
    nprot = 0
    for i, f in enumerate(fam):
        o = fo[i] if i < len(fo) else "? ?"
        ck.case("protected:%s:%d:%s" % f, True)
        ck.count("protected-ending:" + f[2])
        ck.count("protected-depth:%d" % len(f[0]))
        exp = expected_protected(*f)
        got = " ".join(o.split(" ")[1:])
        if not got.startswith(exp) or " G:0 " not in o + " ":
            nprot += 1
            if nprot <= 3:
                ck.violation("coroutine suspended inside protected calls (%s, outside variable: %d, then %s): the to-be-closed handlers that ran / the results "
                             "differ from the manual's (close runs ALL pending handlers, innermost first)" % f,
                             {"kind": "Go!=S", "engine": "thread", "family": "protected-yield", "kinds": f[0], "outside": f[1], "ending": f[2],
                              "lua": render_protected(*f), "impl": o[:1200], "expected_prefix": exp, "theorems": ["C09_S_die_keeps_delivered_error"]})
    ck.cov["protected_yield_scripts"] = len(fam)
    ck.cov["protected_yield_differences"] = nprot
    ck.log("(e) %d protected-yield scripts, %d differences" % (len(fam), nprot))

    # ---------------- (a) scripts
    scripts = []     # (tokens, tbc)
    corpus = os.path.join(vlib.VERIF, "corpus", "C09")
    ncorpus = 0
    if os.path.isdir(corpus):
        for fn in sorted(os.listdir(corpus)):
            if fn.endswith(".scripts"):
                for l in open(os.path.join(corpus, fn)):
                    l = l.strip()
                    if l and not l.startswith("#"):
                        tbc, _, sc = l.partition(" ")
                        scripts.append((sc.split(";"), int(tbc)))
                        ncorpus += 1
    depth_full = 4 if tier == "quick" else 5
    full = list(enum_scripts(depth_full))
    for i, sc in enumerate(full):
        if len(sc) <= 3:
            for md in (0, 1, 2, 3):      # short scripts: every to-be-closed mode
                scripts.append((sc, md))
        else:
            scripts.append((sc, TBC_CYCLE[i % len(TBC_CYCLE)]))
    nfull = len(scripts) - ncorpus
    # deterministic slice of the next depth(s)
    nslice = 0
    stride = 151 if tier == "quick" else 29
    ndeeper = 0
    for i, sc in enumerate(enum_scripts(depth_full + 1, only_len=depth_full + 1)):
        ndeeper += 1
        if i % stride == 0:
            scripts.append((sc, TBC_CYCLE[(i + 1) % len(TBC_CYCLE)]))
            nslice += 1
    nrand = 800 if tier == "quick" else 60000
    for i in range(nrand):
        scripts.append((rand_script(ck.rng), TBC_CYCLE[i % len(TBC_CYCLE)]))
    ck.log("scripts: corpus %d, all of depth<=%d: %d, slice of depth %d: %d (of %d), random %d" % (
        ncorpus, depth_full, nfull, depth_full + 1, nslice, ndeeper, nrand))
    mlines = ["s%d S %d 3 %s" % (i, int(tbc), ";".join(sc)) for i, (sc, tbc) in enumerate(scripts)]
    rc2, model, e2 = vlib.run_lines(oracle, [], mlines, timeout=1800)
    if rc2 != 0 or len(model) != len(mlines):
        ck.violation("oracle crashed (%d/%d lines): %s" % (len(model), len(mlines), e2[-300:]), {"kind": "oracle-crash", "stderr": e2[-2000:]}, no_input=True)
        return ck.finish("n/a", TRUSTED, [])
    sources = [render_lua(sc, tbc) for sc, tbc in scripts]
    glines = []
    for i, src in enumerate(sources):
        exp = norm_model(model[i])[3]
        glines.append("s%d %s exp=%s" % (i, hexsrc(src), exp))
    # probe batch first: when the implementation hangs/crashes on many scripts (e.g. a broken status
    # test) every case costs a watchdog timeout — report and do not run the remaining thousands
    nprobe = min(len(glines), 360)
    impl = par_resilient(gvt, ["script"], glines[:nprobe], workers=12, per_case_timeout=20)
    nbad = sum(1 for o in impl if o.split(" ")[1:2] in (["HANG"], ["CRASH"]))
    # ... and likewise when goroutines are left behind on many scripts: every such case costs a settling wait
    # (gvh-thread caps the total at 20 s per process, after which it no longer waits)
    nleak = 0
    for j, o in enumerate(impl):
        g = norm_go(o)
        if g is not None and g[3] != norm_model(model[j])[3]:
            nleak += 1
    if nbad > 5 or nleak > 5:
        ck.log("(a) of the first %d scripts %d hang/crash and %d leave goroutines behind: skipping the remaining scripts" % (nprobe, nbad, nleak))
        scripts, sources, model = scripts[:nprobe], sources[:nprobe], model[:nprobe]
    else:
        impl += par_resilient(gvt, ["script"], glines[nprobe:], per_case_timeout=20)
    # a sample again with a message handler installed in the ROOT context the way the golua CLI does
    # (Runtime.PushContext: no owning thread): an error inside a coroutine must still reach its resumer as the
    # value raised; only an error that reaches the top of the main thread may go through that handler
    rsel = [i for i in range(len(scripts)) if i < ncorpus or i % 13 == 0][:700]
    rimpl = par_resilient(gvt, ["script"], [glines[i] + " rooth=1" for i in rsel], per_case_timeout=20)
    nroot = 0
    for j, i in enumerate(rsel):
        g = norm_go(rimpl[j]) if j < len(rimpl) else None
        m = norm_model(model[i])
        ck.count("root-handler-runs")
        if g is None or (g[0], g[1]) != (m[0], m[1]) or (m[0] != "error" and g[2] != m[2]):
            nroot += 1
            if nroot <= 2:
                ck.violation("with a message handler in the root context (as the golua command installs it) a coroutine script no longer "
                             "behaves as the coroutine semantics says: the handler is applied to errors inside coroutines",
                             {"kind": "Go!=S", "engine": "thread", "script": ";".join(scripts[i][0]), "tbc": scripts[i][1], "root_handler": True,
                              "lua": sources[i], "impl": rimpl[j] if j < len(rimpl) else None, "model": model[i],
                              "theorems": ["C09_S_die_keeps_delivered_error"]})
    ck.cov["root_handler_runs"] = len(rsel)
    ck.cov["root_handler_differences"] = nroot
    ndiff = 0
    gleft = 0
    for i, (sc, tbc) in enumerate(scripts):
        m = norm_model(model[i])
        g = norm_go(impl[i]) if i < len(impl) else None
        for t in sc:
            ck.count("act:" + re.match(r"[a-z]+", t).group(0))
        ck.count("len:%d" % min(len(sc), 12))
        ck.count("model-outcome:" + m[0])
        nev = 0 if m[1] == "-" else m[1].count(";") + 1
        ck.case("%d " % int(tbc) + ";".join(sc), nontrivial=nev >= 2)
        ck.count("tbc-mode:%d" % int(tbc))
        if g is None:
            ndiff += 1
            if ndiff <= 3:
                ck.violation("coroutine script makes the implementation hang or crash: " + (impl[i][:200] if i < len(impl) else "no output"),
                             {"kind": "Go!=S", "engine": "thread", "script": ";".join(sc), "tbc": tbc, "lua": sources[i],
                              "impl": impl[i] if i < len(impl) else None, "model": model[i], "theorems": ["C09_no_deadlock"]})
            continue
        if (g[0], g[1], g[2]) != (m[0], m[1], m[2]):
            ndiff += 1
            if ndiff <= 3:
                small = shrink_script(sc, tbc, gvt, oracle)
                ck.violation("coroutine script: implementation differs from the sequential coroutine semantics (values/statuses/errors)",
                             {"kind": "Go!=S", "engine": "thread", "script": ";".join(small[0]), "tbc": tbc, "lua": render_lua(small[0], tbc),
                              "impl": small[1], "model": small[2], "theorems": ["C09_values_transferred_exactly", "C09_status_table", "C09_resume_guard"]})
        elif g[3] != m[3]:
            gleft += 1
            if gleft <= 3:
                ck.violation("goroutines left behind: %s remain, %s coroutines are not dead" % (g[3], m[3]),
                             {"kind": "Go!=S", "engine": "thread", "script": ";".join(sc), "tbc": tbc, "lua": sources[i],
                              "impl": impl[i], "model": model[i], "theorems": ["C09_no_goroutine_left"]})
    for i in (0, ncorpus + nfull // 2, ncorpus + nfull + 3, len(scripts) - 1):
        if 0 <= i < len(impl):
            ck.sample({"script": ";".join(scripts[i][0]), "tbc": scripts[i][1], "impl": impl[i][:300], "model": model[i][:300]})
    ck.cov["script_differences"] = ndiff
    ck.cov["goroutine_count_differences"] = gleft
    ck.log("(a) %d scripts compared, %d differences, %d goroutine-count differences" % (len(scripts), ndiff, gleft))

    # ---------------- (b) race build
    race_runs = race_reports = 0
    gvr, err = ck.build_gvh(race=True, name="gvh_race" + sfx, overlay=mut)
    if gvr is None:
        ck.violation("race build of the harness fails", {"kind": "build", "stderr": err[-3000:]}, no_input=True)
    else:
        nrace = 64 if tier == "quick" else 6000
        step = max(1, len(scripts) // nrace)
        sel = list(range(0, len(scripts), step))[:nrace]
        # always include the one-line wrap script of the fixed finding
        wrap1 = 'local f = coroutine.wrap(function() return 1 end); emit(f())'
        rl = ["w %s" % hexsrc(wrap1)] + ["s%d %s" % (i, hexsrc(sources[i])) for i in sel]
        for procs in ((1, 2, 4, 16) if tier == "thorough" else (1, 2, 4, 16)):
            lp = os.path.join(ck.work, "race-%d" % procs)
            for fn in os.listdir(ck.work):
                if fn.startswith("race-%d." % procs):
                    os.remove(os.path.join(ck.work, fn))
            sub = rl if tier == "thorough" else rl[procs % 4::4] + rl[:1]
            ro = vlib.run_lines_resilient(gvr, ["lua"], sub, per_case_timeout=60,
                                          env={"GOMAXPROCS": str(procs), "GORACE": "halt_on_error=0 log_path=%s" % lp}, mem_kb=64 * 1024 * 1024)
            race_runs += len(sub)
            ck.count("race-runs:GOMAXPROCS=%d" % procs, len(sub))
            for j, o in enumerate(ro):
                f = o.split(" ")
                if len(f) > 1 and f[1] in ("HANG", "CRASH"):
                    ck.violation("race build: script hangs/crashes under GOMAXPROCS=%d" % procs,
                                 {"kind": "Go!=S", "engine": "lua-race", "line": sub[j][:3000], "impl": o[:1500], "GOMAXPROCS": procs})
            reports = []
            for fn in os.listdir(ck.work):
                if fn.startswith("race-%d." % procs):
                    txt = open(os.path.join(ck.work, fn)).read()
                    reports += [r for r in txt.split("==================") if "DATA RACE" in r]
            race_reports += len(reports)
            if reports:
                r0 = reports[0]
                fns = [x.replace("github.com/arnodel/golua/", "") for x in re.findall(r"^\s+(github\.com/arnodel/golua/\S+?)\(\)", r0, re.M)]
                ck.violation("data race reported by the Go race detector (GOMAXPROCS=%d): %s" % (procs, " / ".join(fns[:4])),
                             {"kind": "Go!=S", "engine": "lua-race", "GOMAXPROCS": procs, "report": r0[:4000], "reports": len(reports),
                              "minimal_lua": wrap1, "theorems": ["C09_baton_unique"]})
    ck.cov["race_runs"] = race_runs
    ck.cov["race_reports"] = race_reports
    ck.log("(b) race build: %d runs, %d reports" % (race_runs, race_reports))

    # ---------------- (c) trace validation
    nvalid = 0
    try:
        gtr, err = build_trace_binary(ck)
        inst_err = None
    except ValueError as ex:
        gtr, err, inst_err = None, "", str(ex)
    if gtr is None:
        ck.violation("runtime/thread.go can no longer be instrumented/built for trace validation: %s" % (inst_err or err[-400:]),
                     {"kind": "Go!=IM", "correspondence": "Go≈IM/thread-trace", "detail": inst_err or err[-3000:],
                      "theorems_no_longer_about_this_code": ["C09_baton_unique", "C09_status_table",
                                                              "C09_no_goroutine_left", "C09_values_transferred_exactly"]}, no_input=True)
    else:
        ntr = 500 if tier == "quick" else 40000
        step = max(1, len(scripts) // ntr)
        sel = list(range(0, len(scripts), step))[:ntr]
        tl = ["s%d %s exp=%s" % (i, hexsrc(sources[i]), norm_model(model[i])[3]) for i in sel]
        to = par_resilient(gtr, ["script"], tl, per_case_timeout=20)
        # the special scripts too (handler phase of end doing coroutine operations, kills)
        sto = vlib.run_lines_resilient(gtr, ["script"], sl, per_case_timeout=8)
        splines = []
        for j, o in enumerate(sto):
            if SPECIAL[j][0] == "resumer-chain-too-deep" and tier == "quick":
                continue     # 21 000 actions: 45 s in the extracted acceptor (functional state); replayed in thorough (accepted, incl. LRefuse)
            g = norm_go(o)
            if g is None:
                ck.violation("special script %s hangs/crashes on the instrumented build" % SPECIAL[j][0], {"kind": "Go!=IM", "impl": o[:800]}, no_input=True)
                continue
            toks, problems = normalise_trace(g[4])
            splines.append((SPECIAL[j][0], toks, problems))
        _, spo, _ = vlib.run_lines(oracle, [], ["q%d P current %s" % (j, ";".join(t[1])) for j, t in enumerate(splines)], timeout=120)
        for j, o in enumerate(spo):
            nm, toks, problems = splines[j]
            nvalid += 1
            ck.count("trace-special")
            if problems or not o.endswith("accept"):
                ck.violation("recorded action trace of special script %s is not a behaviour of the protocol model: %s" % (nm, problems[0] if problems else o),
                             {"kind": "Go!=IM", "correspondence": "Go≈IM/thread-trace", "special": nm, "trace": ";".join(toks), "acceptor": o}, no_input=True)
            elif nm == "handler-resumes-in-close":
                ck.sample({"trace_of_special": nm, "trace": ";".join(toks)[:900]})
        plines, meta = [], []
        for j, o in enumerate(to):
            g = norm_go(o)
            if g is None:
                continue
            toks, problems = normalise_trace(g[4])
            meta.append((sel[j], toks, problems, g))
            plines.append("p%d P current %s" % (sel[j], ";".join(toks)))
        rc3, po, e3 = vlib.run_lines(oracle, [], plines, timeout=1800)
        nrej = 0
        for j, o in enumerate(po):
            i, toks, problems, g = meta[j]
            m = norm_model(model[i])
            nvalid += 1
            ck.count("trace-len:%d" % (10 * (len(toks) // 10)))
            bad = None
            if problems:
                bad = problems[0]
            elif not o.endswith("accept"):
                idx = int(o.split()[-1])
                bad = "acceptor rejects action %d (%s)" % (idx, toks[idx] if idx < len(toks) else "?")
            elif (g[0], g[1], g[2]) != (m[0], m[1], m[2]):
                bad = "instrumented build changes the script's result"
            if bad:
                nrej += 1
                if nrej <= 2:
                    # does the old-order protocol accept it?  (regression: ReleaseBytes moved back after the send)
                    _, po2, _ = vlib.run_lines(oracle, [], ["x P old %s" % ";".join(toks), "y P oldh %s" % ";".join(toks)], timeout=60)
                    po2 = [l for l in po2 if l.endswith("accept")] or po2
                    ck.violation("recorded action trace of runtime/thread.go is not a behaviour of the protocol model: " + bad,
                                 {"kind": "Go!=IM", "correspondence": "Go≈IM/thread-trace", "script": ";".join(scripts[i][0]), "tbc": scripts[i][1],
                                  "trace": ";".join(toks), "problem": bad, "old_protocols(old_order/old_handlers)": (po2[0] if po2 else None),
                                  "note": "if an old protocol accepts: the code is back to a refuted variant — Proto.baton_unique_old_order_refuted (ReleaseBytes after the hand-off: data race) or no_deadlock_old_handlers_refuted (handlers inside the locked section: deadlock)",
                                  "lua": sources[i], "theorems_no_longer_about_this_code": ["C09_baton_unique", "C09_no_deadlock_partial",
                                                                                             "C09_no_goroutine_left", "C09_values_transferred_exactly"]},
                                 no_input=not (po2 and po2[0].endswith("accept")))
        ck.cov["traces_validated_against_impl"] = nvalid - nrej
        ck.cov["traces_rejected"] = nrej
        ck.log("(c) %d traces replayed through Proto.first_reject, %d rejected" % (nvalid, nrej))
        if meta:
            ck.sample({"trace_of_script": ";".join(scripts[meta[0][0]][0]), "trace": ";".join(meta[0][1])[:600]})

    # fixed findings: regression notes
    for k in ck.known:
        if k.get("status") == "fixed":
            ck.notes.append("fixed finding %s (commit %s): regression guarded by race build + trace validation" % (k["id"], k.get("commit")))
    if not ok_obl:
        ck.violation("proof obligations of C09 no longer check: " + str(ck.cov.get("obligation_failure", ""))[:300],
                     {"kind": "proof", "theorem_file": PROP, "detail": ck.cov.get("obligation_failure")}, no_input=True)
    ck.cov["exhaustive"] = False
    ck.cov["enumerated_depth"] = depth_full
    return ck.finish(
        rule="coroutine scripts = one action list (create/wrap/resume/protected resume/yield/return/error/close/status/info over <= 3 slots) "
             "executed by whichever coroutine runs: every script of length <= %d (slots introduced in order), every %dth script of length %d, "
             "random scripts of length 4..44, each with and without a pending to-be-closed variable per body; value lists of 0..4 values incl. "
             "nil in first/last position; compared event by event with the extracted SpecS.srun + goroutines left; non-trivial = at least 2 "
             "transfer/status events; distinct by script text. Plus %d special scripts (quota kills, __close handlers doing coroutine ops), "
             "race-build runs under GOMAXPROCS 1/2/4/16 and recorded protocol traces replayed through the extracted acceptor" % (
                 depth_full, stride, depth_full + 1, len(load_specials())),
        trusted_base=TRUSTED,
        assumptions=["error values in scripts are integers (no position prefix); error message texts are compared by class",
                     "goroutine count is taken after a settling loop of at most 1.5 s",
                     "race freedom beyond the modelled accesses is observed, not proved (partial)"])


def run_one(sc, tbc, gvt, oracle):
    _, mo, _ = vlib.run_lines(oracle, [], ["x S %d 3 %s" % (int(tbc), ";".join(sc))], timeout=60)
    m = norm_model(mo[0])
    go = vlib.run_lines_resilient(gvt, ["script"], ["x %s exp=%s" % (hexsrc(render_lua(sc, tbc)), m[3])], per_case_timeout=15)
    g = norm_go(go[0])
    return g, m, go[0], mo[0]


def shrink_script(sc, tbc, gvt, oracle):
    def differs(cand):
        g, m, _, _ = run_one(cand, tbc, gvt, oracle)
        return g is None or (g[0], g[1], g[2]) != (m[0], m[1], m[2])
    sc = list(sc)
    changed = True
    while changed and len(sc) > 1:
        changed = False
        for i in range(len(sc)):
            cand = sc[:i] + sc[i + 1:]
            if cand and differs(cand):
                sc = cand
                changed = True
                break
    g, m, go, mo = run_one(sc, tbc, gvt, oracle)
    return sc, go, mo


def replay(path, seed):
    r = json.load(open(path))
    ck = vlib.Check("C09", "quick", seed)
    gvt, _ = ck.build_gvh(pkg="./cmd/gvh-thread", name="gvh_thread")
    oracle = ck.build_oracle("thread")
    if "script" in r and r.get("script"):
        sc = r["script"].split(";")
        g, m, go, mo = run_one(sc, int(r.get("tbc") or 0), gvt, oracle)
        print("impl :", go)
        print("model:", mo)
        print("same :", g is not None and (g[0], g[1], g[2], g[3]) == m)
    elif "lua" in r:
        o = vlib.run_lines_resilient(gvt, ["script"], ["x %s %s" % (hexsrc(r["lua"]), r.get("limits", ""))], per_case_timeout=10)
        print("impl :", o[0][:2000])
        print("expected prefix:", r.get("expected_prefix"))
    if "trace" in r:
        _, po, _ = vlib.run_lines(oracle, [], ["x P current " + r["trace"]])
        print("acceptor:", po[0] if po else None)
    return 0
