# C02 — numbers: arithmetic, comparison, bitwise ops and conversions are exact.
#
#  proof obligations : coq/theories/Properties/C02.v (models Num/Model.v = IM, Num/Spec.v = S)
#  correspondence    : gvh-num ops|str|f2i (real Go: exported/hooked functions, compiled Lua with operands as
#                      arguments and as literals) vs oracle/num (extracted IM and S)
#  property-level    : Go vs S on the whole boundary lattice x every operator (the lattice is the search)
import json
import os
import struct
import threading

from lib import vlib

PROP = ["Properties/C02.v"]
TRUSTED = [
    "Coq 8.16.1 kernel (coqc); vm_compute only in Example/_refuted witnesses",
    "axioms: none of our own; the Flocq/Reals theorems depend on the Coq standard library axioms Classical_Prop.classic, "
    "ClassicalDedekindReals.sig_not_dec, ClassicalDedekindReals.sig_forall_dec, FunctionalExtensionality.functional_extensionality_dep",
    "Flocq 4 (IEEE754.BinarySingleNaN) as the definition of binary64 arithmetic",
    "extraction: ExtrOcamlBasic only, no Extract Constant; positive/N/Z kept as Coq datatypes",
    "oracle/common/proto.ml + oracle/num/driver.ml (text protocol glue), OCaml 4.13.1",
    "Go harness harness/cmd/gvh-num/main.go, hook /repo/runtime/verif_num.go (re-exports), Python generator/diff lib/props/C02.py",
    "platform assumption: Go's int64(f) for NaN/inf/out-of-range f is -2^63 (amd64); sampled against the real conversion on every run",
    "modelled not verified: Go's float64 + - * / math.Floor/Ceil/Mod/Modf are IEEE-754 correctly rounded (compared bit-for-bit with Flocq on every case); "
    "strconv.ParseFloat/ParseInt/ParseUint (Section variables in Num/StrModel.v, sampled); math.Pow is not modelled (Go-internal consistency only)",
]

M63 = 1 << 63
M64 = 1 << 64


# ----------------------------------------------------------------------------- values
def I(n):
    assert -M63 <= n < M63
    return "I%x" % n if n >= 0 else "I-%x" % (-n)


def F(x):
    if x != x:
        return "Fnan"
    return "F%016x" % struct.unpack(">Q", struct.pack(">d", x))[0]


def Fbits(b):
    return "F%016x" % b


def val_int(v):
    return int(v[1:], 16)


def val_float(v):
    if v == "Fnan":
        return float("nan")
    return struct.unpack(">d", struct.pack(">Q", int(v[1:], 16)))[0]


def lattice_ints():
    s = set([0, 1, -1, 2, -2, 3, -3, 5, -5, 7, -7, 10, 63, 64, 65, -63, -64, -65, -M63, M63 - 1, -M63 + 1])
    for k in (7, 8, 15, 16, 31, 32, 52, 53, 54, 62):
        for d in (-1, 0, 1):
            s.add((1 << k) + d)
            s.add(-((1 << k) + d))
    for d in (1024, 769, 768, 513, 512, 511, 256, 2, 1):
        s.add(M63 - d)
        s.add(-M63 + d)
    return sorted(s)


def lattice_floats():
    fs = [0.0, -0.0, 0.5, -0.5, 1.0, -1.0, 1.5, -1.5, 2.0, -2.0, 2.5, -2.5, 3.0, -3.0, 5.0, -5.0, 5.5, -5.5,
          63.0, 64.0, 65.0, -63.0, -64.0, 0.1, -0.1,
          2.0 ** 31, -2.0 ** 31, 2.0 ** 32, 2.0 ** 52, 2.0 ** 52 + 0.5, -(2.0 ** 52 + 0.5), 2.0 ** 53 - 1, 2.0 ** 53, -2.0 ** 53, 2.0 ** 53 + 2, -(2.0 ** 53 + 2),
          2.0 ** 62, -2.0 ** 62, 2.0 ** 63, -2.0 ** 63, 2.0 ** 63 - 1024, -(2.0 ** 63 - 1024), 2.0 ** 63 + 2048, -(2.0 ** 63 + 2048),
          2.0 ** 64, -2.0 ** 64, 2.0 ** 64 - 2048, float("inf"), float("-inf"), float("nan"),
          5e-324, -5e-324, 2.2250738585072014e-308, 1.7976931348623157e308, -1.7976931348623157e308, 1e308, 1e15 + 0.5, 1e-7]
    out, seen = [], set()
    for x in fs:
        v = F(x)
        if v not in seen:
            seen.add(v)
            out.append(v)
    return out


def lattice():
    return [I(n) for n in lattice_ints()] + lattice_floats()


def rand_num(rng):
    k = rng.below(10)
    if k < 3:
        n = rng.next() & (M64 - 1)
        n >>= rng.below(64)
        n = n if rng.chance(1, 2) else -n
        n = max(-M63, min(M63 - 1, n))
        return I(n)
    if k < 5:
        # near a power of two
        p = rng.choice([31, 32, 52, 53, 54, 62, 63])
        n = (1 << p) + rng.below(2049) - 1024
        n = n if rng.chance(1, 2) else -n
        n = max(-M63, min(M63 - 1, n))
        return I(n)
    if k < 8:
        # float with boundary-biased exponent
        e = rng.choice([0, 1, 1022, 1023, 1024, 1023 + 31, 1023 + 52, 1023 + 53, 1023 + 62, 1023 + 63, 1023 + 64, 2046, 2047, rng.below(2048), rng.below(2048)])
        m = rng.choice([0, 1, (1 << 52) - 1, rng.next() & ((1 << 52) - 1), (rng.next() & ((1 << 52) - 1)) >> rng.below(52) << rng.below(40) & ((1 << 52) - 1)])
        b = (rng.below(2) << 63) | (e << 52) | m
        if e == 2047 and m != 0:
            return "Fnan"
        return Fbits(b)
    if k == 8:
        return F(float(rng.below(2000) - 1000) / rng.choice([1, 2, 4, 3, 10]))
    return rng.choice(LAT)


LAT = lattice()

BINOPS = ["add", "sub", "mul", "div", "idiv", "mod", "pow", "lt", "le", "eq", "gt", "ge", "ne",
          "band", "bor", "bxor", "shl", "shr", "fmod", "ult", "max", "min"]
UNOPS = ["unm", "bnot", "abs", "floor", "ceil", "tointeger", "modf", "mtype", "keytype", "randok"]
NOMODEL = {"pow"}          # Go-internal consistency only


def kind(v):
    if v[0] == "I":
        n = val_int(v)
        if n in (-M63, M63 - 1):
            return "int:minmax"
        if abs(n) >= M63 - 1024:
            return "int:near2^63"
        if abs(n) > (1 << 53):
            return "int:>2^53"
        if abs(n) <= 3:
            return "int:small"
        return "int:mid"
    if v == "Fnan":
        return "float:nan"
    x = val_float(v)
    if x in (float("inf"), float("-inf")):
        return "float:inf"
    if x == 0:
        return "float:zero"
    if abs(x) >= 2.0 ** 63:
        return "float:>=2^63"
    if x != int(x):
        return "float:frac"
    if abs(x) >= 2.0 ** 53:
        return "float:int>=2^53"
    return "float:int"


# ----------------------------------------------------------------------------- known-finding predicates
def is_int(v):
    return v[0] == "I"


def defect_mixed_compare(op, a, b):
    """C02-mixed-compare-2p63: the float operand is exactly 2^63 and the integer operand is >= 2^63-512
    (so that float64(n) rounds to 2^63), in a comparison that golua evaluates with ltIntAndFloat(n,f) or
    leFloatAndInt(f,n).  Same predicate as Num.MixedCmp.cmp_defect."""
    P63 = "F43e0000000000000"

    def big(v):
        return is_int(v) and val_int(v) >= M63 - 512
    if op in ("lt", "max"):        # lt(a,b)
        return big(a) and b == P63
    if op in ("gt", "min"):        # lt(b,a)
        return big(b) and a == P63
    if op == "le":                 # le(a,b) wrong when a float, b int
        return a == P63 and big(b)
    if op == "ge":                 # le(b,a)
        return b == P63 and big(a)
    return False


def sign_of(v):
    if is_int(v):
        n = val_int(v)
        return (n > 0) - (n < 0)
    if v == "Fnan":
        return None
    x = val_float(v)
    return (x > 0) - (x < 0)


def defect_fmod(op, a, b):
    """C02-fmod-floor-mod: math.fmod with non-zero operands of opposite sign (golua computes the floor modulo)."""
    if op != "fmod":
        return False
    sa, sb = sign_of(a), sign_of(b)
    return sa is not None and sb is not None and sa * sb < 0


# ----------------------------------------------------------------------------- building (cached) and proof obligations (concurrent)
def cone_hash():
    """Hash of everything the extracted oracle depends on: our Coq cone (Base/, Num/), Extract.v, the drivers."""
    import glob
    import hashlib
    h = hashlib.sha256()
    files = sorted(glob.glob(os.path.join(vlib.COQ, "theories", "Base", "*.v")) + glob.glob(os.path.join(vlib.COQ, "theories", "Num", "*.v")))
    files += [os.path.join(vlib.ORACLE, "num", "Extract.v"), os.path.join(vlib.ORACLE, "num", "driver.ml"), os.path.join(vlib.ORACLE, "common", "proto.ml")]
    for f in files:
        h.update(f.encode())
        h.update(open(f, "rb").read())
    return h.hexdigest()


def cached_oracle(ck):
    """The extracted oracle is rebuilt only when one of its sources changed (content hash), not whenever
    any file of the shared Coq tree is touched."""
    exe = os.path.join(vlib.ORACLE, "num", "oracle.exe")
    stamp = os.path.join(vlib.ORACLE, "num", ".cone.sha256")
    hh = cone_hash()
    if os.path.exists(exe) and os.path.exists(stamp) and open(stamp).read().strip() == hh:
        ck.cov["oracle_rebuilt"] = False
        return exe
    exe = ck.build_oracle("num")
    if exe:
        with open(stamp, "w") as f:
            f.write(hh)
    ck.cov["oracle_rebuilt"] = True
    return exe


class Obligations(threading.Thread):
    """Re-checks the property file (coqc + Print Assumptions) while the correspondence runs."""

    def __init__(self, ck, prop):
        threading.Thread.__init__(self)
        self.ck, self.prop, self.ok = ck, prop, False

    def run(self):
        try:
            self.ok = self.ck.obligations(self.prop, clean=False)
        except Exception as ex:     # a crash of the obligation step is a failed obligation
            self.ck.cov["obligation_failure"] = "exception: %r" % (ex,)
            self.ok = False


# ----------------------------------------------------------------------------- running
def run_parallel(jobs):
    """jobs: list of (binary, args, lines) -> list of (rc, out_lines, stderr) run concurrently."""
    res = [None] * len(jobs)

    def work(i, j):
        res[i] = vlib.run_lines(j[0], j[1], j[2], timeout=3000)
    th = [threading.Thread(target=work, args=(i, j)) for i, j in enumerate(jobs)]
    for t in th:
        t.start()
    for t in th:
        t.join()
    return res


def run_both(gvh, oracle, mode, lines, nsplit=6):
    """Run all lines through the Go harness (1 process) and the oracle (nsplit processes)."""
    n = len(lines)
    step = (n + nsplit - 1) // nsplit if n else 1
    chunks = [lines[i:i + step] for i in range(0, n, step)] or [[]]
    jobs = [(gvh, [mode], lines)] + [(oracle, [mode], c) for c in chunks]
    res = run_parallel(jobs)
    rc, impl, err = res[0]
    model = []
    mrc = 0
    merr = ""
    for r in res[1:]:
        mrc = mrc or r[0]
        merr += r[2]
        model += r[1]
    return (rc, impl, err), (mrc, model, merr)


def parse_fields(line):
    """'id K:v K:v ...' -> dict"""
    parts = line.split(" ")
    d = {}
    for p in parts[1:]:
        k, _, v = p.partition(":")
        d[k] = v
    return parts[0], d


def norm_err(op, r):
    """Error results are compared by class; where the manual does not fix the class, only error-ness."""
    if op in ("fmod",) and r.startswith("E"):
        return "E"
    if r.startswith("Eother:"):
        return "Eother"
    return r


def read_corpus(pid, name):
    path = os.path.join(vlib.VERIF, "corpus", pid, name)
    out = []
    if os.path.exists(path):
        for l in open(path):
            l = l.strip()
            if l and not l.startswith("#"):
                out.append(l.split())
    return out


def ops_cases(ck, tier):
    cases = []
    for f in read_corpus("C02", "ops.txt"):
        cases.append((f[0], f[1], f[2] if len(f) > 2 else None))
    ck.cov["corpus_ops"] = len(cases)
    lat = LAT
    for op in BINOPS:
        for a in lat:
            for b in lat:
                cases.append((op, a, b))
    for op in UNOPS:
        for a in lat:
            cases.append((op, a, None))
    nlat = len(cases)
    nrand = 10000 if tier == "quick" else 400000
    for i in range(nrand):
        a, b = rand_num(ck.rng), rand_num(ck.rng)
        for op in BINOPS:
            if tier == "quick" and (i + len(op)) % 4:   # a quarter of the operators per random pair in quick
                continue
            cases.append((op, a, b))
        if i % 4 == 0:
            for op in UNOPS:
                cases.append((op, a, None))
    return cases, nlat


def check_ops(ck, gvh, oracle, tier):
    cases, nlat = ops_cases(ck, tier)
    ck.log("ops: %d lattice values, %d lattice cases, %d random cases" % (len(LAT), nlat, len(cases) - nlat))
    lines = ["o%d %s %s%s" % (i, op, a, (" " + b) if b is not None else "") for i, (op, a, b) in enumerate(cases)]
    (rc, impl, err), (mrc, model, merr) = run_both(gvh, oracle, "ops", lines)
    if rc != 0 or len(impl) != len(lines):
        ck.violation("gvh-num ops crashed or produced %d/%d lines" % (len(impl), len(lines)),
                     {"kind": "crash", "stderr": err[-2000:], "last_line": lines[min(len(impl), len(lines) - 1)]})
        return
    if mrc != 0 or len(model) != len(lines):
        ck.violation("oracle crashed (%d/%d lines)" % (len(model), len(lines)), {"kind": "oracle-crash", "stderr": merr[-2000:]}, no_input=True)
        return
    n_im = n_s = n_paths = 0
    im_first = None
    reported = {}
    for i, (op, a, b) in enumerate(cases):
        gid, g = parse_fields(impl[i])
        mid, m = parse_fields(model[i])
        assert gid == mid == "o%d" % i
        canon = "%s %s %s" % (op, a, b)
        D, A, L = norm_err(op, g["D"]), norm_err(op, g["A"]), norm_err(op, g["L"])
        ck.count("op:" + op)
        ck.count("a:" + kind(a))
        if b is not None:
            ck.count("b:" + kind(b))
        ck.count("result:" + ("error" if A.startswith("E") else A[0]))
        ck.case(canon, not A.startswith("E") or True)
        paths = [x for x in (D, A, L) if x != "-"]
        # 1. the three Go evaluation paths agree
        if len(set(paths)) > 1:
            n_paths += 1
            if reported.setdefault("paths:" + op, 0) < 2:
                reported["paths:" + op] += 1
                ck.violation("%s %s %s: Go evaluation paths disagree (direct %s, chunk with arguments %s, chunk with literals %s)" % (op, a, b, D, A, L),
                             {"kind": "Go!=S", "engine": "num", "mode": "ops", "line": canon, "impl": impl[i], "model": model[i],
                              "theorems": ["the operator is a function of its operands"]})
            continue
        if op in NOMODEL:
            continue
        go = paths[0]
        M, S = norm_err(op, m["M"]), norm_err(op, m["S"])
        if go != S:
            k = None
            if go == M:
                if defect_mixed_compare(op, a, b):
                    k = ck.known_match(lambda k: k["id"] == "C02-mixed-compare-2p63")
                elif defect_fmod(op, a, b):
                    k = ck.known_match(lambda k: k["id"] == "C02-fmod-floor-mod")
            if k is not None:
                ck.known_finding(k)
                continue
            n_s += 1
            if reported.setdefault("S:" + op, 0) < 2:
                reported["S:" + op] += 1
                ck.violation("%s %s %s = %s on the implementation, the manual's definition gives %s" % (op, a, b, go, S),
                             {"kind": "Go!=S", "engine": "num", "mode": "ops", "line": canon, "impl": impl[i], "model": model[i],
                              "theorems": ["C02 spec Num/Spec.v"]})
        if go != M:
            n_im += 1
            if im_first is None:
                im_first = (canon, impl[i], model[i])
    for i in (0, len(LAT) * len(LAT) * 7 + 4321, len(cases) - 1):
        if 0 <= i < len(cases):
            ck.sample({"case": lines[i].split(" ", 1)[1], "impl": impl[i].split(" ", 1)[1], "model": model[i].split(" ", 1)[1]})
    if n_im and not n_s and not n_paths:
        ck.violation("implementation no longer matches the Coq model Num/Model.v (Go≈IM/num ops) on %d cases; Go agrees with the manual's definition on the "
                     "whole lattice, so no property-level failure was found" % n_im,
                     {"kind": "Go!=IM", "correspondence": "Go≈IM/num", "mode": "ops", "line": im_first[0], "impl": im_first[1], "model": im_first[2],
                      "differences": n_im, "theorems_no_longer_about_this_code": ["every theorem of Properties/C02.v about the differing operator"]},
                     no_input=True)
    ck.cov["ops_cases"] = len(cases)
    ck.cov["ops_Go!=S"] = n_s
    ck.cov["ops_Go!=IM"] = n_im
    ck.cov["ops_path_disagreements"] = n_paths


def check_f2i(ck, gvh, oracle, tier):
    vals = [v for v in LAT if v[0] == "F" and v != "Fnan"]
    n = 3000 if tier == "quick" else 200000
    for _ in range(n):
        v = rand_num(ck.rng)
        if v[0] == "F" and v != "Fnan":
            vals.append(v)
    lines = ["f%d %s" % (i, v) for i, v in enumerate(vals)] + ["fn Fnan"]
    (rc, impl, err), (mrc, model, merr) = run_both(gvh, oracle, "f2i", lines, nsplit=1)
    bad = [(a, b) for a, b in zip(impl, model) if a != b]
    ck.cov["f2i_samples"] = len(lines)
    ck.count("f2i:samples", len(lines))
    if rc != 0 or mrc != 0 or len(impl) != len(lines) or len(model) != len(lines) or bad:
        ck.violation("platform assumption on int64(float64) does not hold: %s" % (bad[:1],),
                     {"kind": "Go!=IM", "correspondence": "Go≈IM/num f2i", "first": bad[:3]}, no_input=True)

# ----------------------------------------------------------------------------- numeral strings
def gen_numeral(rng):
    """A valid Lua numeral (no sign, no spaces) from the grammar of manual §3.1; returns (text, tag)."""
    k = rng.below(10)
    digs = lambda n, alpha="0123456789": "".join(rng.choice(alpha) for _ in range(n))
    if k < 2:
        return rng.choice(["0", "1", "7", "10", "255", "4294967296", "9007199254740993", "9223372036854775807", "9223372036854775808",
                           "9223372036854775809", "18446744073709551615", "18446744073709551616", "00012", "123456789012345678901234567890"]), "dec-int-edge"
    if k == 2:
        return digs(1 + rng.below(22)), "dec-int"
    if k == 3:
        h = "0123456789abcdefABCDEF"
        return rng.choice(["0x", "0X"]) + digs(1 + rng.below(20), h), "hex-int"
    if k == 4:
        return rng.choice(["0x7fffffffffffffff", "0x8000000000000000", "0xffffffffffffffff", "0x10000000000000000", "0xfffffffffffffffff", "0x0", "0X00000000000000000001"]), "hex-int-edge"
    if k < 7:
        a, b = digs(rng.below(19)), digs(rng.below(19))
        if not a and not b:
            a = "0"
        t = a + ("." + b if (b or rng.chance(1, 2)) else "")
        if rng.chance(1, 2) or "." not in t:
            t += rng.choice("eE") + rng.choice(["", "+", "-"]) + str(rng.choice([0, 1, 2, 10, 15, 16, 17, 22, 23, 100, 300, 307, 308, 309, 323, 324, 325, 400, rng.below(400)]))
        return t, "dec-float"
    if k == 7:
        return rng.choice(["1e308", "1.7976931348623157e308", "1.7976931348623159e308", "2.2250738585072014e-308", "2.2250738585072011e-308", "4.9e-324", "2.4703282292062327e-324",
                           "2.4703282292062328e-324", "9007199254740993.0", "9007199254740992.5", "0.1", "0.3", "1e23", "8.41e21", "9223372036854775807.0", "9223372036854775808.0",
                           "1e-400", "1e400", "0.5e0", ".5", "5.", "3.14159", "0e0", "0.0"]), "dec-float-edge"
    h = "0123456789abcdefABCDEF"
    a, b = digs(rng.below(16), h), digs(rng.below(16), h)
    if not a and not b:
        a = "1"
    t = rng.choice(["0x", "0X"]) + a + ("." + b if (b or rng.chance(1, 3)) else "")
    if rng.chance(2, 3) or "." not in t:
        t += rng.choice("pP") + rng.choice(["", "+", "-"]) + str(rng.choice([0, 1, 4, 52, 53, 63, 64, 1023, 1024, 1074, 1075, rng.below(1100)]))
    return t, "hex-float"


def mutate(rng, t):
    k = rng.below(16)
    if k == 0:
        return rng.choice(["+", "-"]) + rng.choice(["+", "-"]) + t, "double-sign"
    if k == 1:
        i = rng.below(len(t) + 1)
        return t[:i] + "_" + t[i:], "underscore"
    if k == 2:
        return rng.choice(["0x", "0X", "0x.", "0xp1", "0x.p1", "-0x", "0xg"]), "hex-no-digits"
    if k == 3:
        return t + rng.choice(["e", "E", "e+", "p", "p-", "e1e1", "e1.5"]), "bad-exponent"
    if k == 4:
        return rng.choice(["inf", "nan", "Inf", "NaN", "-inf", "infinity", "+Infinity", "-nan", "nan(1)", "0xinf", "1n", "in"]), "inf-nan"
    if k == 5:
        i = rng.below(len(t) + 1)
        return t[:i] + rng.choice([" ", "\t"]) + t[i:] if len(t) > 1 else " ", "inner-space"
    if k == 6:
        return rng.choice([" ", "\t", "\n", "\v", "\f", "\r", "  "]) + rng.choice(["", "-", "+"]) + t + rng.choice(["", " ", "\n", "\t \r"]), "spaces-sign"
    if k == 7:
        return rng.choice(["\u00a0", "\u0085", "\u2003", "\u3000", "\ufeff"]) + t, "unicode-space"
    if k == 8:
        return t + rng.choice(["\0", "x", ".", "..", "f", "L", "u", "ll", "d", "#", "\u00a0"]), "trailing-junk"
    if k == 9:
        return rng.choice(["-", "+"]) + t, "signed"
    if k == 10:
        return rng.choice(["", " ", "-", "+", ".", "e1", "- 1", "-\t1", "0b101", "0o17", "1,5", "١٢٣", "1e1_0", "0x1_0", "1__0", "_1", "1_", "0_1", "0x_1", "1_000.5", "1.5_5", "1_0e1", "0x1_0p1"]), "misc"
    if k == 11:
        return "-" + rng.choice(["9223372036854775808", "9223372036854775809", "0x8000000000000000", "0", "0.0", "0x0p0", "0e5"]), "neg-edge"
    return t, "valid"


def check_str(ck, gvh, oracle, tier):
    n = 4000 if tier == "quick" else 300000
    cases = []   # (text bytes, tag, is_valid_numeral)
    for f in read_corpus("C02", "str.txt"):
        cases.append((bytes.fromhex(f[0]), "corpus", len(f) > 1 and f[1] == "V"))
    ck.cov["corpus_str"] = len(cases)
    fixed = ["+5", "10", " 10 ", "0x10", "1e1", "9223372036854775807", "9223372036854775808", "-9223372036854775808", "-9223372036854775809",
             "9223372036854775808.0", "-9223372036854775808.0", "0x1p63", "-0x1p63", "0x1p64", "9.2233720368547758e18", "9223372036854775807.0", "9007199254740993",
             "0x7fffffffffffffff", "0x8000000000000000", "0xffffffffffffffff", "1e308", "-1e400", "0x.8p1", "5e-1", "1.5", "-0.0", "nan", "inf"]
    for t in fixed:
        cases.append((t.encode(), "fixed", False))
    for i in range(n):
        t, tag = gen_numeral(ck.rng)
        cases.append((t.encode(), tag, True))
        if i % 2 == 0:
            m, mtag = mutate(ck.rng, t)
            cases.append((m.encode("utf-8"), "mut:" + mtag, False))
    lines = ["s%d %s" % (i, (b.hex() or "-")) for i, (b, _, _) in enumerate(cases)]
    # tonumber(s, base)
    bcases = []
    alnum = "0123456789abcdefghijklmnopqrstuvwxyzABCDEFGHIJKLMNOPQRSTUVWXYZ"
    for i in range(n // 2):
        base = ck.rng.choice([2, 8, 10, 16, 36, 2 + ck.rng.below(35)])
        body = "".join(ck.rng.choice(alnum[:base] if ck.rng.chance(5, 6) else alnum) for _ in range(1 + ck.rng.geometric(8, 70)))
        t = ck.rng.choice(["", "", " ", "\t"]) + ck.rng.choice(["", "", "-", "+", "+-", "--"]) + body + ck.rng.choice(["", "", " ", "\n", "x", "."])
        if ck.rng.chance(1, 20):
            t = ck.rng.choice(["", " ", "-", "+", "- 1", "1 1", "7fffffffffffffff", "8000000000000000", "ffffffffffffffffff", "-8000000000000000", "1e1", "1.0", "0x10"])
        bcases.append((t.encode(), base))
    blines = ["b%d %s %d" % (i, (b.hex() or "-"), base) for i, (b, base) in enumerate(bcases)]
    (rc, impl, err), (mrc, model, merr) = run_both(gvh, oracle, "str", lines + blines, nsplit=2)
    if rc != 0 or len(impl) != len(lines) + len(blines) or mrc != 0 or len(model) != len(impl):
        ck.violation("gvh-num/oracle str crashed (%d, %d of %d lines)" % (len(impl), len(model), len(lines) + len(blines)),
                     {"kind": "crash", "stderr": (err + merr)[-2000:]}, no_input=(rc == 0))
        return
    nbad = 0
    rep = {}

    def report(key, summary, line, g, m):
        nonlocal nbad
        nbad += 1
        if rep.setdefault(key, 0) < 2:
            rep[key] += 1
            ck.violation(summary, {"kind": "Go!=S", "engine": "num", "mode": "str", "line": line, "impl": g, "model": m,
                                   "theorems": ["Num/StrSpec.v s_str2number (manual §3.1, §3.4.3)"]})
    for i, (b, tag, valid) in enumerate(cases):
        _, g = parse_fields(impl[i])
        _, m = parse_fields(model[i])
        S = m["S"]
        text = b.decode("utf-8", "replace")
        ck.count("str:" + tag)
        ck.count("str-result:" + S[0])
        ck.case("str " + b.hex(), True)
        for field, what in (("D", "runtime.StringToNumber"), ("T", "tonumber")):
            go = g[field]
            if go == S:
                continue
            k = None
            stripped = text.strip(" \t\n\v\f\r")
            if len(stripped) >= 2 and stripped[0] == "+" and stripped[1] in "+-" and S == "N":
                k = ck.known_match(lambda k: k["id"] == "C02-tonumber-double-sign")
            elif "_" in text and S == "N":
                k = ck.known_match(lambda k: k["id"] == "C02-tonumber-underscore")
            elif any(ord(c) > 127 for c in text) and S == "N":
                k = ck.known_match(lambda k: k["id"] == "C02-tonumber-unicode-space")
            elif S == "N" and stripped.lstrip("+-")[:2] in ("0x", "0X") and len(stripped.lstrip("+-")) > 18 and not any(c in stripped for c in ".pP"):
                k = ck.known_match(lambda k: k["id"] == "C02-hex-long-prefix-ignored")
            if k is not None:
                ck.known_finding(k)
            else:
                report(field + ":" + tag, "%s(%r) = %s on the implementation, the manual's numeral syntax gives %s" % (what, text, go, S), lines[i].split(" ", 1)[1], impl[i], model[i])
        # rt.ToInt on the string: string -> number -> integer (only floats with an exact integer value in range)
        if g["I"] != m["I"]:
            report("I:" + tag, "runtime.ToInt(%r) = %s on the implementation, the manual (string -> number -> integer) gives %s" % (text, g["I"], m["I"]),
                   lines[i].split(" ", 1)[1], impl[i], model[i])
        # math functions on a string argument: converted by the same rule (math.modf used to reject strings)
        for fld, fn in (("MF", "math.modf"), ("FL", "math.floor"), ("AB", "math.abs")):
            if g[fld] != m[fld]:
                report(fld + ":" + tag, "%s(%r) = %s on the implementation, the manual (string converted to a number) gives %s" % (fn, text, g[fld], m[fld]),
                       lines[i].split(" ", 1)[1], impl[i], model[i])
        if valid:
            go = g["L"]
            if go != S:
                if S[0] == "F" and text.isdigit() and M63 <= int(text) < M64 and go == I(int(text) - M64) and \
                        ck.known_match(lambda k: k["id"] == "C02-literal-2p63-integer"):
                    ck.known_finding(ck.known_match(lambda k: k["id"] == "C02-literal-2p63-integer"))
                else:
                    report("L:" + tag, "the literal %s evaluates to %s, the manual's numeral rules give %s" % (text, go, S), lines[i].split(" ", 1)[1], impl[i], model[i])
    for j, (b, base) in enumerate(bcases):
        i = len(lines) + j
        _, g = parse_fields(impl[i])
        _, m = parse_fields(model[i])
        ck.count("tonumber-base:%s" % ("2" if base == 2 else "10" if base == 10 else "16" if base == 16 else "36" if base == 36 else "other"))
        ck.case("tonumber %s %d" % (b.hex(), base), True)
        if g["T"] != m["S"]:
            text = b.decode("utf-8", "replace")
            report("B", "tonumber(%r, %d) = %s on the implementation, the manual gives %s" % (text, base, g["T"], m["S"]), blines[j].split(" ", 1)[1], impl[i], model[i])
    ck.sample({"str": cases[20][0].decode("utf-8", "replace"), "impl": impl[20].split(" ", 1)[1][:120], "model": model[20].split(" ", 1)[1]})
    ck.cov["str_cases"] = len(cases)
    ck.cov["tonumber_base_cases"] = len(bcases)
    ck.cov["str_Go!=S"] = nbad


# ----------------------------------------------------------------------------- bitwise operators on string operands
BIT_STRS = ["3", "0", "-1", " 2 ", "12", "0x10", "0xffffffffffffffff", "0x7fffffffffffffff", "-0x1", "3.0", "1e2", "0x1p4", "-0.0", "9223372036854775807",
            "9223372036854775808", "-9223372036854775808", "3.5", "1e100", "0x.8", "abc", "", "1x", "0x", "inf", "nan", "+-1", "1_0"]
BIT_NUMS = ["I0", "I1", "I2", "I-1", "I3f", "I40", "I-8000000000000000", "I7fffffffffffffff", "F4008000000000000", "F3ff8000000000000"]


def check_bitwise_strings(ck, gvh, oracle):
    """String operands of & | ~ << >> and unary ~: Lua converts a numeric string to a number and then to an integer
    (manual 3.4.2 / 3.4.3; PUC bitwise.lua: "0xffffffffffffffff" | 0 == -1, "3" | 0 == 3, "3.0" | 0 == 3, "3.5" | 0 errors)."""
    def sv(t):
        return "S" + (t.encode().hex() or "-")
    # what each string denotes (S) and its integer value, from the oracle
    sl = ["z%d %s" % (i, (t.encode().hex() or "-")) for i, t in enumerate(BIT_STRS)]
    _, so, _ = vlib.run_lines(oracle, ["str"], sl, timeout=300)
    if len(so) != len(sl):
        ck.violation("bitwise/strings: oracle crashed", {"kind": "oracle-crash"}, no_input=True)
        return
    conv = {}
    for t, l in zip(BIT_STRS, so):
        f = parse_fields(l)[1]
        conv[t] = (f["S"], f["I"])          # number token or N ; integer token or N
    ops2 = ["band", "bor", "bxor", "shl", "shr"]
    cases = []
    for op in ops2:
        for t in BIT_STRS:
            for v in BIT_NUMS:
                cases.append((op, ("s", t), ("n", v)))
                cases.append((op, ("n", v), ("s", t)))
            for t2 in ("3", "0x10", "3.5", "abc", " 2 "):
                cases.append((op, ("s", t), ("s", t2)))
    for t in BIT_STRS:
        cases.append(("bnot", ("s", t), None))

    def tok(o):
        return sv(o[1]) if o[0] == "s" else o[1]

    def as_num(o):
        """operand as the number it denotes, or None"""
        if o[0] == "n":
            return o[1]
        return None if conv[o[1]][0] == "N" else conv[o[1]][0]
    glines = ["b%d %s %s%s" % (i, op, tok(a), (" " + tok(b)) if b is not None else "") for i, (op, a, b) in enumerate(cases)]
    olines, omap = [], {}
    for i, (op, a, b) in enumerate(cases):
        na, nb = as_num(a), (as_num(b) if b is not None else "I0")
        if na is not None and nb is not None:
            omap[i] = len(olines)
            olines.append("b%d %s %s%s" % (i, op, na, (" " + nb) if b is not None else ""))
    rc, impl, err = vlib.run_lines(gvh, ["ops"], glines, timeout=600)
    mrc, model, merr = vlib.run_lines(oracle, ["ops"], olines, timeout=600)
    if rc != 0 or len(impl) != len(glines) or mrc != 0 or len(model) != len(olines):
        ck.violation("bitwise/strings: harness or oracle crashed (%d/%d, %d/%d)" % (len(impl), len(glines), len(model), len(olines)),
                     {"kind": "crash", "stderr": (err + merr)[-1500:]}, no_input=True)
        return
    nbad = 0
    rep = {}
    for i, (op, a, b) in enumerate(cases):
        g = parse_fields(impl[i])[1]
        D, A, L = norm_err(op, g["D"]), norm_err(op, g["A"]), norm_err(op, g["L"])
        ck.case("bitstr " + glines[i].split(" ", 1)[1], True)
        ck.count("bitstr:" + op)
        if len(set([D, A, L])) > 1:
            nbad += 1
            if rep.setdefault("paths", 0) < 2:
                rep["paths"] += 1
                ck.violation("%s: Go evaluation paths disagree on a string operand (%s / %s / %s)" % (glines[i].split(" ", 1)[1], D, A, L),
                             {"kind": "Go!=S", "engine": "num", "mode": "ops", "line": glines[i].split(" ", 1)[1], "impl": impl[i]})
            continue
        # the manual: not a numeral -> error (attempt to perform bitwise operation on a string); numeral -> the operator on the converted numbers
        want = norm_err(op, parse_fields(model[omap[i]])[1]["S"]) if i in omap else "Eother"
        if A != want:
            numeral_string = any(o is not None and o[0] == "s" and conv[o[1]][0] != "N" for o in (a, b))
            k = None
            if A == "Eother" and numeral_string:
                k = ck.known_match(lambda k: k["id"] == "C02-bitwise-string-operands")
            if k is not None:
                ck.known_finding(k)
            else:
                nbad += 1
                if rep.setdefault(op, 0) < 2:
                    rep[op] += 1
                    ck.violation("%s = %s on the implementation, the manual (string converted to a number, then to an integer) gives %s" % (glines[i].split(" ", 1)[1], A, want),
                                 {"kind": "Go!=S", "engine": "num", "mode": "ops", "line": glines[i].split(" ", 1)[1], "impl": impl[i],
                                  "model": model[omap[i]] if i in omap else None, "theorems": ["C02_bitop_val_partial"]})
    ck.cov["bitwise_string_cases"] = len(cases)
    ck.cov["bitwise_string_Go!=S"] = nbad


def run(tier, seed):
    ck = vlib.Check("C02", tier, seed, level="proof")
    # VERIF_NUM_OVERLAY / VERIF_NUM_TAG: mutation experiments only (go build -overlay, separate binary name)
    gvh, err = ck.build_gvh(pkg="./cmd/gvh-num", name="gvh_num" + os.environ.get("VERIF_NUM_TAG", ""),
                            overlay=os.environ.get("VERIF_NUM_OVERLAY"))
    if gvh is None:
        ck.violation("harness does not build against /repo", {"kind": "build", "stderr": err[-3000:]}, no_input=True)
        return ck.finish("n/a", TRUSTED, [])
    oracle = cached_oracle(ck)
    if oracle is None:
        ck.violation("oracle (extracted model) does not build", {"kind": "build"}, no_input=True)
        return ck.finish("n/a", TRUSTED, [])
    obl = Obligations(ck, PROP)
    obl.start()
    check_f2i(ck, gvh, oracle, tier)
    check_ops(ck, gvh, oracle, tier)
    check_str(ck, gvh, oracle, tier)
    check_bitwise_strings(ck, gvh, oracle)
    obl.join()
    ok_obl = obl.ok
    if not ok_obl:
        ck.violation("proof obligations of C02 no longer check: " + str(ck.cov.get("obligation_failure", ""))[:300],
                     {"kind": "proof", "theorem_file": PROP, "detail": ck.cov.get("obligation_failure")}, no_input=True)
    ck.cov["exhaustive"] = False
    ck.cov["lattice_values"] = len(LAT)
    return ck.finish(
        rule="every operator (%d binary, %d unary incl. math.* functions) on every pair of a boundary lattice of %d numbers "
             "(ints 0,±1..3, 2^k and 2^k±1 for k in 7,8,15,16,31,32,52,53,54,62, min/maxinteger, ±(2^63-d) for d in 1..1024; floats ±0, ±0.5.., ±2^53(±2), "
             "±2^63 and neighbours, ±2^64, ±inf, NaN, denormal min, max) + random pairs biased to exponent boundaries; each case evaluated by the direct Go "
             "function, a compiled chunk with the operands as arguments, and a compiled chunk with the operands as literals; float results compared by bit pattern; "
             "distinct by (op, a, b); every case counts as non-trivial (error results are part of the property)" % (len(BINOPS), len(UNOPS), len(LAT)),
        trusted_base=TRUSTED,
        assumptions=["int64(float64) out of range gives -2^63 (sampled: f2i)", "math.Pow not modelled"])


def replay(path, seed):
    r = json.load(open(path))
    ck = vlib.Check("C02", "quick", seed)
    gvh, _ = ck.build_gvh(pkg="./cmd/gvh-num", name="gvh_num")
    oracle = cached_oracle(ck)
    mode = r.get("mode", "ops")
    line = "r " + r["line"].replace(" None", "")
    _, a, _ = vlib.run_lines(gvh, [mode], [line])
    _, b, _ = vlib.run_lines(oracle, [mode], [line])
    print("impl :", a[0] if a else None)
    print("model:", b[0] if b else None)
    return 0
