# C12lex — parts (f) and (g) of C12 (round 6).
#
# (f) lexical errors x line ends: a valid program prefix followed by an ill-formed lexeme (unterminated short string,
#     bad escape, out-of-range escape, illegal character, malformed numeral, unfinished long string / long comment),
#     rendered under each of the four line-end conventions (LF, CRLF, CR, LFCR).  load() must answer nil plus a
#     well-formed message "chunk:LINE:COL: …" (no failed formatting) whose LINE and COL are those of the offending lexeme.
# (g) files: what loadfile/dofile/require/the command line do (Runtime.LoadFromSourceOrCode, stripComment=true) with a
#     first line "#…" (and an optional UTF-8 BOM) x line ends: a valid body loads; a broken body is reported with the
#     line of the offending token counted from the first line of the FILE.
import re

from lib import vlib
from lib.props import C12 as A

STYLES = [("LF", "\n"), ("CRLF", "\r\n"), ("CR", "\r"), ("LFCR", "\n\r")]
ILLEGAL_CHARS = ["$", "@", "?", "!", "`", "\\"]


class Src:
    """source text built lexeme by lexeme, with the line/column of every lexeme (columns count bytes from 1)"""

    def __init__(self, nl):
        self.nl = nl
        self.parts = []
        self.line = 1
        self.col = 1
        self.pos = []

    def raw(self, s):
        """append text (any of the four line ends inside s counts as one line end)"""
        self.parts.append(s)
        n = A.count_lines(s)
        if n:
            self.line += n
            last = max(s.rfind("\n"), s.rfind("\r"))
            self.col = len(s) - last
        else:
            self.col += len(s)

    def lexeme(self, s):
        self.pos.append((self.line, self.col))
        self.raw(s)

    def sep(self, rng, allow_comment=True):
        k = rng.below(10)
        if k < 5:
            self.raw(" ")
        elif k < 8:
            self.raw(self.nl)
        elif k == 8 and allow_comment:
            self.raw(" -- c" + self.nl)
        elif k == 9 and allow_comment:
            self.raw(" --[[ x" + self.nl + " ]] ")
        else:
            self.raw("  ")

    def text(self):
        return "".join(self.parts)


def flat_tokens(rng):
    toks = A.gen_flat(rng, 1 + rng.below(4))
    out = []
    for t in toks:
        if t.startswith("name:") and rng.chance(1, 3):
            t = rng.choice(["str:%d" % rng.below(6), "num:%d" % rng.below(40), "lstr:%d" % rng.below(4)])
        out.append(t)
    return out


BAD_LEXEMES = [
    # (kind, text builder(nl), forces a line end right after)
    ("unterminated-dq", lambda nl: '"abc', True),
    ("unterminated-sq", lambda nl: "'abc", True),
    ("unterminated-empty", lambda nl: '"', True),
    ("bad-escape", lambda nl: '"a\\qb"', False),
    ("bad-hex-escape", lambda nl: '"a\\xZ1"', False),
    ("escape-too-large", lambda nl: '"a\\400"', False),
    ("unicode-too-large", lambda nl: '"\\u{80000000}"', False),
    ("unicode-unclosed", lambda nl: '"\\u{12"', False),
    ("malformed-number-3x", lambda nl: "3x", False),
    ("malformed-number-0x", lambda nl: "0x", False),
    ("malformed-number-1e+", lambda nl: "1e+", False),
    ("malformed-number-1..2", lambda nl: "1..2", False),
]


def check_lexical(ck, gvh, tier, st):
    rng = ck.rng.fork()
    per = 6 if tier == "quick" else 120
    cases = []
    for sname, nl in STYLES:
        for kind, build, force_nl in BAD_LEXEMES:
            for _ in range(per):
                s = Src(nl)
                s.lexeme("return")
                toks = flat_tokens(rng)
                cut = rng.below(len(toks) + 1)
                # a valid prefix: tokens up to an operand position
                while cut < len(toks) and not (cut == 0 or toks[cut - 1] in A.TOKBIN or toks[cut - 1] in A.TOKUN):
                    cut += 1
                for t in toks[:cut]:
                    s.sep(rng)
                    s.lexeme(A.tok_text(t, rng))
                s.sep(rng)
                s.lexeme(build(nl))
                want = s.pos[-1]
                span = len(build(nl))
                if force_nl:
                    s.raw(nl)
                    if rng.chance(1, 2):
                        s.raw("x = 1" + nl)
                else:
                    for t in ["+", "name:1"] if rng.chance(1, 2) else []:
                        s.sep(rng)
                        s.lexeme(A.tok_text(t, rng))
                cases.append({"kind": kind, "style": sname, "src": s.text(), "want": want, "span": span})
        for kind in ("illegal-char", "unfinished-long-string", "unfinished-long-comment"):
            for _ in range(per):
                s = Src(nl)
                s.lexeme("return")
                toks = flat_tokens(rng)
                for t in toks:
                    s.sep(rng)
                    s.lexeme(A.tok_text(t, rng))
                s.sep(rng, allow_comment=False)
                if kind == "illegal-char":
                    s.lexeme(rng.choice(ILLEGAL_CHARS))
                    want = s.pos[-1]
                    s.raw(" " + nl if rng.chance(1, 2) else "")
                elif kind == "unfinished-long-string":
                    s.lexeme(".. [" + "=" * rng.below(3) + "[ab" + nl + "cd" + nl)
                    ln, col = s.pos[-1]
                    want = (ln, col + 3)
                else:
                    s.lexeme("--[" + "=" * rng.below(3) + "[ ab" + nl + "cd" + nl)
                    want = s.pos[-1]
                cases.append({"kind": kind, "style": sname, "src": s.text(), "want": want})
    lines = ["f%d %s chunk=chunk" % (i, A.hexsrc(c["src"])) for i, c in enumerate(cases)]
    out = A.lua_batched(gvh, lines)
    nbad = 0
    for i, c in enumerate(cases):
        f = out[i].split(" ")
        status = f[1] if len(f) > 1 else "?"
        em = next((x[2:] for x in f if x.startswith("E:")), "-")
        msg = bytes.fromhex(em).decode("latin-1") if re.match(r"^[0-9a-f]+$", em) else ""
        ck.count("f:%s:%s" % (c["kind"].split("-")[0], c["style"]))
        ck.case(c["src"], True)
        m = re.match(r"^chunk:(\d+):(\d+): ", msg)
        bad = None
        if status != "compile_error":
            bad = "not rejected as a syntax error (%s)" % status
        elif A.bad_message(msg, r"^chunk:\d+:\d+: "):
            bad = "ill-formed message (%s)" % A.bad_message(msg, r"^chunk:\d+:\d+: ")
        elif (int(m.group(1)), int(m.group(2))) != c["want"]:
            # the position may be that of the offending character inside the lexeme (malformed numerals), or the
            # '--' / the bracket of an unfinished long comment: same line, inside the lexeme
            inside = int(m.group(1)) == c["want"][0] and c["want"][1] <= int(m.group(2)) <= c["want"][1] + c.get("span", 4)
            if not inside:
                bad = "reported at %s:%s, the offending lexeme is at %d:%d" % (m.group(1), m.group(2), c["want"][0], c["want"][1])
        if bad:
            nbad += 1
            st["go_ne_s"] += 1
            if nbad <= 4:
                ck.violation("lexical error (%s, %s line ends): %s — %r" % (c["kind"], c["style"], bad, msg[:90]),
                             {"kind": "Go!=S", "engine": "front", "mode": "lua", "source_hex": A.hexsrc(c["src"]), "source": c["src"],
                              "expected": "compile_error chunk:%d:%d: …" % c["want"], "got": out[i][:500], "message": msg})
    ck.log("(f) %d lexical-error cases x 4 line-end styles, %d bad" % (len(cases), nbad))


FIRST_LINES = ["#!/usr/bin/lua", "#", "# a 'b' \"c\" [[ --[[ x", "#!/bin/sh -- ]] ]==]", "#\t"]


def check_files(ck, gvh, tier, st):
    rng = ck.rng.fork()
    per = 3 if tier == "quick" else 60
    cases = []
    for sname, nl in STYLES:
        for first in FIRST_LINES + [None]:
            for bom in (False, True):
                for broken in (False, True):
                    for _ in range(per):
                        s = Src(nl)
                        pre = ("\xef\xbb\xbf" if bom else "")
                        if first is not None:
                            s.raw(first + nl)
                        s.lexeme("return")
                        toks = A.gen_flat(rng, 1 + rng.below(4))
                        bad_at = 1 + rng.below(len(toks) - 1) if broken else None
                        for j, t in enumerate(toks):
                            if j == bad_at:
                                s.sep(rng)
                                s.lexeme(")")
                                want = s.pos[-1]
                            s.sep(rng)
                            s.lexeme(A.tok_text(t, rng))
                        if not broken:
                            want = None
                        elif bom and first is None and want[0] == 1:
                            want = want      # columns are counted after the BOM has been removed
                        cases.append({"src": pre + s.text(), "want": want, "style": sname, "first": first, "bom": bom})
        # a file that is only a '#' line, with and without its line end
        cases.append({"src": "#!only", "want": None, "style": sname, "first": "#!only", "bom": False})
        cases.append({"src": "#!only" + nl, "want": None, "style": sname, "first": "#!only", "bom": False})
        cases.append({"src": "#!only" + nl + nl + "x = = 1", "want": (3, 5), "style": sname, "first": "#!only", "bom": False})
    lines = ["g%d %s" % (i, A.hexsrc(c["src"])) for i, c in enumerate(cases)]
    out = vlib.run_lines_resilient(gvh, ["file"], lines, per_case_timeout=30)
    nbad = 0
    for i, c in enumerate(cases):
        f = out[i].split(" ")
        status = f[1] if len(f) > 1 else "?"
        msg = bytes.fromhex(f[2]).decode("latin-1") if len(f) > 2 and re.match(r"^[0-9a-f]+$", f[2]) else ""
        ck.count("g:%s:%s%s" % (c["style"], "shebang" if c["first"] else "plain", ":bom" if c["bom"] else ""))
        ck.case(c["src"], True)
        bad = None
        if c["want"] is None:
            if status != "ok":
                bad = "a valid file is not loaded: %s %r" % (status, msg[:80])
        else:
            m = re.match(r"^chunk:(\d+):(\d+): ", msg)
            if status != "err" or A.bad_message(msg, r"^chunk:\d+:\d+: "):
                bad = "no well-formed syntax error: %s %r" % (status, msg[:80])
            elif int(m.group(1)) != c["want"][0] or (not c["bom"] and int(m.group(2)) != c["want"][1]):
                bad = "reported at %s:%s, the offending token is at %d:%d" % (m.group(1), m.group(2), c["want"][0], c["want"][1])
        if bad:
            nbad += 1
            st["go_ne_s"] += 1
            if nbad <= 4:
                ck.violation("file with first line %r (%s line ends%s): %s" % (c["first"], c["style"], ", BOM" if c["bom"] else "", bad),
                             {"kind": "Go!=S", "engine": "front", "mode": "file", "source_hex": A.hexsrc(c["src"]), "source": c["src"],
                              "expected": "ok" if c["want"] is None else "err chunk:%d:%d: …" % c["want"], "got": out[i][:500]})
    ck.log("(g) %d files (first line '#…' x BOM x line ends), %d bad" % (len(cases), nbad))
