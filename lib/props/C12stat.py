# C12stat — part (e) of C12: statements.  Random statement trees (all statement forms of the manual except
# 'function' expressions inside expressions) -> tokens (expressions printed by the extracted Print.print) ->
# source text with random layout -> gvh-front chunk (scanner.New + parsing.ParseChunk, AST dump)
#   = extracted Front/Stat.v parse_chunk run on the token stream the Go scanner produced   (Go ≈ IM)
#   = the generator's tree                                                                  (Go ≈ S)
# and single-token corruptions: the line Go reports = line of the token at which the model reports Err.
import re

from lib import vlib
from lib.props import C12 as A
from lib.props import C12gram as G

CONST_ID, CLOSE_ID = 1000001, 1000002
_orig_tok_text = A.tok_text


class Gen:
    def __init__(self, rng, spell=True):
        self.rng = rng
        self.spell = spell
        self.exps = []     # expression trees, referenced by index

    def exp(self, depth=2):
        self.exps.append(A.gen_exp(self.rng, depth, self.spell))
        return len(self.exps) - 1

    def var(self):
        r = self.rng
        t = ("name", r.below(6))
        for _ in range(r.below(3)):
            if r.chance(1, 2) and self.spell:
                t = ("dot", t, r.below(6))
            else:
                t = ("idx", t, A.gen_exp(r, 1, self.spell))
        self.exps.append(t)
        return len(self.exps) - 1

    def call(self):
        r = self.rng
        t = ("name", r.below(6))
        if r.chance(1, 3):
            t = ("dot", t, r.below(6)) if self.spell else ("idx", t, ("str", r.below(6)))
        args = [A.gen_exp(r, 1, self.spell) for _ in range(r.below(3))]
        m = r.below(6) if r.chance(1, 3) else "-"
        bare = 0
        if self.spell and r.chance(1, 4):
            bare = 1
            args = [("str", r.below(6))]
        self.exps.append(("call", t, m, bare) + tuple(args))
        return len(self.exps) - 1

    def explist(self, lo, hi, depth=2):
        return [self.exp(depth) for _ in range(lo + self.rng.below(hi - lo + 1))]

    def params(self):
        r = self.rng
        return [r.below(6) for _ in range(r.below(3))], r.chance(1, 3)

    def block(self, depth):
        r = self.rng
        n = r.geometric(2, 5) if depth > 0 else r.below(2)
        stats = [self.stat(depth) for _ in range(n)]
        ret = None
        if r.chance(1, 3):
            ret = (self.explist(0, 3), r.chance(1, 3))
        return ("block", stats, ret)

    def stat(self, depth):
        r = self.rng
        k = r.below(100)
        if depth <= 0:
            k = k % 45
        if k < 4:
            return ("empty",)
        if k < 7:
            return ("break",)
        if k < 10:
            return ("goto", r.below(6))
        if k < 13:
            return ("label", r.below(6))
        if k < 23:
            vs = [(r.below(6), r.choice([0, 0, 0, 1, 2])) for _ in range(1 + r.below(3))]
            return ("local", vs, self.explist(0, 3))
        if k < 35:
            return ("assign", [self.var() for _ in range(1 + r.below(3))], self.explist(1, 3))
        if k < 45:
            return ("callstat", self.call())
        if k < 50:
            return ("do", self.block(depth - 1))
        if k < 57:
            return ("while", self.exp(), self.block(depth - 1))
        if k < 62:
            return ("repeat", self.block(depth - 1), self.exp())
        if k < 73:
            elifs = [(self.exp(), self.block(depth - 1)) for _ in range(r.below(3))]
            els = self.block(depth - 1) if r.chance(1, 2) else None
            return ("if", self.exp(), self.block(depth - 1), elifs, els)
        if k < 80:
            return ("fornum", r.below(6), self.exp(), self.exp(), self.exp() if r.chance(1, 2) else None, self.block(depth - 1))
        if k < 86:
            return ("forin", [r.below(6) for _ in range(1 + r.below(3))], self.explist(1, 3), self.block(depth - 1))
        if k < 94:
            ps, dots = self.params()
            path, meth = [r.below(6) for _ in range(1 + r.below(3))], r.below(6) if r.chance(1, 3) else None
            return ("funcstat", path, meth, ps, dots, self.fbody(depth - 1, dots))
        ps, dots = self.params()
        return ("localfunc", r.below(6), ps, dots, self.fbody(depth - 1, dots))

    def fbody(self, depth, dots):
        """'...' may only be used directly inside a variadic function (manual 3.4.11)"""
        A.ALLOW_ETC.append(dots)
        try:
            return self.block(depth)
        finally:
            A.ALLOW_ETC.pop()


def nm(k):
    return "name:%d" % k


def tree_sx(b, exps):
    """statement tree -> s-expression for the oracle's RS command"""
    def e(i):
        return A.sx(exps[i])

    def blk(b):
        parts = [st(s) for s in b[1]]
        if b[2] is not None:
            parts.append("(return" + "".join(" " + e(i) for i in b[2][0]) + ")")
        return "(block" + "".join(" " + p for p in parts) + ")"

    def st(s):
        h = s[0]
        if h in ("empty", "break"):
            return "(%s)" % h
        if h in ("goto", "label"):
            return "(%s %d)" % (h, s[1])
        if h == "local":
            return "(local (%s)%s)" % (" ".join("(%d %d)" % ka for ka in s[1]), "".join(" " + e(i) for i in s[2]))
        if h == "assign":
            return "(assign (%s)%s)" % (" ".join(e(i) for i in s[1]), "".join(" " + e(i) for i in s[2]))
        if h == "callstat":
            return "(callstat %s)" % e(s[1])
        if h == "do":
            return "(do %s)" % blk(s[1])
        if h == "while":
            return "(while %s %s)" % (e(s[1]), blk(s[2]))
        if h == "repeat":
            return "(repeat %s %s)" % (blk(s[1]), e(s[2]))
        if h == "if":
            out = "(if %s %s" % (e(s[1]), blk(s[2]))
            for c, bb in s[3]:
                out += " (elseif %s %s)" % (e(c), blk(bb))
            if s[4] is not None:
                out += " (else %s)" % blk(s[4])
            return out + ")"
        if h == "fornum":
            return "(fornum %d %s %s %s %s)" % (s[1], e(s[2]), e(s[3]), e(s[4]) if s[4] is not None else "-", blk(s[5]))
        if h == "forin":
            return "(forin (%s) (%s) %s)" % (" ".join(str(k) for k in s[1]), " ".join(e(i) for i in s[2]), blk(s[3]))
        if h == "funcstat":
            return "(funcstat (%s) %s (%s) %d %s)" % (" ".join(str(k) for k in s[1]), s[2] if s[2] is not None else "-",
                                                      " ".join(str(k) for k in s[3]), 1 if s[4] else 0, blk(s[5]))
        if h == "localfunc":
            return "(localfunc %d (%s) %d %s)" % (s[1], " ".join(str(k) for k in s[2]), 1 if s[3] else 0, blk(s[4]))
        raise ValueError(s)
    return blk(b)


def commas(lists):
    out = []
    for i, l in enumerate(lists):
        if i:
            out.append(",")
        out += l
    return out


def params_toks(ps, dots):
    return ["("] + commas([[nm(p)] for p in ps] + ([["..."]] if dots else [])) + [")"]


def block_toks(b, et):
    out = []
    for s in b[1]:
        out += stat_toks(s, et)
    if b[2] is not None:
        out += ["return"] + commas([et[i] for i in b[2][0]]) + ([";"] if b[2][1] else [])
    return out


def stat_toks(s, et):
    h = s[0]
    if h == "empty":
        return [";"]
    if h == "break":
        return ["break"]
    if h == "goto":
        return ["goto", nm(s[1])]
    if h == "label":
        return ["::", nm(s[1]), "::"]
    if h == "local":
        names = []
        for k, a in s[1]:
            names.append([nm(k)] + (["<", nm(CONST_ID if a == 1 else CLOSE_ID), ">"] if a else []))
        return ["local"] + commas(names) + ((["="] + commas([et[i] for i in s[2]])) if s[2] else [])
    if h == "assign":
        return commas([et[i] for i in s[1]]) + ["="] + commas([et[i] for i in s[2]])
    if h == "callstat":
        return list(et[s[1]])
    if h == "do":
        return ["do"] + block_toks(s[1], et) + ["end"]
    if h == "while":
        return ["while"] + et[s[1]] + ["do"] + block_toks(s[2], et) + ["end"]
    if h == "repeat":
        return ["repeat"] + block_toks(s[1], et) + ["until"] + et[s[2]]
    if h == "if":
        out = ["if"] + et[s[1]] + ["then"] + block_toks(s[2], et)
        for c, b in s[3]:
            out += ["elseif"] + et[c] + ["then"] + block_toks(b, et)
        if s[4] is not None:
            out += ["else"] + block_toks(s[4], et)
        return out + ["end"]
    if h == "fornum":
        return (["for", nm(s[1]), "="] + et[s[2]] + [","] + et[s[3]] + (([","] + et[s[4]]) if s[4] is not None else [])
                + ["do"] + block_toks(s[5], et) + ["end"])
    if h == "forin":
        return ["for"] + commas([[nm(k)] for k in s[1]]) + ["in"] + commas([et[i] for i in s[2]]) + ["do"] + block_toks(s[3], et) + ["end"]
    if h == "funcstat":
        path = []
        for i, k in enumerate(s[1]):
            path += ([".", nm(k)] if i else [nm(k)])
        if s[2] is not None:
            path += [":", nm(s[2])]
        return ["function"] + path + params_toks(s[3], s[4]) + block_toks(s[5], et) + ["end"]
    if h == "localfunc":
        return ["local", "function", nm(s[1])] + params_toks(s[2], s[3]) + block_toks(s[4], et) + ["end"]
    raise ValueError(s)


def idname(k):
    return "const" if k == CONST_ID else "close" if k == CLOSE_ID else str(k)


def func_sx(selfp, ps, dots, b, en):
    names = (["self"] if selfp else []) + [idname(p) for p in ps] + (["..."] if dots else [])
    return "(function (%s) %s)" % (" ".join(names), block_sx(b, en, True))


def block_sx(b, en, fbody=False):
    parts = [stat_sx(s, en) for s in b[1]]
    if b[2] is not None:
        parts.append("(return" + "".join(" " + en[i] for i in b[2][0]) + ")")
    elif fbody:
        parts.append("(return)")     # ast.NewFunction gives every function body a return
    return "(block" + "".join(" " + p for p in parts) + ")"


def stat_sx(s, en):
    h = s[0]
    if h in ("empty", "break"):
        return "(%s)" % h
    if h in ("goto", "label"):
        return "(%s %d)" % (h, s[1])
    if h == "local":
        return "(local (%s)%s)" % (" ".join("%d:%d" % (k, a) for k, a in s[1]), "".join(" " + en[i] for i in s[2]))
    if h == "assign":
        return "(assign (%s)%s)" % (" ".join(en[i] for i in s[1]), "".join(" " + en[i] for i in s[2]))
    if h == "callstat":
        return "(callstat %s)" % en[s[1]]
    if h == "do":
        return "(do %s)" % block_sx(s[1], en)
    if h == "while":
        return "(while %s %s)" % (en[s[1]], block_sx(s[2], en))
    if h == "repeat":
        return "(repeat %s %s)" % (block_sx(s[1], en), en[s[2]])
    if h == "if":
        out = "(if %s %s" % (en[s[1]], block_sx(s[2], en))
        for c, b in s[3]:
            out += " (elseif %s %s)" % (en[c], block_sx(b, en))
        if s[4] is not None:
            out += " (else %s)" % block_sx(s[4], en)
        return out + ")"
    if h == "fornum":
        return "(for %d %s %s %s %s)" % (s[1], en[s[2]], en[s[3]], en[s[4]] if s[4] is not None else "(num 1)", block_sx(s[5], en))
    if h == "forin":
        return "(forin (%s) (%s) %s)" % (" ".join(str(k) for k in s[1]), " ".join(en[i] for i in s[2]), block_sx(s[3], en))
    if h == "funcstat":
        t = "(name %d)" % s[1][0]
        for k in s[1][1:]:
            t = "(idx %s (str %d))" % (t, k)
        if s[2] is not None:
            t = "(idx %s (str %d))" % (t, s[2])
        return "(assign (%s) %s)" % (t, func_sx(s[2] is not None, s[3], s[4], s[5], en))
    if h == "localfunc":
        return "(localfunc %d %s)" % (s[1], func_sx(False, s[2], s[3], s[4], en))
    raise ValueError(s)


def strip_return_semis(b, g, case):
    """the generator's tokens for this chunk without the optional ';' after return (which StatPrint never prints)"""
    return block_toks(nosemi(b), case["et"])


def nosemi(b):
    def blk(b):
        return ("block", [st(s) for s in b[1]], None if b[2] is None else (b[2][0], False))

    def st(s):
        h = s[0]
        if h == "do":
            return ("do", blk(s[1]))
        if h == "while":
            return ("while", s[1], blk(s[2]))
        if h == "repeat":
            return ("repeat", blk(s[1]), s[2])
        if h == "if":
            return ("if", s[1], blk(s[2]), [(c, blk(bb)) for c, bb in s[3]], None if s[4] is None else blk(s[4]))
        if h == "fornum":
            return s[:5] + (blk(s[5]),)
        if h == "forin":
            return s[:3] + (blk(s[3]),)
        if h == "funcstat":
            return s[:5] + (blk(s[5]),)
        if h == "localfunc":
            return s[:4] + (blk(s[4]),)
        return s
    return blk(b)


def go_tok(t):
    body, _, line = t.rpartition("@")
    line = line.split(".")[0]
    if body == "name:const":
        return "name:%d" % CONST_ID, int(line)
    if body == "name:close":
        return "name:%d" % CLOSE_ID, int(line)
    return A.go_tok_to_model(t)


def go_ast(s):
    s = A.go_ast_to_model(s)
    return re.sub(r"\bv(\d+)\b", r"\1", s)


def tok_text(tok, rng):
    if tok == "name:%d" % CONST_ID:
        return "const"
    if tok == "name:%d" % CLOSE_ID:
        return "close"
    return _orig_tok_text(tok, rng)


def render(toks, rng, nl=None):
    """A.render with the attribute names spelled out"""
    saved = A.tok_text
    A.tok_text = tok_text
    try:
        return A.render(toks, rng, True, nl)
    finally:
        A.tok_text = saved


# statements that the grammar of the manual (§9) and its rules reject although each looks like a valid one — and valid
# look-alikes; put in front of a generated chunk.  The verdict and the offending token come from C12gram.
GRAMMAR_PROBES = [
    "( name:1 ) = num:1", "name:1 , ( name:2 ) = num:1 , num:2", "( name:1 . name:2 ) = num:1", "( name:1 [ num:1 ] ) = num:1",
    "( ( name:1 ) ) = num:1", "name:1 = { ( name:2 ) = num:1 }", "name:1 = { name:2 . name:3 = num:1 }", "name:1 = { [ name:2 ] num:1 }",
    "function name:1 ( name:2 , ) end", "function name:1 ( , name:2 ) end", "function name:1 ( ... , name:2 ) end",
    "function name:1 ( name:2 name:3 ) end", "local function name:1 ( name:2 , ) end", "function name:1 . name:2 : name:3 . name:4 ( ) end",
    "function name:1 ( ) return ... end", "function name:1 ( name:2 ) name:2 = { ... } end",
    "function name:1 ( ... ) return function ( name:2 ) return ... end end", "local function name:1 ( ) name:1 ( ... ) end",
    "function name:1 ( ... ) local function name:2 ( ) return # { ... } end end",
    "name:1 ( ) = num:1", "name:1 : name:2 = num:1", "name:1 . name:2 : name:3 ( ) . name:4", "local name:1 . name:2 = num:1",
    "for name:1 . name:2 = num:1 , num:2 do end", "for name:1 , name:2 = num:1 , num:2 do end", "for name:1 = num:1 do end",
    "for name:1 = num:1 , num:2 , num:3 , num:4 do end", "for name:1 in do end", "if name:1 then else elseif name:2 then end",
    "repeat until", "while do end", "function ( ) end", "goto num:1", ":: name:1 name:2 ::", "return return", "name:1 = = num:1",
    "name:1 = num:1 num:2", "local < name:1000001 > name:1", "local name:1 < name:3 >", "local name:1 < name:1000001", "name:1 = { num:1 num:2 }",
    "name:1 = { , }", "name:1 ( num:1 , )", "return num:1 ,", "do end end", "break ( )", "name:1 = function ( name:2 , ) end",
    # valid look-alikes
    "( name:1 ) . name:2 = num:1", "( name:1 ) [ num:1 ] = num:1", "( name:1 ) ( )", "( name:1 ) : name:2 ( )", "( str:1 ) : name:2 ( )",
    "function name:1 ( ... ) return ... end", "function name:1 ( name:2 , ... ) return { ... } , ( ... ) end",
    "function name:1 ( ... ) return function ( ... ) return ... end end", "name:1 = { name:2 = num:1 ; [ name:2 ] = num:1 , name:2 , }",
    "name:1 ( ) . name:2 = num:1", "name:1 { } [ num:1 ] , name:2 = num:1 , num:2", "local name:1 < name:1000002 > , name:2 < name:1000001 > = nil , nil",
    "for name:1 , name:2 in name:3 , name:4 do end", "goto name:1", ":: name:1 ::", "return", ";",
]
MULTICLOSE_PROBE = "local name:1 < name:1000002 > , name:2 < name:1000002 > = nil , nil"


def check_statements(ck, gvh, oracle, tier, st):
    rng = ck.rng.fork()
    n = 1500 if tier == "quick" else 30000
    chunks = []
    for i in range(n):
        g = Gen(rng, spell=(i % 3 != 0))
        b = g.block(1 + rng.below(3))
        chunks.append((g, b))
    # expressions through the extracted printer
    rl = []
    for ci, (g, b) in enumerate(chunks):
        for ei, e in enumerate(g.exps):
            rl.append("x%d_%d R %s" % (ci, ei, A.sx(e)))
    rc, rout, rerr = vlib.run_lines(oracle, [], rl, timeout=3000)
    if rc != 0 or len(rout) != len(rl):
        ck.violation("oracle crashed on statement expressions (%d/%d)" % (len(rout), len(rl)), {"kind": "oracle-crash", "stderr": rerr[-1500:]}, no_input=True)
        return
    j = 0
    cases = []
    rs_lines, rs_idx = [], []
    for ci, (g, b) in enumerate(chunks):
        et, en = [], []
        allplain = True
        for e in g.exps:
            parts = rout[j].split(" @@ ")
            j += 1
            et.append(parts[0].split(" ")[1:])
            en.append(A.sx(A.norm(e)))
            allplain = allplain and parts[2] == "1"
        toks = block_toks(b, et)
        # a bare 'return' followed by ';' is a spelling the Coq printer does not produce
        cases.append({"toks": toks, "expect": block_sx(b, en), "kind": "valid", "plain": allplain and not g.spell, "et": et})
        if not g.spell:
            rs_lines.append("y%d RS %s" % (ci, tree_sx(b, g.exps)))
            rs_idx.append(ci)
    # the proven printer (StatPrint.print_chunk) against the generator's printer, wf_block, and the theorem re-evaluated
    rc, rsout, rserr = vlib.run_lines(oracle, [], rs_lines, timeout=3000)
    if rc != 0 or len(rsout) != len(rs_lines):
        ck.violation("oracle crashed on RS lines (%d/%d)" % (len(rsout), len(rs_lines)), {"kind": "oracle-crash", "stderr": rserr[-1500:]}, no_input=True)
        return
    nwf = 0
    for ci, l in zip(rs_idx, rsout):
        parts = l.split(" @@ ")
        coq_toks = [t for t in parts[0].split(" ")[1:] if t]
        py_cmp = strip_return_semis(chunks[ci][1], chunks[ci][0], cases[ci])
        ck.count("e:coq-printer")
        if parts[1] == "1":
            nwf += 1
        bad = None
        if coq_toks != py_cmp:
            bad = "StatPrint.print_chunk differs from the generator's printer"
        elif cases[ci]["plain"] and parts[1] != "1":
            bad = "wf_block false on a chunk of plain expressions"
        elif parts[1] == "1" and parts[2] != "same":
            bad = "extracted parse_chunk (print_chunk b) <> Ok b on a well-formed chunk (contradicts C12_parse_chunk_print)"
        if bad:
            ck.violation(bad, {"kind": "model-self", "tree": rs_lines[rs_idx.index(ci)][:3000], "oracle": l[:3000]}, no_input=True)
            break
    ck.cov["chunks_wf_roundtrip_reevaluated"] = nwf
    # single-token corruptions of a third of them
    for c in list(cases[: len(cases) // 3]):
        toks = c["toks"]
        if not toks:
            continue
        k = rng.below(3)
        p = rng.below(len(toks))
        if k == 0:
            t2 = toks[:p] + toks[p + 1:]
        elif k == 1:
            t2 = toks[:p] + [rng.choice(A.CORRUPT_TOKENS + ["do", "until", "else", "in", "function", "local", "return", "::", "for"])] + toks[p:]
        else:
            t2 = toks[:p + 1]
        cases.append({"toks": t2, "expect": None, "kind": "corrupt"})
    # grammar probes in front of generated chunks (every probe in quick, x20 in thorough)
    nvalid = len(chunks)
    for rep_ in range(1 if tier == "quick" else 20):
        for pi, probe in enumerate(GRAMMAR_PROBES + [MULTICLOSE_PROBE]):
            base = cases[rng.below(nvalid)]["toks"] if rng.chance(2, 3) else []
            cases.append({"toks": probe.split(" ") + list(base), "expect": None, "kind": "grammar-probe", "probe": probe})
    gl = []
    for i, c in enumerate(cases):
        c["nl"] = A.NL_STYLES[i % len(A.NL_STYLES)]
        c["src"], c["lines"], c["eofline"] = render(c["toks"], rng, c["nl"])
        gl.append("k%d %s" % (i, A.hexsrc(c["src"])))
    gout = vlib.run_lines_resilient(gvh, ["chunk"], gl, per_case_timeout=30)
    pl, pidx = [], []
    for i, c in enumerate(cases):
        f = gout[i].split(" @@ ")
        c["go_status"] = f[0].split(" ")[1] if " " in f[0] else "crash"
        c["go_body"] = f[2] if len(f) > 2 else gout[i]
        gt = [go_tok(t) for t in f[1].split(" ") if t] if len(f) > 2 else []
        c["go_toks"] = gt
        c["go_pos"] = [t.rpartition("@")[2] for t in f[1].split(" ") if t] if len(f) > 2 else []
        if gt and all(t[0] is not None for t in gt) and gt[-1][0] == "eof":
            pl.append("k%d PS %s" % (i, " ".join(t[0] for t in gt[:-1])))
            pidx.append(i)
    rc, pout, perr = vlib.run_lines(oracle, [], pl, timeout=3000)
    if rc != 0 or len(pout) != len(pl):
        ck.violation("oracle crashed on PS lines (%d/%d)" % (len(pout), len(pl)), {"kind": "oracle-crash", "stderr": perr[-1500:]}, no_input=True)
        return
    for i, l in zip(pidx, pout):
        cases[i]["model"] = l.split(" ", 1)[1]
    nerr = 0
    for i, c in enumerate(cases):
        ck.count("e:" + c["kind"])
        if A.known_for_source(ck, c["src"]) is not None:
            continue
        model = c.get("model")
        rep = {"engine": "front", "mode": "chunk", "source_hex": A.hexsrc(c["src"]), "source": c["src"], "expected_ast": c["expect"],
               "go": gout[i][:3000], "model": model}
        ok = c["go_status"] == "ok"
        goast = go_ast(c["go_body"]) if ok else None
        # ---- S: the manual's grammar and rules (C12gram): golua accepts <=> the manual accepts, same offending token
        sres = G.recognise(c["toks"], "chunk", allow_multiclose=True)
        strict = G.recognise(c["toks"], "chunk") if sres[0] == "ok" else sres
        ck.count("e:grammar:" + (sres[0] if sres[0] == "ok" else sres[3].split(" ")[0]))
        gidx = None
        if c["go_status"] == "err":
            gb = c["go_body"].split(" ")
            key = "%s.%s" % (gb[0], gb[1])
            gidx = c["go_pos"].index(key) if key in c["go_pos"] else None
            gmsg = bytes.fromhex(gb[2]).decode("latin-1") if len(gb) > 2 and gb[2] != "-" else ""
            bad = A.bad_message(gmsg, r"^\d+:\d+: ")
            if bad:
                st["go_ne_s"] += 1
                if st["go_ne_s"] <= 5:
                    ck.violation("ill-formed syntax error message (%s): %r" % (bad, gmsg[:100]), dict(rep, kind="Go!=S"))
                continue
        if (sres[0] == "ok") != ok or (sres[0] == "err" and (gidx is None or not (sres[1] <= gidx <= sres[2]))):
            st["go_ne_s"] += 1
            if st["go_ne_s"] <= 5:
                rep["kind"] = "Go!=S"
                rep["grammar"] = list(sres)
                rep["go_error_token_index"] = gidx
                ck.violation("golua and the manual's grammar disagree on a chunk (golua %s at token %s, manual %s): %s"
                             % (c["go_status"], gidx, " ".join(str(x) for x in sres), c["src"][:80].replace("\n", "\\n")), rep)
            continue
        if strict[0] == "err" and strict[3] == "multiclose" and sres[0] == "ok":
            k = ck.known_match(lambda k_: k_["id"] == "C12-multiple-close-accepted")
            if k is not None:
                ck.known_finding(k)
            else:
                st["go_ne_s"] += 1
                ck.violation("several to-be-closed variables in one local list are accepted and the finding is not recorded", dict(rep, kind="Go!=S"))
        if c["kind"] == "grammar-probe":
            ck.case(c["src"], True)
        if sres[0] == "err" and sres[3] in ("vararg",):
            # the Coq model (Front/Stat.v) has the context-free grammar only: rule violations are compared with S alone
            if c["kind"] != "grammar-probe":
                ck.case(c["src"], True)
            continue
        if model is None or model.startswith("unsupported"):
            if c["kind"] != "grammar-probe":
                ck.case(c["src"], False)
            continue
        if c["kind"] == "grammar-probe":
            # Go ~ IM on the probe: acceptance and offending token
            if model.startswith("ok ") != ok or (model.startswith("err ") and gidx != int(model.split(" ")[1])):
                st["go_ne_im"] += 1
                st["first_im"] = st["first_im"] or rep
            continue
        if c["kind"] == "valid":
            ck.case(c["src"], ok)
            want_toks = list(zip(c["toks"], c["lines"])) + [("eof", c["eofline"])]
            if goast != c["expect"] or c["go_toks"] != want_toks:
                st["go_ne_s"] += 1
                if st["go_ne_s"] <= 5:
                    rep["kind"] = "Go!=S"
                    ck.violation("Go parse of a chunk differs from the statement tree denoted by the source: " + c["src"][:80].replace("\n", "\\n"), rep)
                continue
            if model != "ok " + goast:
                st["go_ne_im"] += 1
                st["first_im"] = st["first_im"] or rep
            continue
        # corrupted
        if model.startswith("ok "):
            ck.case(c["src"], False)
            if not ok or goast != model[3:]:
                st["go_ne_im"] += 1
                st["first_im"] = st["first_im"] or rep
            continue
        nerr += 1
        ck.case(c["src"], True)
        if model.startswith("oof"):
            st["go_ne_im"] += 1
            st["first_im"] = st["first_im"] or rep
            continue
        idx = int(model.split(" ")[1])
        want_line = c["lines"][idx] if idx < len(c["lines"]) else c["eofline"]
        gl_ = int(c["go_body"].split(" ")[0]) if c["go_status"] == "err" else -1
        if c["go_status"] != "err" or gl_ != want_line:
            st["go_ne_s"] += 1
            if st["go_ne_s"] <= 5:
                rep["kind"] = "Go!=S"
                rep["expected_line"] = want_line
                rep["offending_token_index"] = idx
                ck.violation("chunk syntax error not reported at the line of the offending token (want %d, got %s %d)"
                             % (want_line, c["go_status"], gl_), rep)
    for i in (0, len(cases) - 1):
        ck.sample({"kind": "chunk-" + cases[i]["kind"], "source": cases[i]["src"][:300]})
    ck.log("(e) %d chunks (%d corrupted, %d syntax errors located)" % (len(cases), sum(1 for c in cases if c["kind"] == "corrupt"), nerr))
