# C04 — no Lua source or program can crash the embedding Go process.   LABEL: partial.
#
#  PROVED (coq/theories/Properties/C04.v over VM/Opcode.v, VM/Limits.v):
#     opcode field round trips; register allocator fits its 8-bit field for every history and fails
#     only with a CompilationPanic; in-range requests encode exactly; a request beyond ANY limit is a
#     compile error (full statement since the round-2 repairs); check_code sound; parser depth <= 201.
#  TIED to the Go code on every run (gvh-limits enc / lim vs the extracted model):
#     the real mkType1..7 + Get* accessors on all 8-bit field values, boundary+random 16-bit values;
#     the real ircomp.ConstantCompiler on hand-built IR around every limit.
#     An independent python decoder of the documented bit layout is the S side (Go≈S).
#  EXPLORED, not proved (child processes, gvh-limits lua = hx.RunLuaCase, crash/hang survive):
#     (a) byte strings as source text (random bytes, token soup, corrupted programs, nesting
#         templates, huge functions), (b) every library function reachable from package.loaded and the
#         string metatable x argument tuples from an edge pool, under runtime.callcontext + pcall with
#         iosafe required, (c) recursion through metamethods / pcall / coroutines / deep Lua recursion /
#         string explosions under limits.
#     Outcome classes: ok / compile_error / error / killed are ordinary; gopanic, CRASH (process
#     died), HANG, and a wrong result of a program whose result is known are violations.
import json
import os
import re

from lib import vlib

PROP = ["Properties/C04.v"]
TRUSTED = [
    "Coq 8.16.1 kernel (coqc); vm_compute only in Example / _refuted witnesses",
    "no axioms (every C04 theorem is closed under the global context)",
    "extraction: ExtrOcamlBasic only; oracle/common/proto.ml + oracle/limits/driver.ml (glue), OCaml 4.13.1",
    "Go harness harness/cmd/gvh-limits/main.go, hook /repo/code/verif_opcodes.go (re-exports of mkType1..7), harness/hx (RunLuaCase)",
    "python generators / independent bit-layout decoder / classification in lib/props/C04.py",
    "modelled, not verified: Go semantics of uint8/uint16/int16 conversions and of recover(); the IR fed to ircomp by the harness is hand-built (astcomp is not modelled)",
    "NOT covered by any theorem (observed only): scanner, parser, astcomp, the VM loop, the standard library, Go stack exhaustion, out-of-memory",
]

M32 = (1 << 32) - 1


def hx(v):
    return ("-%x" % -v) if v < 0 else ("%x" % v)


def lua_hex(s):
    b = s if isinstance(s, bytes) else s.encode("utf-8", "surrogateescape")
    return b.hex() or "-"


def unhex(s):
    if s in ("-", ""):
        return ""
    try:
        return bytes.fromhex(s).decode("utf-8", "replace")
    except ValueError:
        return s


# ----------------------------------------------------------------------------- S side: the documented bit layout
def spec_decode(w):
    """Independent reading of the layout comments of opcodes.go (TypeN: prefix F a b c / A B C ...)."""
    d = {}
    d["t1"] = (w >> 31) & 1
    d["pfx"] = w & 0xF0000000
    d["x"] = (w >> 27) & 0xF
    d["f"] = (w >> 27) & 1
    d["a"] = ((w >> 26) & 1, (w >> 16) & 0xFF)
    d["b"] = ((w >> 25) & 1, (w >> 8) & 0xFF)
    d["c"] = ((w >> 24) & 1, w & 0xFF)
    d["yj"] = (w >> 24) & 3
    d["n"] = w & 0xFFFF
    d["l"] = (w >> 8) & 0xFF
    d["z"] = w & 0xFF
    d["off"] = (w & 0xFFFF) - (0x10000 if w & 0x8000 else 0)
    return d


def parse_dec(line):
    """'id w=.. t1=..' -> dict of ints / tuples (as printed by decodeAll)."""
    out = {}
    for tok in line.split()[1:]:
        if "=" not in tok:
            continue
        k, v = tok.split("=", 1)
        if "," in v:
            a, b = v.split(",")
            out[k] = (int(a, 16), int(b, 16))
        else:
            out[k] = int(v, 16)
    return out


def check_enc_spec(case, dec):
    """Go≈S for in-design-range encoder cases: the fields written must read back (python decoder on the Go word
    AND the Go accessors)."""
    kind, a = case[0], case[1:]
    w = dec["w"]
    s = spec_decode(w)
    bad = []

    def reg_ok(t, i):
        return t in (0, 1) and 0 <= i <= 255

    def expect(name, got_go, got_spec, want):
        if got_go != want or got_spec != want:
            bad.append("%s: wrote %s, Go accessor %s, layout %s" % (name, want, got_go, got_spec))
    if kind == "m1":
        op, at, ai, bt, bi, ct, ci = a
        if op < 16 and reg_ok(at, ai) and reg_ok(bt, bi) and reg_ok(ct, ci):
            expect("type1", dec["t1"], s["t1"], 1)
            expect("X", dec["x"], s["x"], op)
            expect("A", dec["a"], s["a"], (at, ai))
            expect("B", dec["b"], s["b"], (bt, bi))
            expect("C", dec["c"], s["c"], (ct, ci))
    elif kind in ("m2", "m7"):
        f, at, ai, bt, bi, ct, ci = a
        if f < 2 and reg_ok(at, ai) and reg_ok(bt, bi) and reg_ok(ct, ci):
            expect("pfx", dec["pfx"], s["pfx"], (7 if kind == "m2" else 2) << 28)
            expect("F", dec["f"], s["f"], f)
            expect("A", dec["a"], s["a"], (at, ai))
            expect("B", dec["b"], s["b"], (bt, bi))
            expect("C", dec["c"], s["c"], (ct, ci))
    elif kind == "m3":
        f, op, at, ai, n = a
        if f < 2 and op < 4 and reg_ok(at, ai):
            expect("pfx", dec["pfx"], s["pfx"], 6 << 28)
            expect("F", dec["f"], s["f"], f)
            expect("Y", dec["y"], s["yj"], op)
            expect("A", dec["a"], s["a"], (at, ai))
            expect("N", dec["n"], s["n"], n)
            expect("K", dec["k"], s["n"], n)
    elif kind == "m4a":
        f, op, at, ai, bt, bi = a
        if f < 2 and reg_ok(at, ai) and reg_ok(bt, bi):
            expect("pfx", dec["pfx"], s["pfx"], 5 << 28)
            expect("4a", dec["t4a"], (w >> 24) & 1, 1)
            expect("F", dec["f"], s["f"], f)
            expect("UnOp", dec["uo"], s["z"], op)
            expect("A", dec["a"], s["a"], (at, ai))
            expect("B", dec["b"], s["b"], (bt, bi))
    elif kind == "m4b":
        f, op, at, ai, l = a
        if f < 2 and reg_ok(at, ai):
            expect("pfx", dec["pfx"], s["pfx"], 5 << 28)
            expect("4a", dec["t4a"], (w >> 24) & 1, 0)
            expect("F", dec["f"], s["f"], f)
            expect("UnOpK", dec["uk"], s["z"], op)
            expect("A", dec["a"], s["a"], (at, ai))
            expect("L", dec["l"], s["l"], l)
    elif kind in ("m5o", "m5c"):
        f, op, at, ai, d = a
        if f < 2 and op < 4 and reg_ok(at, ai):
            expect("pfx", dec["pfx"], s["pfx"], 4 << 28)
            expect("F", dec["f"], s["f"], f)
            expect("J", dec["j"], s["yj"], op)
            expect("A", dec["a"], s["a"], (at, ai))
            if kind == "m5o":
                expect("Offset", dec["off"], s["off"], d)
            else:
                expect("ClStackOffset", dec["cl"], s["n"], d)
    elif kind == "m6":
        f, at, ai, bt, bi, i = a
        if f < 2 and reg_ok(at, ai) and reg_ok(bt, bi):
            expect("pfx", dec["pfx"], s["pfx"], 3 << 28)
            expect("F", dec["f"], s["f"], f)
            expect("A", dec["a"], s["a"], (at, ai))
            expect("B", dec["b"], s["b"], (bt, bi))
            expect("M", dec["m"], s["z"], i)
    elif kind == "m0":
        f, at, ai = a
        if f < 2 and reg_ok(at, ai):
            expect("type0", dec["t0"], 1 if (w >> 28) == 0 else 0, 1)
            expect("F", dec["f"], s["f"], f)
            expect("A", dec["a"], s["a"], (at, ai))
    elif kind == "so":
        c, d = a
        expect("Offset", dec["off"], s["off"], d)
        if (w >> 16) != (c >> 16):
            bad.append("SetOffset changed the upper half")
    elif kind == "sk":
        c, i = a
        expect("KIndex", dec["k"], s["n"], i)
        if (w >> 16) != (c >> 16):
            bad.append("SetKIndex changed the upper half")
    return bad


def gen_enc(rng, tier):
    cases = []
    tps = [0, 1, 2, 255]
    idxs = [0, 1, 127, 128, 254, 255]
    n16 = [0, 1, 2, 255, 256, 257, 32766, 32767, 32768, 32769, 65534, 65535]
    s16 = [-32768, -32767, -256, -255, -2, -1, 0, 1, 2, 255, 256, 32766, 32767]
    regs = [(0, 0), (1, 255), (0, 254), (1, 0)]
    all8 = range(256)
    # exhaustive over every 8-bit field, the others at boundary values
    for v in all8:
        for (at, ai) in regs[:2]:
            cases.append(("m1", v, at, ai, 1, 255 - ai, 0, 7))
            cases.append(("m1", 15, at, v, 0, ai, 1, 255))
            cases.append(("m1", 0, 1, ai, at, v, 0, 0))
            cases.append(("m1", 9, 0, 3, 1, ai, at, v))
            cases.append(("m2", v, at, ai, 0, 0, 1, 1))
            cases.append(("m2", 1, 0, v, at, 255 - v, 1, v))
            cases.append(("m7", v, at, ai, 0, 0, 1, 1))
            cases.append(("m7", 0, 1, v, at, v, 0, 255 - v))
            cases.append(("m3", v, 1, at, ai, 65535))
            cases.append(("m3", 1, v, at, ai, 0x1234))
            cases.append(("m3", 0, 3, at, v, 65535 - v))
            cases.append(("m4a", v, 9, at, ai, 1, 1))
            cases.append(("m4a", 1, v, at, ai, 0, 255))
            cases.append(("m4a", 0, 5, at, v, 1 - at, 255 - v))
            cases.append(("m4b", v, 4, at, ai, 1))
            cases.append(("m4b", 0, v, at, ai, 255))
            cases.append(("m4b", 1, 3, at, 255 - v, v))
            cases.append(("m5o", v, 2, at, ai, -1))
            cases.append(("m5o", 1, v, at, ai, 32767))
            cases.append(("m5c", 0, 3, at, v, 65535 - v))
            cases.append(("m6", v, at, ai, 0, 1, 255))
            cases.append(("m6", 1, at, v, 1 - at, 255 - v, v))
            cases.append(("m0", v, at, ai))
            cases.append(("m0", 1, at, v))
        for t in tps:
            cases.append(("m1", 3, t, v, 0, 1, 1, 2))
            cases.append(("m2", 0, 0, 1, t, v, 1, 2))
            cases.append(("m7", 1, 0, 1, 1, 2, t, v))
            cases.append(("m0", 0, t, v))
    # 16-bit fields: boundaries
    for n in n16:
        for f in (0, 1):
            for op in range(4):
                cases.append(("m3", f, op, 1, 200, n))
                cases.append(("m5c", f, op, 0, 17, n))
    for d in s16:
        for f in (0, 1):
            for op in range(4):
                cases.append(("m5o", f, op, 1, 3, d))
    # SetOffset / SetKIndex / plain decode on boundary and random words
    words = [0, 1, M32, 0x80000000, 0x7FFFFFFF, 0xF0000000, 0x0F000000, 0xFFFF0000, 0x0000FFFF, 0x4100FFFF, 0x61008000]
    nr = 3000 if tier == "quick" else 60000
    for _ in range(nr):
        words.append(rng.below(1 << 32))
    for i, w in enumerate(words):
        cases.append(("dec", w))
        cases.append(("so", w, s16[i % len(s16)] if i < 200 else rng.below(65536) - 32768))
        cases.append(("sk", w, n16[i % len(n16)] if i < 200 else rng.below(65536)))
    # random full combinations (in-type values)
    for _ in range(nr):
        r8 = lambda: rng.below(256)
        rt = lambda: rng.below(2) if rng.chance(7, 8) else rng.below(256)
        k = rng.below(10)
        if k == 0:
            cases.append(("m1", rng.below(16) if rng.chance(3, 4) else r8(), rt(), r8(), rt(), r8(), rt(), r8()))
        elif k == 1:
            cases.append(("m2", rng.below(2), rt(), r8(), rt(), r8(), rt(), r8()))
        elif k == 2:
            cases.append(("m3", rng.below(2), rng.below(4), rt(), r8(), rng.below(65536)))
        elif k == 3:
            cases.append(("m4a", rng.below(2), r8(), rt(), r8(), rt(), r8()))
        elif k == 4:
            cases.append(("m4b", rng.below(2), r8(), rt(), r8(), r8()))
        elif k == 5:
            cases.append(("m5o", rng.below(2), rng.below(4), rt(), r8(), rng.below(65536) - 32768))
        elif k == 6:
            cases.append(("m5c", rng.below(2), rng.below(4), rt(), r8(), rng.below(65536)))
        elif k == 7:
            cases.append(("m6", rng.below(2), rt(), r8(), rt(), r8(), r8()))
        elif k == 8:
            cases.append(("m7", rng.below(2), rt(), r8(), rt(), r8(), rt(), r8()))
        else:
            cases.append(("m0", rng.below(2), rt(), r8()))
    # LoadSmallInt
    for n in [0, 1, -1, 32766, 32767, 32768, 32769, -32767, -32768, -32769, -32770, 65535, 65536, -65536, 1 << 31,
              (1 << 31) - 1, -(1 << 31), (1 << 63) - 1, -(1 << 63), (1 << 32) + 5, -(1 << 32) - 32768]:
        cases.append(("lsi", 0, 9, n))
        cases.append(("lsi", 1, 255, n))
    for _ in range(300):
        cases.append(("lsi", 0, rng.below(256), rng.below(1 << 18) - (1 << 17)))
    return cases


# ----------------------------------------------------------------------------- limits
def gen_lim(rng, tier):
    cases = []   # (kind, args..., in_range?)  as text after the id
    for i in list(range(-3, 300)) + [511, 512, 65535, 65536, 1 << 31, -(1 << 31)]:
        cases.append(("etc", i))
        cases.append(("fill", i))
    for h in [-2, -1, 0, 1, 2, 255, 256, 32767, 32768, 65534, 65535, 65536, 65537, 1 << 20, 1 << 31] + \
            [rng.below(70000) for _ in range(60)]:
        cases.append(("cltrunc", h))
    for n in ([1, 2, 255, 256, 257, 4096, 30000, 30001, 65531, 65532, 65533, 65534] if tier == "quick" else
              [1, 2, 255, 256, 257, 4096, 30000, 30001, 32767, 32768, 60000, 60001, 65530, 65531, 65532, 65533, 65534, 65535, 65536, 70000]):
        ks = sorted(set(k for k in (1, 2, 255, 256, 257, n - 1, n, 30000, 30001, 32768, 65532) if 1 <= k <= min(n, 65532)))
        cases.append(("const", n, ks))
        if n <= 65537:
            cases.append(("clos", n, ks))
    # (from, to, len): both addresses inside a function of len opcodes (to == len: label at the end)
    jl = [(0, 0, 1), (0, 1, 1), (0, 5, 9), (5, 0, 9), (3, 3, 4), (0, 300, 300), (299, 0, 300),
          (0, 32766, 32767), (0, 32767, 32767), (32766, 0, 32767), (32766, 32767, 32767), (16000, 16001, 32767),
          (0, 32767, 32768), (0, 32768, 32768), (32767, 0, 32768), (1, 2, 32768), (0, 32769, 32770), (32769, 1, 32770),
          (0, 40000, 40001), (40000, 0, 40001), (5, 6, 40001), (0, 65535, 65536), (0, 65536, 65536), (65535, 0, 65536),
          (0, 65537, 65538), (0, 70000, 70001), (69999, 3, 70000)]
    for (frm, to, ln) in jl:
        for kind in ("j", "jif", "jifn"):
            cases.append(("jump", kind, frm, to, ln))
    for _ in range(20 if tier == "quick" else 300):
        ln = rng.choice([rng.below(40000) + 1, 32767 - rng.below(3), 32768 + rng.below(3), rng.below(300) + 1])
        cases.append(("jump", rng.choice(["j", "jif", "jifn"]), rng.below(ln), rng.below(ln + 1), ln))
    # register allocator histories
    nh = 120 if tier == "quick" else 2000
    for h in range(nh):
        nregs = rng.choice([4, 40, 254, 255, 256, 257, 300, 520])
        pc = rng.choice([0, 0, 1, 2, 3])       # 1 in pc registers is a cell (0 = none)
        cells = "".join("1" if (pc and rng.below(pc + 1) == 0) else "0" for _ in range(nregs))
        ops = []
        live = []
        style = rng.below(3)
        steps = rng.choice([20, 300, 700])
        nxt = 0
        for _ in range(steps):
            k = rng.below(10)
            if style == 0 or k < 6:
                if style == 0 or rng.chance(3, 4):
                    r = nxt % nregs
                    nxt += 1
                else:
                    r = rng.below(nregs)
                ops += ["T%x" % r, "U%x" % r]
                live.append(r)
            elif k < 9 and live:
                r = live.pop(rng.below(len(live)))
                ops += ["R%x" % r, "U%x" % r]
            else:
                r = rng.below(nregs)
                ops += ["U%x" % r]
        cases.append(("ra", cells, ops))
    return cases


def lim_line(c):
    if c[0] == "ra":
        return "ra %s %s" % (c[1], " ".join(c[2]))
    if c[0] in ("const", "clos"):
        return "%s %x %s" % (c[0], c[1], ",".join("%x" % k for k in c[2]) or "-")
    if c[0] == "jump":
        return "jump %s %s %s %s" % (c[1], hx(c[2]), hx(c[3]), hx(c[4]))
    return "%s %s" % (c[0], hx(c[1]))


def lim_in_range(c):
    if c[0] in ("etc", "fill"):
        return 0 <= c[1] <= 255
    if c[0] == "cltrunc":
        return 0 <= c[1] <= 65535
    if c[0] in ("const", "clos"):
        return c[1] + (c[1] + 29999) // 30000 <= 65535     # m children + n loads, constant 0 is the main function
    if c[0] == "jump":
        return c[4] <= 32767
    return None


def lim_spec_ok(c, out):
    """Go≈S for an in-range request: the emitted word carries the requested value (python layout decoder)."""
    toks = out.split()
    if len(toks) < 3 or toks[1] != "E":
        return False
    ws = [int(x, 16) for x in toks[2].split(",")]
    if c[0] == "etc":
        s = spec_decode(ws[0])
        return s["pfx"] == 3 << 28 and s["f"] == 0 and s["z"] == c[1] and s["a"] == (0, 0) and s["b"] == (0, 1)
    if c[0] == "fill":
        s = spec_decode(ws[0])
        return s["pfx"] == 3 << 28 and s["f"] == 1 and s["z"] == c[1] and s["a"] == (0, 0) and s["b"] == (0, 1)
    if c[0] == "cltrunc":
        s = spec_decode(ws[0])
        return s["pfx"] == 4 << 28 and s["yj"] == 3 and s["f"] == 0 and s["n"] == c[1]
    if c[0] in ("const", "clos"):
        m = (c[1] + 29999) // 30000
        return all(spec_decode(w)["n"] == m + k and spec_decode(w)["pfx"] == 6 << 28 and
                   spec_decode(w)["yj"] == (1 if c[0] == "const" else 2) for w, k in zip(ws, c[2]))
    if c[0] == "jump":
        s = spec_decode(ws[0])
        return s["pfx"] == 4 << 28 and s["off"] == c[3] - c[2] and s["yj"] == (1 if c[1] == "j" else 2)
    return True


# ----------------------------------------------------------------------------- exploration: sources
TOKENS = ("and break do else elseif end false for function goto if in local nil not or repeat return then true until while "
          "+ - * / % ^ # & ~ | << >> // == ~= <= >= < > = ( ) { } [ ] :: ; : , . .. ... "
          "x y z f t _ENV 0 1 2 3.5 0x10 1e300 1e-300 0xffffffffffffffff 9223372036854775807 9223372036854775808 "
          "'' 'a' \"b\" [[c]] [==[d]==] '\\z' '\\u{7FFFFFFF}' '\\xff' '\\065' -- --[[ ]] \n <const> <close>").split(" ")

VALID = [
    "local x <const> = 1 local t = {1,2,[3]=4,a=5,f()} for i=1,10 do t[i]=i*2 end return #t",
    "local function f(a,b,...) local c = select('#',...) return a+b+c end return f(1,2,3,4)",
    "local s = 0 for k,v in pairs({a=1,b=2}) do s = s + v end while s < 10 do s = s + 1 if s == 7 then break end end return s",
    "goto l1 do local x = 1 end ::l1:: local y <close> = nil repeat local z = 1 until z == 1 return ('x'):rep(3)..1 .. 2",
    "local a = {b={c={d=function(self, x) return x end}}} return a.b.c:d(5) // 2 ^ 2 & 3 | 4 ~ 1 << 2 >> 1",
    "local co = coroutine.wrap(function(a) local b = coroutine.yield(a+1) return b*2 end) return co(1), co(5)",
    "return 0x1p4, 1e2, .5, 3., 0xA.8p0, 1//0, -1//0, 1%0.0, 'a\\tb\\65\\x41\\u{48}', [[\nx]], #'abc', not nil, -(-3)",
]

NEST = {
    "paren": lambda n: ("return " + "(" * n + "1" + ")" * n, ("ok", "i1")),
    "neg": lambda n: ("return " + "- " * n + "1", ("ok", "i1" if n % 2 == 0 else "i-1")),
    "not": lambda n: ("return " + "not " * n + "1", ("ok", "b0" if n % 2 == 1 else "b1")),
    "tbl": lambda n: ("return " + "{" * n + "}" * n, None),
    "fn": lambda n: ("return " + "function() return " * n + "1" + " end" * n, None),
    "do": lambda n: ("do " * n + "end " * n + "return 7", ("ok", "i7")),
    "if": lambda n: ("local x = 0 " + "if true then " * n + "x = 7 " + "end " * n + "return x", ("ok", "i7")),
    "while": lambda n: ("local x = 0 " + "while true do " * n + "x = 7 break " + "end break " * (n - 1) + "end return x", ("ok", "i7")),
    "pow": lambda n: ("return " + "1^" * n + "1", ("ok", None)),
    "concat": lambda n: ("return #(" + "'a'.." * n + "'b')", ("ok", "i%d" % (n + 1))),
    "call": lambda n: ("local function f() return f end return f" + "()" * n + " == f", ("ok", "b1")),
    "dot": lambda n: ("local a = {} a.b = a return a" + ".b" * n + " == a", ("ok", "b1")),
    "index": lambda n: ("local a = {} a[1] = a return a" + "[1]" * n + " == a", ("ok", "b1")),
    "lbrack": lambda n: ("return [" + "=" * n + "[x]" + "=" * n + "]", ("ok", "s78")),
    "comment": lambda n: ("--[" + "=" * n + "[\n" + "x" * n + "]" + "=" * n + "]return 1", ("ok", "i1")),
    "binop": lambda n: ("return " + "1+" * n + "1", ("ok", "i%d" % (n + 1))),
    "and": lambda n: ("return " + "true and " * n + "5", ("ok", "i5")),
    "elseif": lambda n: ("local x = %d " % n + "if x == 0 then return 0 " + "".join("elseif x == %d then return %d " % (i, i) for i in range(1, n + 1)) + "end", ("ok", "i%d" % n)),
    "funcargs": lambda n: ("local function f(...) return select('#', ...) end return f(" + "f(" * n + ")" * n + ")", ("ok", "i1")),
    "method": lambda n: ("local a = {} function a:m() return self end return a" + ":m()" * n + " == a", ("ok", "b1")),
}

HUGE = {
    # name -> (source builder, expected (status, first result) when the size is within every limit, or None)
    "locals": lambda n: ("".join("local v%d = %d " % (i, i) for i in range(n)) + "return v%d" % (n - 1), ("ok", "i%d" % (n - 1))),
    "locals_live": lambda n: ("".join("local v%d = %d " % (i, i) for i in range(n)) + "return " + "+".join("v%d" % i for i in range(n)), ("ok", "i%d" % (n * (n - 1) // 2))),
    "consts": lambda n: ("local t = 0 " + "".join("t = t + %d.5 " % i for i in range(n)) + "return t", ("ok", None)),
    "strconsts": lambda n: ("local t = {" + ",".join("'s%d'" % i for i in range(n)) + "} return #t", ("ok", "i%d" % n)),
    "loop_body": lambda n: ("local x = 0 for i = 1, 2 do " + "x = x + 1 " * n + "end return x", ("ok", "i%d" % (2 * n))),
    "straight": lambda n: ("local x = 0 " + "x = x + 1 " * n + "return x", ("ok", "i%d" % n)),
    "if_jump": lambda n: ("local x = 0 if x == 1 then " + "x = x + 1 " * n + "end return x", ("ok", "i0")),
    "while_back": lambda n: ("local x, k = 0, 0 while k < 2 do k = k + 1 " + "x = x + 1 " * n + "end return x", ("ok", "i%d" % (2 * n))),
    "goto_back": lambda n: ("local x, k = 0, 0 ::top:: k = k + 1 " + "x = x + 1 " * n + "if k < 2 then goto top end return x", ("ok", "i%d" % (2 * n))),
    "tbl_call": lambda n: ("local function f() return 8, 9 end local t = {" + "1," * n + "f()} return #t", ("ok", "i%d" % (n + 2))),
    "tbl_vararg": lambda n: ("local function g(...) local t = {" + "1," * n + "...} return #t end return g(8, 9)", ("ok", "i%d" % (n + 2))),
    "tbl_plain": lambda n: ("local t = {" + "1," * n + "} return #t", ("ok", "i%d" % n)),
    "args": lambda n: ("local function f(...) return select('#', ...) end return f(" + ",".join(["1"] * n) + ")", ("ok", "i%d" % n)),
    "params": lambda n: ("local function f(" + ",".join("p%d" % i for i in range(n)) + ") return p%d end return f(" % (n - 1) + ",".join(str(i) for i in range(n)) + ")", ("ok", "i%d" % (n - 1))),
    "rets": lambda n: ("local function f() return " + ",".join(["1"] * n) + " end return select('#', f())", ("ok", "i%d" % n)),
    "multi_assign": lambda n: ("local " + ",".join("a%d" % i for i in range(n)) + " = " + ",".join(str(i) for i in range(n)) + " return a%d" % (n - 1), ("ok", "i%d" % (n - 1))),
    "multi_assign_call": lambda n: ("local function f() return " + ",".join(str(i) for i in range(n)) + " end local " + ",".join("a%d" % i for i in range(n)) + " = f() return a%d" % (n - 1), ("ok", "i%d" % (n - 1))),
    "upvalues": lambda n: ("".join("local u%d = %d " % (i, i) for i in range(n)) + "local function f() return " + "+".join("u%d" % i for i in range(n)) + " end return f()", ("ok", "i%d" % (n * (n - 1) // 2))),
    "closures": lambda n: ("local t = 0 " + "".join("t = t + (function() return %d end)() " % 1 for i in range(n)) + "return t", ("ok", "i%d" % n)),
    "tbc": lambda n: ("local c = 0 local mt = {__close = function() c = c + 1 end} do " + "".join("local x%d <close> = setmetatable({}, mt) " % i for i in range(n)) + "end return c", ("ok", "i%d" % n)),
    "tbc_nested": lambda n: ("local c = 0 local mt = {__close = function() c = c + 1 end} " + "do local x <close> = setmetatable({}, mt) " * n + "end " * n + "return c", ("ok", "i%d" % n)),
    "long_string": lambda n: ("return #'" + "a" * n + "'", ("ok", "i%d" % n)),
    "long_name": lambda n: ("local " + "a" * n + " = 3 return " + "a" * n, ("ok", "i3")),
    "long_number": lambda n: ("return " + "1" * n + " > 0", ("ok", "b1")),
    "long_escape": lambda n: ("return #'" + "\\z  \n  " * n + "x'", ("ok", "i1")),
    "lines": lambda n: ("\n" * n + "return 1", ("ok", "i1")),
    "consts_spread": lambda n: ("local t = 0 " + "".join("t = t + (function() local s = 0 " + "".join("s = s + %d.5 " % (j * n + i) for i in range(n)) + "return s end)() " for j in range(20)) + "return t > 0", ("ok", "b1")),
    "labels": lambda n: ("".join("::l%d:: " % i for i in range(n)) + "return 1", ("ok", "i1")),
    "gotos": lambda n: ("do " + "".join("goto l%d ::l%d:: " % (i, i) for i in range(n)) + "end return 1", ("ok", "i1")),
}

HUGE_SIZES_QUICK = [254, 255, 256, 257, 300]
HUGE_BIG_QUICK = {"loop_body": [40000], "straight": [33000], "if_jump": [33000], "consts_spread": [3400], "tbl_plain": [66000], "args": [300, 66000], "long_string": [200000], "lines": [200000]}
HUGE_SIZES_THOROUGH = [2, 100, 200, 250, 253, 254, 255, 256, 257, 258, 300, 511, 512, 1000, 8190, 16383, 16384, 32766, 32767,
                       32768, 33000, 40000, 65534, 65535, 65536, 65537, 70000, 131072]
# templates whose cost is quadratic or that are pointless beyond a size
HUGE_CAP = {"tbc": 33000, "consts_spread": 4000, "locals_live": 1000, "upvalues": 1000, "params": 1000, "multi_assign": 1000, "multi_assign_call": 1000, "args": 70000,
            "rets": 70000, "tbc_nested": 1000, "long_number": 70000, "elseif": 3000}


def gen_sources(rng, tier):
    """-> list of (family, label, source bytes, expected or None)"""
    out = []
    nrand = 300 if tier == "quick" else 20000
    for i in range(nrand):
        n = 1 + rng.geometric(40, 400)
        k = rng.below(4)
        if k == 0:
            b = bytes(rng.below(256) for _ in range(n))
        elif k == 1:
            b = bytes(rng.choice(b" \n\t()[]{}=,.;:'\"\\-+*/<>~#%^&|0123456789abcdefxXpPeE_") for _ in range(n))
        elif k == 2:
            b = (" ".join(rng.choice(TOKENS) for _ in range(n))).encode()
        else:
            b = ("".join(rng.choice(TOKENS) for _ in range(n))).encode()
        out.append(("random", "r%d" % i, b, None))
    ncor = 300 if tier == "quick" else 20000
    for i in range(ncor):
        src = rng.choice(VALID)
        toks = re.findall(r"\s+|\w+|'[^']*'|\"[^\"]*\"|\[\[.*?\]\]|\.\.\.|\.\.|::|<<|>>|//|==|~=|<=|>=|.", src, re.S)
        j = rng.below(len(toks))
        k = rng.below(5)
        if k == 0:
            del toks[j]
        elif k == 1:
            toks[j] = rng.choice(TOKENS)
        elif k == 2:
            toks.insert(j, rng.choice(TOKENS))
        elif k == 3:
            toks[j] = toks[j][: len(toks[j]) // 2]
        else:
            jj = rng.below(len(toks))
            toks[j], toks[jj] = toks[jj], toks[j]
        s = "".join(toks).encode()
        if k == 3 and rng.chance(1, 2):
            s = s[: rng.below(len(s) + 1)]
        out.append(("corrupt", "c%d" % i, s, None))
    for v in VALID:
        out.append(("valid", "v", v.encode(), None))
    depths = [200, 3000] if tier == "quick" else [100, 1000, 10000, 100000, 1000000]
    for name, fn in NEST.items():
        for d in depths:
            if d > HUGE_CAP.get(name, 10 ** 9):
                continue
            src, exp = fn(d)
            out.append(("nest", "%s:%d" % (name, d), src.encode(), exp))
    if tier == "quick":
        for name, d in (("paren", 160000), ("neg", 160000), ("method", 10000), ("if", 20000), ("call", 150000)):
            src, exp = NEST[name](d)
            out.append(("nest", "%s:%d" % (name, d), src.encode(), exp))
    sizes = HUGE_SIZES_QUICK if tier == "quick" else HUGE_SIZES_THOROUGH
    for name, fn in HUGE.items():
        for n in sizes:
            if n > HUGE_CAP.get(name, 10 ** 9):
                continue
            src, exp = fn(n)
            out.append(("huge", "%s:%d" % (name, n), src.encode(), exp))
        if tier == "quick":
            for n in HUGE_BIG_QUICK.get(name, []):
                src, exp = fn(n)
                out.append(("huge", "%s:%d" % (name, n), src.encode(), exp))
    return out


# ----------------------------------------------------------------------------- exploration: library sweep
POOL_LABELS = ["nil", "true", "false", "0", "-0.0", "1", "-1", "2", "1.5", "minint", "maxint", "2^53", "inf", "-inf", "nan",
               "''", "'a'", "'10'", "'0x10'", "'%s%d%q'", "'%'", "'[a'", "'(()'", "long", "'a\\0b'", "'\\xff\\xfe'", "'s8'",
               "{}", "{1,2,3}", "tmeta", "tself", "fn", "co_susp", "co_dead", "co_run", "F", "'*a'", "3", "2^31", "-2^31", "'i16'", "255"]
SWEEP_LUA = r"""
local path, lo, hi = "%s", %d, %d
local unpack, srep = table.unpack, string.rep
local function resolve(p)
  if p:sub(1, 4) == "smt." then return getmetatable("")[p:sub(5)] end
  local v = package.loaded
  for part in p:gmatch("[^.]+") do v = v[part] if v == nil then return nil end end
  return v
end
local F = resolve(path)
if type(F) ~= "function" then return "nofunc" end
local function pool()
  local tmeta = setmetatable({}, {__index = function(t, k) return k end, __len = function() return 3 end,
     __call = function(self, ...) return ... end, __tostring = function() return "tm" end, __name = "X",
     __concat = function(a, b) return "c" end, __eq = function() return true end, __lt = function() return true end,
     __le = function() return false end, __close = function() end, __gc = function() end, __pairs = function(t) return next, {}, nil end,
     __add = function() return 1 end, __unm = function() return 2 end, __newindex = function() end, __mode = "k"})
  local tself = {} tself.self = tself setmetatable(tself, {__index = tself, __metatable = false})
  local co_susp = coroutine.create(function(...) coroutine.yield(...) return ... end) coroutine.resume(co_susp, 1)
  local co_dead = coroutine.create(function() end) coroutine.resume(co_dead)
  return {nil, true, false, 0, -0.0, 1, -1, 2, 1.5, math.mininteger, math.maxinteger, 2^53, math.huge, -math.huge, 0/0,
    "", "a", "10", "0x10", "%%s%%d%%q", "%%", "[a", "(()", srep("x", 1000), "a\0b", "\xff\xfe", "s8",
    {}, {1, 2, 3}, tmeta, tself, function(...) return ... end, co_susp, co_dead, (coroutine.running()), F, "*a", 3, 2^31, -2^31, "i16", 255}
end
local P = %d
local function tuple(idx)
  if idx == 0 then return 0 end
  if idx <= P then return 1, idx end
  idx = idx - P - 1
  if idx < P * P then return 2, idx // P + 1, idx %% P + 1 end
  idx = idx - P * P
  local a = (idx * 7919 + 13) %% P + 1
  local b = (idx * 104729 + 7) %% P + 1
  local c = (idx * 1299709 + 3) %% P + 1
  return 3, a, b, c
end
local count, killed = 0, 0
for idx = lo, hi do
  local n, a, b, c = tuple(idx)
  local p = pool()
  local args = {p[a], p[b], p[c]}
  local ctx = runtime.callcontext({kill = {cpu = 2000000, memory = 30000000}, flags = "iosafe"}, pcall, F, unpack(args, 1, n))
  count = count + 1
  if ctx.status ~= "done" then killed = killed + 1 end
end
return "done", count, killed
"""
# Second sweep: NO memory limit at all (only a CPU limit on the whole case), plain pcall.  Integer edge values are the
# "half-overflow" ones: each product n*#s fits int64 or is absurdly large, sums overflow; sizes that a machine could really try to
# allocate (2^31..2^53) are left out on purpose — without a memory limit a fatal out-of-memory is the embedder's choice, not a defect.
NL_LABELS = ["nil", "0", "1", "2", "3", "-1", "1<<62", "(1<<62)+1", "(1<<61)+1", "maxint", "maxint-1", "minint", "1.5", "huge",
             "''", "'x'", "'ab'", "'%d%s'", "{}", "{1,2,3}", "true"]
NL_FIRST = [14, 15, 16, 19, 2, 9]          # indexes (0-based) of the values used as FIRST argument of 3-argument calls
SWEEP_NL_LUA = r"""
local path, lo, hi = "%s", %d, %d
local unpack = table.unpack
local function resolve(p)
  if p:sub(1, 4) == "smt." then return getmetatable("")[p:sub(5)] end
  local v = package.loaded
  for part in p:gmatch("[^.]+") do v = v[part] if v == nil then return nil end end
  return v
end
local F = resolve(path)
if type(F) ~= "function" then return "nofunc" end
local function pool()
  return {nil, 0, 1, 2, 3, -1, 1 << 62, (1 << 62) + 1, (1 << 61) + 1, math.maxinteger, math.maxinteger - 1, math.mininteger, 1.5, math.huge,
          "", "x", "ab", "%%d%%s", {}, {1, 2, 3}, true}
end
local Q = %d
local first = {%s}
local function tuple(idx)
  if idx == 0 then return 0 end
  if idx <= Q then return 1, idx end
  idx = idx - Q - 1
  if idx < Q * Q then return 2, idx // Q + 1, idx %% Q + 1 end
  idx = idx - Q * Q
  return 3, first[idx // (Q * Q) + 1], (idx // Q) %% Q + 1, idx %% Q + 1
end
local count = 0
for idx = lo, hi do
  local n, a, b, c = tuple(idx)
  local p = pool()
  local args = {p[a], p[b], p[c]}
  pcall(F, unpack(args, 1, n))
  count = count + 1
end
return "done", count
"""


_NLV = {"''": 0, "'x'": 1, "'ab'": 2, "'y'": 1, "'yz'": 2, "'%d%s'": 4, "0": 0, "1": 1, "2": 2, "3": 3, "-1": -1, "1<<62": 1 << 62,
        "(1<<62)+1": (1 << 62) + 1, "(1<<61)+1": (1 << 61) + 1, "maxint": (1 << 63) - 1, "math.maxinteger": (1 << 63) - 1,
        "maxint-1": (1 << 63) - 2, "math.maxinteger-1": (1 << 63) - 2, "math.maxinteger//2+1": 1 << 62, "minint": -(1 << 63),
        "math.mininteger": -(1 << 63)}


def rep_size_is_plain_huge(args):
    """True iff string.rep(args) asks for a size that does NOT overflow int64 (each product and the sum) but is far beyond what can be
    allocated: the input class of the recorded finding C04-rep-makeslice-no-memory-limit."""
    if len(args) < 2 or any(a not in _NLV for a in args[:3]):
        return False
    ls, n = _NLV[args[0]], _NLV[args[1]]
    lsep = _NLV[args[2]] if len(args) > 2 else 0
    if not args[0].startswith("'") or (len(args) > 2 and not args[2].startswith("'")) or n <= 0:
        return False
    sz1, sz2 = n * ls, (n - 1) * lsep
    return sz1 < (1 << 63) and sz2 < (1 << 63) and (1 << 40) <= sz1 + sz2 < (1 << 63)


def nl_labels(idx):
    Q = len(NL_LABELS)
    if idx == 0:
        return []
    if idx <= Q:
        return [NL_LABELS[idx - 1]]
    idx -= Q + 1
    if idx < Q * Q:
        return [NL_LABELS[idx // Q], NL_LABELS[idx % Q]]
    idx -= Q * Q
    return [NL_LABELS[NL_FIRST[idx // (Q * Q)]], NL_LABELS[(idx // Q) % Q], NL_LABELS[idx % Q]]


# goto / label family: statement sequences inside every kind of block, compiled (never run) inside a function literal
GL_ITEMS = ["::a::", "::b::", "local x = 1", "local y <const> = 2", "goto a", "goto b", ";", "x = 1", "do ::a:: end", "do goto a end",
            "do local z ::a:: end", "break", "goto continue", "::continue::"]
GL_BLOCKS = [
    ("chunk", "%s"), ("do", "do %s end"), ("while", "while x do %s end"), ("repeat", "repeat %s until x"),
    ("fornum", "for i = 1, 2 do %s end"), ("forin", "for k, v in pairs(t) do %s end"), ("if", "if x then %s end"),
    ("else", "if x then else %s end"), ("function", "local function f() %s end"), ("nested", "do do %s end end"),
    ("outer-label-before", "::a:: do %s end"), ("outer-label-after", "do %s end ::a::"),
    ("loop-continue", "while x do local q = 1 %s ::continue:: end"),
]


def gen_gotos(rng, tier):
    import itertools
    out = []
    n = len(GL_ITEMS)
    maxlen = 3 if tier == "quick" else 4
    seqs = []
    for L in range(1, maxlen + 1):
        if L <= 2 or tier != "quick":
            seqs += list(itertools.product(range(n), repeat=L))
        else:
            # quick: all triples over the 9 core items + a random sample of the rest
            core = [0, 1, 2, 4, 6, 7, 8, 10, 11]
            seqs += list(itertools.product(core, repeat=3))
            seqs += [tuple(rng.below(n) for _ in range(3)) for _ in range(300)]
            seqs += [tuple(rng.below(n) for _ in range(rng.below(3) + 4)) for _ in range(300)]
    for (bname, btpl) in GL_BLOCKS:
        for sq in seqs:
            body = " ".join(GL_ITEMS[i] for i in sq)
            out.append((bname, "local x, t return function() " + (btpl % body) + " end"))
            if len(sq) <= (1 if tier == "quick" else 2):
                out.append((bname + "+return", "local x, t return function() " + (btpl % (body + " return 1")) + " end"))
    return out


SWEEP_SKIP = re.compile(r"^(os\.exit|os\.execute|os\.remove|os\.rename|os\.tmpname|os\.setlocale|io\..*|_G\.print|print|dofile|_G\.dofile|"
                        r"loadfile|_G\.loadfile|require|_G\.require|package\..*|debug\.debug|golib\..*|runtime\.callcontext|runtime\.stopcontext|"
                        r"runtime\.killcontext|_G\.collectgarbage|collectgarbage|debug\.sethook)$")
LIST_LUA = r"""
local names = {}
for lib, t in pairs(package.loaded) do
  if type(t) == "table" then
    for k, v in pairs(t) do
      if type(v) == "function" and type(k) == "string" then names[#names + 1] = lib .. "." .. k end
    end
  end
end
for k, v in pairs(getmetatable("")) do if type(v) == "function" then names[#names + 1] = "smt." .. k end end
table.sort(names)
return table.concat(names, " ")
"""


# ----------------------------------------------------------------------------- exploration: recursion
RECURSION = [
    # (label, family, source, acceptable statuses)
    ("call_self", "meta", "local t = {} setmetatable(t, {__call = t}) return pcall(t)"),
    ("call_chain_90", "meta-bounded", "local f = function(...) return select('#', ...) end for i = 1, 90 do f = setmetatable({}, {__call = f}) end return f(1, 2)"),
    ("call_chain_5000", "meta", "local f = function() return 7 end for i = 1, 5000 do f = setmetatable({}, {__call = f}) end return pcall(f)"),
    ("call_self_vm", "meta", "local t = {} setmetatable(t, {__call = t}) return pcall(function() return t() end)"),
    ("index_self", "meta-bounded", "local t = {} setmetatable(t, {__index = t}) return pcall(function() return t.x end)"),
    ("newindex_self", "meta-bounded", "local t = {} setmetatable(t, {__newindex = t}) return pcall(function() t.x = 1 end)"),
    ("index_chain_1000", "meta-bounded", "local t = {x = 1} for i = 1, 1000 do t = setmetatable({}, {__index = t}) end return pcall(function() return t.x end)"),
    ("index_fn_rec", "meta", "local t = {} setmetatable(t, {__index = function(t, k) return t[k] end}) return pcall(function() return t.x end)"),
    ("newindex_fn_rec", "meta", "local t = {} setmetatable(t, {__newindex = function(t, k, v) t[k] = v end}) return pcall(function() t.x = 1 end)"),
    ("concat_rec", "meta", "local t = setmetatable({}, {__concat = function(a, b) return a .. b end}) return pcall(function() return t .. t end)"),
    ("eq_rec", "meta", "local mt = {} mt.__eq = function(a, b) return a == b end local a, b = setmetatable({}, mt), setmetatable({}, mt) return pcall(function() return a == b end)"),
    ("lt_rec", "meta", "local mt = {} mt.__lt = function(a, b) return a < b end local a, b = setmetatable({}, mt), setmetatable({}, mt) return pcall(function() return a < b end)"),
    ("len_rec", "meta", "local t = setmetatable({}, {__len = function(a) return #a end}) return pcall(function() return #t end)"),
    ("add_rec", "meta", "local t = setmetatable({}, {__add = function(a, b) return a + b end}) return pcall(function() return t + 1 end)"),
    ("unm_rec", "meta", "local t = setmetatable({}, {__unm = function(a) return -a end}) return pcall(function() return -t end)"),
    ("close_rec", "meta", "local function f() local x <close> = setmetatable({}, {__close = function() f() end}) end return pcall(f)"),
    ("tostring_rec", "go-bounded", "local t = setmetatable({}, {__tostring = function(a) return tostring(a) end}) return pcall(tostring, t)"),
    ("pcall_nest", "go-bounded", "local function f(n) return pcall(f, n + 1) end return (f(1))"),
    ("xpcall_handler_rec", "go-bounded", "local function h(e) error(e) end return xpcall(error, h, 'x')"),
    ("sort_cmp_rec", "go-bounded", "local function f() table.sort({3, 2, 1}, f) end return pcall(f)"),
    ("gsub_rec", "go-bounded", "local function f() return (string.gsub('a', 'a', f)) end return pcall(f)"),
    ("load_rec", "go-bounded", "local src = 'return load(src)()' src = 'local src = ... return pcall(load(src), src)' return pcall(load(src), src)"),
    ("lua_rec", "lua", "local function f(n) return 1 + f(n + 1) end return pcall(f, 1)"),
    ("lua_tail_rec", "lua", "local function f(n) if n == 0 then return 5 end return f(n - 1) end return f(3000000)"),
    ("co_nest", "lua", "local function f() local c = coroutine.wrap(f) return c() end return pcall(f)"),
    ("co_many", "lua", "local t = {} for i = 1, 1000000 do t[i] = coroutine.create(print) end return #t"),
    ("rep_huge", "mem", "return pcall(string.rep, 'x', 1 << 40)"),
    ("rep_sep_huge", "mem", "return pcall(string.rep, 'x', 1 << 40, 'yy')"),
    ("concat_explode", "mem", "local s = 'x' for i = 1, 64 do s = s .. s end return #s"),
    ("table_concat_explode", "mem", "local t = {} for i = 1, 100 do t[i] = ('x'):rep(1 << 20) end local s = table.concat(t) return #(s:rep(1 << 20))"),
    ("format_width", "mem", "return pcall(string.format, '%99999999d', 1)"),
    ("unpack_huge", "mem", "return pcall(table.unpack, {}, 1, 1 << 40)"),
    ("tbl_grow", "mem", "local t = {} for i = 1, 1 << 40 do t[i] = i end"),
    ("char_many", "mem", "return pcall(string.char, table.unpack(setmetatable({}, {__index = function() return 65 end}), 1, 1 << 24))"),
    ("select_neg", "go-bounded", "return pcall(select, math.mininteger, 1)"),
    ("empty_long_string", "note-C12", "return #[[]]"),
    ("unpack_s8", "note-C17", "return pcall(string.unpack, 's8', '\\xff\\xff\\xff\\xff\\xff\\xff\\xff\\x7f')"),
    ("gsub_anchor_rep", "go-bounded", "return pcall(string.rep, ('x'):rep(100), 1 << 30)"),
]


# ----------------------------------------------------------------------------- exploration: unbounded call-depth growth (no limits)
GROWTH = [
    ("nontail", "local function f() return f() + 1 end return (pcall(f))"),
    ("nontail-unprotected", "local function f() return f() + 1 end return f()"),
    ("mutual", "local a, b function a() return b() + 1 end function b() return a() + 1 end return (pcall(a))"),
    ("in-msgh", "return (xpcall(error, function() local function g() return g() + 1 end return g() end))"),
    ("in-metamethod", "local function f() return f() + 1 end local t = setmetatable({}, {__index = function() return f() end}) return (pcall(function() return t.x end))"),
    ("through-metamethod", "local t t = setmetatable({}, {__add = function(a, b) local function g() return g() + 1 end return g() end}) return (pcall(function() return t + 1 end))"),
    ("in-pcall-chain", "local function f() local ok, v = pcall(f) return 1 + (v or 0) + f() end return (pcall(f))"),
    ("in-coroutine", "local function f() return f() + 1 end return coroutine.resume(coroutine.create(f))"),
    ("wrap-recursion", "local function c() return coroutine.wrap(c)() end return (pcall(c))"),
    ("resume-recursion", "local function r() local ok, e = coroutine.resume(coroutine.create(r)) if not ok then error(e, 0) end return e end return (pcall(r))"),
    ("data-driven", "local t = {} for i = 1, 1000000 do t = {t} end local function d(t) if t[1] then return 1 + d(t[1]) end return 0 end return (pcall(d, t))"),
    ("vararg-nontail", "local function f(...) return 1 + f(1, ...) end return (pcall(f))"),
    ("method-recursion", "local o = {} function o:m() return self:m() .. 'x' end return (pcall(o.m, o))"),
    ("iterator-recursion", "local function f() for _ in function() return f() end do end end return (pcall(f))"),
    ("legit-depth-150000", "local function ok(n) if n == 0 then return 0 end return 1 + ok(n - 1) end return ok(150000)"),
    ("legit-tail-1e6", "local function t(n) if n == 0 then return 'done' end return t(n - 1) end return t(1000000)"),
    # a long-lived frame that keeps receiving multiple results is not deep (regression of the depth limit: received
    # vararg values were counted and never uncounted, so this ended in a spurious 'stack overflow')
    ("legit-loop-collecting-results", "local function id(...) return ... end local n = 0 for i = 1, 2200000 do local t = {id(i, i)} n = n + #t end return n"),
    ("legit-loop-vararg-calls", "local function f() return 1, 2, 3 end local function g(...) return select('#', ...) end local n = 0 for i = 1, 1000000 do n = n + g(f()) end return n"),
]

# Runaway recursion whose handlers are CALLABLE VALUES (a table with __call, or a table whose __call is again such a table) instead
# of functions: metamethods of every kind, comparators, gsub callbacks, iterators, pcall targets.  No limits; each must end in an
# ordinary error ("stack overflow" / "chain too long"), never in a fatal Go stack overflow.
CALLABLE_KINDS = {
    # kind: (binding of the LAST arguments, body of the handler, metatable field or None, initial trigger)
    "add": ("local a, b = A[n-1], A[n]", "return a + b", "__add", "return x + y"),
    "sub": ("local a, b = A[n-1], A[n]", "return a - b", "__sub", "return x - 1"),
    "concat": ("local a, b = A[n-1], A[n]", "return a .. b", "__concat", "return x .. y"),
    "eq": ("local a, b = A[n-1], A[n]", "return a == b", "__eq", "return x == y"),
    "lt": ("local a, b = A[n-1], A[n]", "return a < b", "__lt", "return x < y"),
    "le": ("local a, b = A[n-1], A[n]", "return a <= b", "__le", "return x <= y"),
    "len": ("local a = A[n]", "return #a", "__len", "return #x"),
    "unm": ("local a = A[n]", "return -a", "__unm", "return -x"),
    "bnot": ("local a = A[n]", "return ~a", "__bnot", "return ~x"),
    "index": ("local t, k = A[n-1], A[n]", "return t[k]", "__index", "return x.k"),
    "newindex": ("local t, k, v = A[n-2], A[n-1], A[n]", "t[k] = v", "__newindex", "x.k = 1"),
    "call": ("local t = A[n]", "return 1 + t()", "__call", "return x()"),
    "close": ("", "return F()", None, "return F()"),
    "tostring": ("local a = A[n]", "return tostring(a)", "__tostring", "return tostring(x)"),
    "sort": ("", "table.sort({3, 2, 1}, C) return true", None, "table.sort({3, 2, 1}, C)"),
    "gsub": ("", "return (string.gsub('a', '.', C))", None, "return (string.gsub('a', '.', C))"),
    "iter": ("", "for _ in C do end", None, "for _ in C do end"),
    "pcall": ("", "return select(2, pcall(C)) .. 'x'", None, "return C()"),
    "index-chain": ("local t, k = A[n-1], A[n]", "return t[k]", "__index", "return z.k"),
}


def callable_programs():
    out = []
    for kind, (bind, body, field, trig) in CALLABLE_KINDS.items():
        for level in (1, 2):
            src = "local C, F local H = function(...) local A = {...} local n = #A %s %s end " % (bind, body)
            src += "C = setmetatable({}, {__call = H}) "
            if level == 2:
                src += "C = setmetatable({}, {__call = C}) "
            src += "local mt = {%s} " % (("%s = C" % field) if field else "")
            src += "local x, y = setmetatable({}, mt), setmetatable({}, mt) local z = setmetatable({}, {__index = setmetatable({}, {__index = x})}) "
            src += "F = function() local v <close> = setmetatable({}, {__close = C}) end "
            src += "return (pcall(function() %s end))" % trig
            out.append(("callable-%s-%d" % (kind, level), src))
    return out


# ----------------------------------------------------------------------------- exploration: coroutine life-cycle abuse
# program = CTX (where the action runs: body / __close handler(s) / __gc / message handler / nested pcall with pending close)
#         x VIA (how the action is reached: directly or through a metamethod, iterator, sort comparator, gsub callback, load reader,
#                inner coroutine.wrap; or instead of yielding: close/resume the coroutine itself, close the running coroutine)
#         x ACT (yield under pcall / bare yield / raise an error)
#         x END (how coroutine A finishes) x RES (who resumes A and what happens to the resumer) ; then A is resumed 4 more times from
# main and closed.  Only C04's predicate is asserted: the process survives and the script ends ok / error / killed.
CO_ACT = {"pyield": "pcall(coroutine.yield, 'y')", "yield": "coroutine.yield('y')", "error": "error('act')",
          "yield2": "coroutine.yield(coroutine.yield('y1'))"}
CO_VIA = {
    "direct": "ACT",
    "index": "local _ = setmetatable({}, {__index = function() return ACT end}).k",
    "newindex": "setmetatable({}, {__newindex = function() ACT end}).k = 1",
    "add": "local _ = setmetatable({}, {__add = function() return ACT end}) + 1",
    "concat": "local _ = setmetatable({}, {__concat = function() return ACT end}) .. 'x'",
    "eq": "local mt = {__eq = function() return ACT end} local _ = setmetatable({}, mt) == setmetatable({}, mt)",
    "lt": "local mt = {__lt = function() return ACT end} local _ = setmetatable({}, mt) < setmetatable({}, mt)",
    "len": "local _ = #setmetatable({}, {__len = function() return ACT end})",
    "call": "setmetatable({}, {__call = function() return ACT end})()",
    "tostring": "tostring(setmetatable({}, {__tostring = function() ACT return 'x' end}))",
    "iter": "for _ in function() ACT return nil end do end",
    "pairs": "for _ in pairs(setmetatable({}, {__pairs = function(t) ACT return next, t, nil end})) do end",
    "sort": "table.sort({3, 2, 1}, function(a, b) ACT return a < b end)",
    "gsub": "string.gsub('ab', '.', function(c) ACT return c end)",
    "load": "load(function() ACT return nil end)",
    "wrapinner": "coroutine.wrap(function() ACT end)()",
    "closeself": "coroutine.close(A)",
    "closerunning": "coroutine.close(coroutine.running())",
    "resumeself": "coroutine.resume(A)",
    "resumerunning": "coroutine.resume(coroutine.running())",
    "wrapreenter": "local w w = coroutine.wrap(function() w() ACT end) w()",
    "statusabuse": "coroutine.isyieldable() local _ = coroutine.status(A) ACT",
}
CO_CTX = {
    "body": "V()",
    "close": "local x <close> = setmetatable({}, {__close = function() V() end})",
    "close2": "local x <close> = setmetatable({}, {__close = function() V() end}) local y <close> = setmetatable({}, {__close = function() V() error('h') end})",
    "gc": "setmetatable({}, {__gc = function() V() end}) pcall(collectgarbage) pcall(collectgarbage)",
    "msgh": "xpcall(function() error('m') end, function(e) V() return e end)",
    "pcallclose": "pcall(function() local x <close> = setmetatable({}, {__close = function() V() end}) error('in') end)",
    "nestedco": "local I = coroutine.create(function() local x <close> = setmetatable({}, {__close = function() V() end}) error('inner') end) coroutine.resume(I) coroutine.resume(I)",
}
CO_END = {"return": "return 1", "error": "error('boom')", "yielderror": "coroutine.yield('mid') error('late')",
          "errobj": "error(setmetatable({}, {__tostring = function() return 'eo' end}))"}
CO_RES = {
    "main": "pcall(R, A)",
    "Bdies": "local B = coroutine.create(function() return R(A) end) pcall(coroutine.resume, B)",
    "Berrors": "local B = coroutine.create(function() R(A) error('b') end) pcall(coroutine.resume, B)",
    "Bwrap": "pcall(coroutine.wrap(function() return R(A) end))",
    "Byields": "local B = coroutine.create(function() R(A) coroutine.yield('b') R(A) end) pcall(coroutine.resume, B) pcall(R, A) pcall(coroutine.resume, B)",
    "chain": "local B = coroutine.create(function() return R(A) end) local C = coroutine.create(function() return coroutine.resume(B) end) pcall(coroutine.resume, C)",
    "Bcloses": "local B = coroutine.create(function() R(A) return coroutine.close(A) end) pcall(coroutine.resume, B)",
    "normalclose": "local B = coroutine.create(function() return coroutine.close(A), coroutine.resume(A) end) A = coroutine.create(function() coroutine.resume(B) BODY end) pcall(R, A)",
}


def co_program(ctx, via, act, end, res, wrap=False):
    v = CO_VIA[via].replace("ACT", CO_ACT[act])
    body = "local function V() %s end %s %s" % (v, CO_CTX[ctx], CO_END[end])
    r = CO_RES[res].replace("BODY", body)
    src = ("local A local R = coroutine.resume "
           "A = coroutine.create(function() %s end) " % body)
    if wrap:
        src = ("local A, W local function R(co) return W() end "
               "W = coroutine.wrap(function() A = coroutine.running() %s end) " % body)
    src += r + " for i = 1, 4 do pcall(R, A) end pcall(coroutine.close, A) pcall(collectgarbage) return 'alive'"
    return src


def gen_coroutines(rng, tier):
    out = []
    seen = set()

    def add(ctx, via, act, end, res, wrap):
        key = (ctx, via, act, end, res, wrap)
        if key in seen or (wrap and res == "normalclose"):
            return
        seen.add(key)
        out.append(("%s/%s/%s/%s/%s%s" % (ctx, via, act, end, res, "/wrap" if wrap else ""), co_program(*key)))
    import itertools
    # always: every ctx x act x end x res with the direct action and with the self-referential coroutine calls
    for ctx, act, end, res in itertools.product(CO_CTX, CO_ACT, CO_END, CO_RES):
        add(ctx, "direct", act, end, res, False)
    for ctx, via, end, res in itertools.product(CO_CTX, ("closeself", "closerunning", "resumeself", "resumerunning", "wrapreenter"), CO_END, CO_RES):
        add(ctx, via, "pyield", end, res, False)
    # every via at least once per ctx
    for ctx, via in itertools.product(CO_CTX, CO_VIA):
        add(ctx, via, "pyield", "error", "Bdies", False)
        add(ctx, via, "yield", "return", "main", False)
    allk = list(itertools.product(CO_CTX, CO_VIA, CO_ACT, CO_END, CO_RES, (False, True)))
    if tier == "quick":
        for _ in range(500):
            add(*allk[rng.below(len(allk))])
    else:
        for k in allk:
            add(*k)
    return out


# Explicit panic( sites of /repo/runtime/*.go (file, text after "panic(") -> (class, the program family aiming at it).
# Re-grepped on every run; a site missing from this table is written to evidence as UNCOVERED.
PANIC_SITES = {
    ("gofunction.go", '"Invalid safety flags")'): ("go-api-only", "SolemnlyDeclareCompliance is not reachable from Lua"),
    ("loadunit.go", '"Unsupported constant type")'): ("compiler-output-only", "static check of every compiled unit (constants are produced by ircomp only)"),
    ("luacont.go", '"Closure not ready")'): ("ill-formed-bytecode-only", "check_code on every compiled unit; binary chunks are outside C04's statement (text chunks), owned by C13"),
    ("luacont.go", '"unsupported")'): ("ill-formed-bytecode-only", "check_code (a_supported) on every compiled unit; enc correspondence of every opcode type"),
    ("luacont.go", '"Unsupported opcode")'): ("ill-formed-bytecode-only", "check_code (a_supported) on every compiled unit"),
    ("luacont.go", '"should be a cell")'): ("ill-formed-bytecode-only", "check_code (a_cellonly) on every compiled unit"),
    ("marshal.go", "budgetConsumed)"): ("internal-recovered", "recovered inside marshal.go (C13); library sweep calls string.dump/load under limits"),
    ("runtime.go", "r)"): ("re-panic", "Runtime.Close re-panics a foreign panic: every gopanic family"),
    ("runtimecontextmanager.go", "ContextTerminationError{"): ("termination", "recovered by CallContext: explosion templates (rec:mem, rec:lua), killed outcomes of every stream"),
    ("runtimecontextmanager_noquotas.go", "ContextTerminationError{"): ("termination", "noquotas build only"),
    ("thread.go", "r)"): ("re-panic", "coroutine goroutine / CallContext re-panic a foreign panic: coroutine family (a Go panic inside a coroutine kills the process)"),
    ("thread.go", '"Caller of thread to resume is not running")'): ("coroutine-protocol", "coroutine family: resumeself/resumerunning/gc/close ctx, resumer shapes"),
    ("thread.go", '"Caller of thread to close is not running")'): ("coroutine-protocol", "coroutine family: closeself/closerunning/Bcloses/normalclose, gc ctx"),
    ("thread.go", '"Thread to yield is not running")'): ("coroutine-protocol", "coroutine family: yields from gc/close/msgh ctx, wrapinner"),
    ("thread.go", '"Caller of thread to yield is not OK")'): ("coroutine-protocol", "coroutine family: yields after the resumer died (Bdies/Berrors/chain)"),
    ("thread.go", '"Called Thread.end on a non-running thread")'): ("coroutine-protocol", "coroutine family: closeself/closerunning from handlers while ending"),
    ("thread.go", '"Caller thread of ending thread is not OK")'): ("coroutine-protocol", "coroutine family: close ctx x yield x end=error x Bdies/Berrors/chain (resumer died while the coroutine was ending)"),
    ("thread.go", "res.exception)"): ("termination", "forwarding of a termination from a coroutine to its resumer: kill templates inside coroutines (co_nest, co_many)"),
    ("value.go", '"value is not a continuation")'): ("ill-formed-bytecode-only", "check_code on every compiled unit (register typing itself is not modelled)"),
    ("value.go", '"value is not a Callable")'): ("ill-formed-bytecode-only", "AsCallable is used after TryCallable checks; check_code on every compiled unit"),
}


def panic_inventory(ck):
    rows, unc = [], 0
    d = os.path.join(vlib.REPO, "runtime")
    for fn in sorted(os.listdir(d)):
        if not fn.endswith(".go") or fn.endswith("_test.go") or fn.startswith("verif_"):
            continue
        for ln, line in enumerate(open(os.path.join(d, fn), errors="replace"), 1):
            m = re.search(r"\bpanic\((.*)$", line.strip())
            if not m or line.strip().startswith("//"):
                continue
            key = (fn, m.group(1).strip())
            cls, fam = PANIC_SITES.get(key, ("UNCOVERED", "no family aims at this site yet"))
            if cls == "UNCOVERED":
                unc += 1
                ck.log("UNCOVERED panic site: runtime/%s:%d panic(%s" % (fn, ln, m.group(1).strip()))
            rows.append({"site": "runtime/%s:%d" % (fn, ln), "panic": m.group(1).strip()[:80], "class": cls, "aimed_at_by": fam})
    ck.cov["panic_sites"] = rows
    ck.cov["panic_sites_uncovered"] = unc
    ck.count("panic-sites", len(rows))
    ck.count("panic-sites-uncovered", unc)


# ----------------------------------------------------------------------------- running Lua cases
class LuaRunner:
    def __init__(self, ck, binary):
        self.ck = ck
        self.bin = binary

    def run(self, lines, timeout, maxstack=None, mem_kb=6 * 1024 * 1024, batch=1500):
        env = {"GVH_MAXSTACK": str(maxstack)} if maxstack else {}
        # a fresh child every 1500 cases: the harness process keeps ~50 kB per finished runtime, which over tens of
        # thousands of cases looked like an out-of-memory crash of an innocent case (false alarm of the thorough tier)
        out = []
        for i in range(0, len(lines), batch):
            out += vlib.run_lines_resilient(self.bin, ["lua"], lines[i:i + batch], per_case_timeout=timeout, env=env, mem_kb=mem_kb)
        return out


def parse_lua(out):
    f = out.split(" ")
    st = f[1] if len(f) > 1 else "?"
    d = {"status": st, "raw": out[:600]}
    if st == "CRASH":
        d["msg"] = unhex(f[3]) if len(f) > 3 else ""
    elif st == "HANG":
        d["msg"] = ""
    else:
        for tok in f[2:]:
            if tok.startswith("R:"):
                d["ret"] = tok[2:]
            elif tok.startswith("E:"):
                d["msg"] = unhex(tok[2:])
    return d


LIMIT_PANICS = ("Fill table index out of range", "Etc lookup index out of range", "constant index out of range",
                "close stack height out of range")
NEG_INDEX = re.compile(r"^runtime error: index out of range \[-\d+\]$")


def classify_known(ck, fam, label, res, nbytes):
    """Returns a known-finding entry if this bad outcome is a recorded defect, narrowly matched."""
    st, msg = res["status"], res.get("msg", "")

    def pick(kid):
        return ck.known_match(lambda k: k["id"] == kid)
    if st == "gopanic" and msg in LIMIT_PANICS and fam in ("huge", "corpus"):
        return pick("C04-limit-string-panic")
    if st == "gopanic" and NEG_INDEX.match(msg) and fam in ("huge", "nest", "corpus") and nbytes > 32767:
        return pick("C04-int16-code-offsets")      # nbytes = opcodes of the longest function (gvh-limits codelen)
    if fam == "wrong-int16" and nbytes > 32767:
        return pick("C04-int16-code-offsets")
    if fam in ("meta", "corpus-meta") and (st == "HANG" or (st == "CRASH" and ("stack overflow" in msg or "stack exceeds" in msg or "out of memory" in msg or "pthread_create" in msg))):
        return pick("C04-metamethod-go-recursion")
    if fam in ("nest", "corpus-nest") and st == "CRASH" and ("stack overflow" in msg or "stack exceeds" in msg):
        m = re.search(r":(\d+)$", label)
        if m and int(m.group(1)) >= 100000 and label.split(":")[0] in ("concat", "call", "method", "dot", "index", "binop", "and"):
            return pick("C04-ast-chain-go-recursion")
        if m and int(m.group(1)) >= 100000:
            return pick("C04-parser-go-recursion")
    return None


def run(tier, seed):
    ck = vlib.Check("C04", tier, seed, level="proof")
    ok_obl = ck.obligations(PROP, clean=False)
    ov = os.environ.get("C04_OVERLAY") or os.environ.get("VERIF_OVERLAY")   # mutation experiments only: go build -overlay <json>
    gvh, err = ck.build_gvh(pkg="./cmd/gvh-limits", name="gvh_limits" + ("_mut" if ov else ""), overlay=ov)
    if gvh is None:
        ck.violation("harness does not build against /repo", {"kind": "build", "stderr": err[-3000:]}, no_input=True)
        return ck.finish("n/a", TRUSTED, [])
    oracle = ck.build_oracle("limits")
    if oracle is None:
        ck.violation("oracle (extracted model) does not build", {"kind": "build"}, no_input=True)
        return ck.finish("n/a", TRUSTED, [])
    stale = []      # Go != IM differences that are not property failures

    # ------------------------------------------------------------ 1. encoders / decoders
    enc = gen_enc(ck.rng, tier)
    lines = ["e%d %s %s" % (i, c[0], " ".join(hx(v) for v in c[1:])) for i, c in enumerate(enc)]
    rc1, impl, e1 = vlib.run_lines(gvh, ["enc"], lines, timeout=900)
    rc2, model, e2 = vlib.run_lines(oracle, ["enc"], lines, timeout=900)
    if rc1 != 0 or len(impl) != len(lines):
        ck.violation("gvh-limits enc crashed (%d/%d lines)" % (len(impl), len(lines)),
                     {"kind": "crash", "stderr": e1[-2000:], "last_line": lines[min(len(impl), len(lines) - 1)]})
    if rc2 != 0 or len(model) != len(lines):
        ck.violation("oracle enc crashed (%d/%d)" % (len(model), len(lines)), {"kind": "oracle-crash", "stderr": e2[-2000:]}, no_input=True)
    nspec = 0
    for i, c in enumerate(enc):
        if i >= len(impl):
            break
        ck.case(lines[i].split(" ", 1)[1], True)
        ck.count("enc:" + c[0])
        if impl[i].endswith(" none") or c[0] == "lsi":
            n = c[3]
            inl = not impl[i].endswith(" none")
            if inl != (-32768 <= n <= 32767):
                ck.violation("LoadSmallInt inlines %d: %s" % (n, inl), {"kind": "Go!=S", "engine": "enc", "case": lines[i], "impl": impl[i]})
            elif inl and parse_dec(impl[i])["off"] != n:
                ck.violation("LoadSmallInt literal reads back wrong", {"kind": "Go!=S", "engine": "enc", "case": lines[i], "impl": impl[i]})
        else:
            bad = check_enc_spec(c, parse_dec(impl[i]))
            if bad:
                nspec += 1
                if nspec <= 3:
                    ck.violation("opcode field does not read back as written: " + bad[0],
                                 {"kind": "Go!=S", "engine": "enc", "case": lines[i], "impl": impl[i], "failed": bad,
                                  "theorems": ["C04_encode_decode_roundtrip"]})
        if i < len(model) and impl[i] != model[i]:
            stale.append(("enc", lines[i], impl[i], model[i]))
    ck.sample({"enc_case": lines[5], "impl": impl[5] if len(impl) > 5 else None})

    # ------------------------------------------------------------ 2. limits through the real ircomp
    ck.log("enc done: %d cases" % len(enc))
    lim = gen_lim(ck.rng, tier)
    llines = ["l%d %s" % (i, lim_line(c)) for i, c in enumerate(lim)]
    limpl = vlib.run_lines_resilient(gvh, ["lim"], llines, per_case_timeout=120)
    rc2, lmodel, e2 = vlib.run_lines(oracle, ["lim"], llines, timeout=1800)
    if rc2 != 0 or len(lmodel) != len(llines):
        ck.violation("oracle lim crashed (%d/%d)" % (len(lmodel), len(llines)), {"kind": "oracle-crash", "stderr": e2[-2000:]}, no_input=True)
    for i, c in enumerate(lim):
        if i >= len(limpl):
            break
        out = limpl[i]
        cls = out.split()[1] if len(out.split()) > 1 else "?"
        ck.case(llines[i].split(" ", 1)[1][:4000], True)
        ck.count("lim:%s:%s" % (c[0], cls))
        inr = lim_in_range(c)
        short = llines[i][:300]
        if cls in ("CRASH", "HANG"):
            ck.violation("compiler limit request killed the process: " + short, {"kind": "crash", "engine": "lim", "case": short, "impl": out[:2000]})
            continue
        if c[0] == "ra":
            if cls == "P":
                ck.violation("register allocator panics with a non-compile error", {"kind": "Go!=S", "engine": "lim", "case": llines[i][:4000], "impl": out})
            elif cls == "E":
                ws = [int(x, 16) for x in out.split()[2].split(",")] if out.split()[2] != "" else []
                if any(spec_decode(w)["a"][1] >= 255 for w in ws) and ck.cov["distribution"].get("viol:ra255", 0) < 2:
                    ck.count("viol:ra255")
                    ck.violation("register index 255 handed out", {"kind": "Go!=S", "engine": "lim", "case": llines[i][:4000], "impl": out})
        elif inr:
            if not lim_spec_ok(c, out):
                ck.violation("in-range request not encoded exactly: " + short,
                             {"kind": "Go!=S", "engine": "lim", "case": short, "impl": out[:500], "theorems": ["C04_limit_in_range_encodes"]})
        else:
            if cls == "C":
                pass   # what the property asks for (the model says otherwise today -> reported below as stale)
            elif cls == "P":
                k = ck.known_match(lambda k: k["id"] == "C04-limit-string-panic" and c[0] in k["match"]["lim_kinds"])
                if k:
                    ck.known_finding(k)
                elif ck.cov["distribution"].get("viol:limP:" + c[0], 0) < 2:
                    ck.count("viol:limP:" + c[0])
                    ck.violation("exceeding a compiler limit panics instead of a compile error: " + short,
                                 {"kind": "Go!=S", "engine": "lim", "case": short, "impl": out[:300]})
            elif cls == "T":
                k = ck.known_match(lambda k: k["id"] == "C04-int16-code-offsets" and c[0] in k["match"]["lim_kinds"])
                if k:
                    ck.known_finding(k)
                elif ck.cov["distribution"].get("viol:limT", 0) < 2:
                    ck.count("viol:limT")
                    ck.violation("jump distance beyond int16 silently truncated: " + short,
                                 {"kind": "Go!=S", "engine": "lim", "case": short, "impl": out[:300]})
            else:
                ck.violation("out-of-range request accepted: " + short, {"kind": "Go!=S", "engine": "lim", "case": short, "impl": out[:300]})
        if i < len(lmodel) and out != lmodel[i]:
            stale.append(("lim", llines[i][:2000], out[:2000], lmodel[i][:2000]))
    ck.sample({"lim_case": llines[3], "impl": limpl[3] if len(limpl) > 3 else None})

    # ------------------------------------------------------------ 2b. parser nesting limit: real parser vs the skeleton model
    PD = {"paren": lambda n: "return " + "(" * n + "1" + ")" * n, "neg": lambda n: "return " + "- " * n + "1",
          "pow": lambda n: "return " + "1^" * n + "1", "tbl": lambda n: "return " + "{" * n + "}" * n,
          "fn": lambda n: "return " + "function() return " * n + "1" + " end" * n, "do": lambda n: "do " * n + "end " * n,
          "binop": lambda n: "return " + "1+" * n + "1"}
    pdc = [(k, n) for k in PD for n in ([1, 2, 50, 100, 150] + list(range(190, 206)) + [250, 1000])]
    pl = ["p%d %s %d" % (i, k, n) for i, (k, n) in enumerate(pdc)]
    rc2, pm, e2 = vlib.run_lines(oracle, ["pd"], pl, timeout=600)
    rcg, pg, eg = vlib.run_lines(gvh, ["codelen"], ["p%d %s" % (i, lua_hex(PD[k](n))) for i, (k, n) in enumerate(pdc)], timeout=600)
    for i, (k, n) in enumerate(pdc):
        if i >= len(pm) or i >= len(pg):
            ck.violation("parser-depth engines crashed", {"kind": "crash", "stderr": (e2 + eg)[-1000:]}, no_input=True)
            break
        ck.case(pl[i], True)
        go_ok = pg[i].split()[1] not in ("err", "panic")
        mo_ok = pm[i].split()[1] == "ok"
        ck.count("pd:%s:%s" % (k, "ok" if go_ok else "err"))
        if pg[i].split()[1] == "panic":
            ck.violation("parser panics on nesting template %s:%d" % (k, n), {"kind": "Go!=S", "engine": "lua", "source": PD[k](n)[:4000], "opts": ""})
        elif go_ok != mo_ok:
            # pow/tbl/binop beyond the register budget are rejected later ("not enough registers"): only a parse acceptance the model
            # rejects, or a rejection below the limit that is not a register error, is a difference
            if go_ok and n > 200:
                # the real parser accepts nesting beyond its limit: the source itself is the failing input; make it a crash by
                # deepening the same template until the Go stack gives way (default 1 GB stack, watchdog)
                if ck.cov["distribution"].get("viol:nesting-unlimited", 0) < 2:
                    ck.count("viol:nesting-unlimited")
                    crash = None
                    for deep in (30000, 300000, 3000000):
                        big = PD[k](deep)
                        o = vlib.run_lines_resilient(gvh, ["lua"], ["x %s" % lua_hex(big)], per_case_timeout=240, mem_kb=8 * 1024 * 1024)
                        r = parse_lua(o[0])
                        if r["status"] in ("CRASH", "HANG", "gopanic"):
                            crash = (deep, r)
                            break
                        if r["status"] == "compile_error":
                            break
                    rp = {"kind": "Go!=S", "engine": "lua", "family": "nest", "label": "%s:%d" % (k, n), "opts": "",
                          "source": PD[k](n)[:4000], "source_bytes": len(PD[k](n)), "status": "compiled",
                          "message": "nesting of %d levels (limit %d) compiles: the nesting limit is not enforced for this construct" % (n, 200),
                          "theorems": ["C04_parser_recursion_depth_bounded"]}
                    what = "nesting limit not enforced: %s nested %d deep compiles" % (k, n)
                    if crash:
                        deep, r = crash
                        path = os.path.join(ck.work, "big-nest-%s-%d.lua" % (k, deep))
                        open(path, "w").write(PD[k](deep))
                        rp.update({"source": None, "source_file": path, "source_bytes": len(PD[k](deep)), "status": r["status"],
                                   "label": "%s:%d" % (k, deep), "message": r.get("msg", "")[:1500]})
                        what += "; nested %d deep the process dies: %s %s" % (deep, r["status"], r.get("msg", "")[:100].replace("\n", " | "))
                    ck.violation(what, rp)
            elif go_ok or n <= 150:
                stale.append(("pd", pl[i], pg[i], pm[i]))
            else:
                ck.count("pd:rejected-later-stage")

    # ------------------------------------------------------------ 2b'. astcomp expression-depth limit (model VM/ExpDepth.v: limit 10000)
    #      loose tie: a chain of 9000 links is not rejected by this limit, a chain of 11000 links is rejected (by it or an earlier one)
    chain = [(k, n) for k in ("call", "dot", "index", "method", "concat") for n in (9000, 11000)]
    co = vlib.run_lines_resilient(gvh, ["lua"], ["x%d %s" % (i, lua_hex(NEST[k](n)[0])) for i, (k, n) in enumerate(chain)], per_case_timeout=120)
    for (k, n), o in zip(chain, co):
        r = parse_lua(o)
        ck.case("chain %s %d" % (k, n), True)
        too_complex = "expression too complex" in r.get("msg", "")
        ck.count("expdepth:%s:%d:%s" % (k, n, "too-complex" if too_complex else r["status"]))
        if r["status"] in ("gopanic", "CRASH", "HANG"):
            ck.violation("chain template %s:%d: %s %s" % (k, n, r["status"], r.get("msg", "")[:100]),
                         {"kind": "Go!=S", "engine": "lua", "family": "nest", "label": "%s:%d" % (k, n), "source_bytes": len(NEST[k](n)[0]), "opts": "",
                          "source": None, "status": r["status"], "message": r.get("msg", "")[:1000]})
        elif (n == 9000 and too_complex) or (n == 11000 and r["status"] == "ok"):
            stale.append(("expdepth", "%s %d" % (k, n), o[:300], "model: limit 10000 links"))

    # ------------------------------------------------------------ 2c. exported runtime options must not crash the host
    RP = ["local function f(n) local c = n return function() c = c + 1 return c end end local s = 0 for i = 1, 50 do s = s + f(i)() end "
          "local co = coroutine.wrap(function(a) return a * 2 end) return s, co(4), select('#', table.unpack({1, 2, 3}))",
          "local function fib(n) if n < 2 then return n end return fib(n - 1) + fib(n - 2) end local t = {} for i = 1, 12 do t[i] = fib(i) end "
          "return table.concat(t, ' '), (pcall(error, 'x')), #string.rep('ab', 10)"]
    rpl, rpc = [], []
    for j, src in enumerate(RP):
        for n in (0, 1, 2, 3, 5, 9, 10, 11, 20, 100):
            rpl.append("o%d_%d %d %s" % (j, n, n, lua_hex(src)))
            rpc.append((j, n))
    rpo = vlib.run_lines_resilient(gvh, ["regpool"], rpl, per_case_timeout=60)
    ref = {}
    for (j, n), o in zip(rpc, rpo):
        ck.case(o.split(" ")[0] + str(j), True)
        st = o.split(" ")[1] if " " in o else "?"
        ck.count("regpool:" + st)
        if st != "ok":
            k = ck.known_match(lambda k: k["id"] == "C04-regpool-size-option" and n < 10)
            if k:
                ck.known_finding(k)
            else:
                ck.violation("runtime.New(w, WithRegPoolSize(%d)) makes a plain program end with %s %s" % (n, st, unhex(o.split(" ")[2] if len(o.split(" ")) > 2 else "")[:120]),
                             {"kind": "Go!=S", "engine": "regpool", "regpoolsize": n, "source": RP[j], "impl": o[:500]})
        else:
            ref.setdefault(j, o.split(" ", 2)[2])
            if o.split(" ", 2)[2] != ref[j]:
                ck.violation("result depends on WithRegPoolSize(%d)" % n, {"kind": "Go!=S", "engine": "regpool", "regpoolsize": n, "source": RP[j], "impl": o[:500], "expected": ref[j]})

    # ------------------------------------------------------------ 2d. goto / label family: compile only (gvh-limits codelen), every
    #      outcome must be a successful compile or an ordinary compile error
    gl = gen_gotos(ck.rng, tier)
    ck.log("goto/label family: %d sources" % len(gl))
    glo = []
    for i0 in range(0, len(gl), 20000):
        glo += vlib.run_lines_resilient(gvh, ["codelen"], ["g%d %s" % (i, lua_hex(src)) for i, (b, src) in enumerate(gl[i0:i0 + 20000], i0)],
                                         per_case_timeout=30)
    nglbad = 0
    for (b, src), o in zip(gl, glo):
        st = o.split(" ")[1] if " " in o else "?"
        cls = "compiled" if st.isdigit() else st
        ck.case("gl " + src, True)
        ck.count("goto:%s:%s" % (b.split("+")[0], cls))
        if cls not in ("compiled", "err"):
            nglbad += 1
            if nglbad <= 3:
                ck.violation("compile function does not return an ordinary result (Go panic / crash escapes): %s -> %s" % (src, o[:200]),
                             {"kind": "Go!=S", "engine": "lua", "family": "goto", "label": b, "status": cls, "source": src, "opts": "",
                              "message": o[:1500]})
    ck.cov["goto_bad"] = nglbad

    # ------------------------------------------------------------ 3. exploration
    ck.log("lim done: %d cases" % len(lim))
    lr = LuaRunner(ck, gvh)
    explore(ck, lr, tier)

    # ------------------------------------------------------------ verdicts on the proof side
    if stale:
        eng, case, a, b = stale[0]
        ck.violation("implementation no longer matches the Coq model VM/Opcode.v / VM/Limits.v (Go≈IM/%s); %d differences" % (eng, len(stale)),
                     {"kind": "Go!=IM", "correspondence": "Go≈IM/limits." + eng, "case": case, "impl": a, "model": b, "differences": len(stale),
                      "theorems_no_longer_about_this_code": ["C04_encode_decode_roundtrip", "C04_limit_in_range_encodes",
                                                              "C04_limit_is_compile_error", "C04_compile_never_panics_nor_truncates",
                                                              "C04_registers_fit_every_history"]},
                     no_input=not any(not v[1] for v in ck.violations))
    if not ok_obl:
        ck.violation("proof obligations of C04 no longer check: " + str(ck.cov.get("obligation_failure", ""))[:300],
                     {"kind": "proof", "theorem_file": PROP, "detail": ck.cov.get("obligation_failure")}, no_input=True)
    ck.cov["correspondence_differences"] = len(stale)
    ck.cov["exhaustive"] = False
    ck.cov["split"] = {
        "proved": "opcode field round trips (all types, all fields); register allocator invariant over all histories; in-range limits "
                  "encode exactly; every limit (registers, constants, closures, etc/fill index, close-stack height, function length) is a "
                  "compile error; pc and jumps exact in a function that passed the length check; check_code sound; parser nesting <= 201 frames",
        "tied_to_go": "real mkType1..7/Get*/SetOffset/SetKIndex/LoadSmallInt (every 8-bit field value exhaustively, 16-bit boundary+random); "
                      "real ircomp.ConstantCompiler on hand-built IR around each limit; register allocator histories; check_code on every compiled unit; "
                      "parser accept/reject boundary on nesting templates vs the skeleton model",
        "explored_only": "scanner/parser/astcomp/VM/standard library through child processes: random and corrupted sources, nesting and "
                         "size templates with known results, library functions x edge-value tuples, recursion/explosion templates",
        "unreachable_for_proof": "Go stack exhaustion, out-of-memory, the Go runtime's fatal errors",
    }
    return ck.finish(
        rule="enc: every 8-bit field value of every mkTypeN with the other fields at boundary values + RegType bytes {0,1,2,255} + 16-bit "
             "boundary values + random in-type tuples + random/boundary words for dec/SetOffset/SetKIndex + LoadSmallInt boundaries; "
             "lim: every index -3..299 (+powers of two) for etc/fill, boundary+random heights, constant/closure counts around 65535, jump "
             "distances around +-32768 x 3 jump kinds, register-allocator histories (4..520 IR registers, up to 700 requests); "
             "lua: random bytes / token soup / single-token corruptions / %d nesting templates x depths / %d size templates x sizes "
             "(expected result known) / every library function x tuples (arity 0-3 from a %d-value pool) / %d recursion+explosion templates; "
             "distinct by case text; all counted cases are non-trivial (each exercises an encoder, a limit or a full compile+run)"
             % (len(NEST), len(HUGE), len(POOL_LABELS), len(RECURSION)),
        trusted_base=TRUSTED,
        assumptions=["exploration is sampling, not proof: absence of a crash in the explored streams says nothing about other inputs",
                     "quick tier: Go's per-goroutine stack limit is lowered to 32 MB in the recursion/nesting cases so that unbounded Go recursion shows "
                     "as a fatal stack overflow within seconds; a crash seen only under the lowered limit is re-run with the default 1 GB before it is reported",
                     "library sweep runs each call inside runtime.callcontext{kill cpu=2e6, memory=3e7, flags=iosafe} + pcall; functions with outside effects are skipped: "
                     + SWEEP_SKIP.pattern])


def explore(ck, lr, tier):
    quick = tier == "quick"
    bad_total = 0
    # ---- corpus first
    corpus = os.path.join(vlib.VERIF, "corpus", "C04")
    cases = []
    if os.path.isdir(corpus):
        for fn in sorted(os.listdir(corpus)):
            if fn.endswith(".json"):
                c = json.load(open(os.path.join(corpus, fn)))
                cases.append((c.get("family", "corpus"), "corpus:" + fn, c["source"].encode("latin-1"), c.get("expect"), c.get("opts", "")))
    # ---- (a) sources
    for fam, label, src, exp in gen_sources(ck.rng, tier):
        cases.append((fam, label, src, exp, ""))
    lines = []
    for i, (fam, label, src, exp, opts) in enumerate(cases):
        lines.append("s%d %s cpu=300000000 mem=500000000 %s" % (i, lua_hex(src), opts))
    ck.log("source streams: %d cases" % len(lines))
    outs = lr.run(lines, timeout=(30 if quick else 600), maxstack=(32 << 20) if quick else None)
    for i, (fam, label, src, exp, opts) in enumerate(cases):
        res = parse_lua(outs[i]) if i < len(outs) else {"status": "?", "raw": ""}
        ck.case(src[:5000].hex() + str(len(src)), True)
        ck.count("src:%s:%s" % (fam, res["status"]))
        bad_total += judge(ck, lr, fam, label, src, exp, res, lines[i], quick)
    ck.sample({"source_case": cases[-1][1], "bytes": len(cases[-1][2]), "result": outs[-1][:200] if outs else None})

    # ---- static check of every unit the real compiler produced for these sources (+ golua's own Lua test files):
    #      model's check_code (proved sound: C04_check_code_sound) on the dumped code
    wsrc = [(label, src) for (fam, label, src, exp, opts) in cases if len(src) <= (300000 if quick else 3000000)]
    wsrc += [("sweep", (SWEEP_LUA % ("string.rep", 0, 1, len(POOL_LABELS))).encode()), ("list", LIST_LUA.encode())]
    wsrc += [("rec:" + l, s_.encode()) for (l, f_, s_) in RECURSION]
    for root, _, files in os.walk(vlib.REPO):
        if "/lua" in root and "/verif" not in root:
            for fn in sorted(files):
                if fn.endswith(".lua"):
                    try:
                        wsrc.append(("repo:" + os.path.relpath(os.path.join(root, fn), vlib.REPO), open(os.path.join(root, fn), "rb").read()))
                    except OSError:
                        pass
    ck.log("static check of compiled units: %d sources" % len(wsrc))
    dl = ["w%d %s" % (i, lua_hex(src)) for i, (label, src) in enumerate(wsrc)]
    dumps = vlib.run_lines_resilient(lr.bin, ["dump"], dl, per_case_timeout=120)
    comp = [(i, d) for i, d in enumerate(dumps) if " K" in d and " W" in d]
    for i, d in enumerate(dumps):
        st = d.split(" ")[1] if " " in d else "?"
        if st in ("CRASH", "HANG", "panic"):
            ck.violation("compile function crashed on %s: %s" % (wsrc[i][0], d[:200]),
                         {"kind": "Go!=S", "engine": "lua", "family": "compile", "label": wsrc[i][0], "status": st,
                          "source": wsrc[i][1][:4000].decode("latin-1"), "source_bytes": len(wsrc[i][1]), "opts": ""})
    rc, wf, e = vlib.run_lines(os.path.join(vlib.ORACLE, "limits", "oracle.exe"), ["wf"], [d for _, d in comp], timeout=1800)
    nbad = 0
    for (i, d), o in zip(comp, wf):
        ck.count("wf:" + o.split(" ")[1])
        ck.case("wf " + wsrc[i][0] + str(len(d)), True)
        if " ok " not in o:
            nbad += 1
            if nbad <= 3:
                ck.violation("compiled code fails the static check (register/cell/constant/jump target out of range): %s -> %s" % (wsrc[i][0], o),
                             {"kind": "Go!=S", "engine": "wf", "label": wsrc[i][0], "result": o, "source": wsrc[i][1][:4000].decode("latin-1"),
                              "source_bytes": len(wsrc[i][1]), "theorems": ["C04_check_code_sound"]})
    if rc != 0 or len(wf) != len(comp):
        ck.violation("oracle wf crashed (%d/%d)" % (len(wf), len(comp)), {"kind": "oracle-crash", "stderr": e[-2000:]}, no_input=True)
    ck.cov["units_checked"] = len(comp)

    # ---- (b) library sweep
    lo = lr.run(["n %s" % lua_hex(LIST_LUA)], timeout=30)
    r = parse_lua(lo[0])
    names = []
    if r["status"] == "ok" and r.get("ret", "").startswith("s"):
        names = [n for n in unhex(r["ret"][1:]).split(" ") if not n.startswith("_G.") or n[3:] not in ("",)]
    # _G.x duplicates base functions; keep _G.* (base library) and drop nothing else
    names = sorted(set(names))
    P = len(POOL_LABELS)
    ntup = 1 + P + P * P + (300 if quick else 5000)
    todo = []
    for n in names:
        if SWEEP_SKIP.match(n):
            ck.count("lib:skipped")
            continue
        if quick:
            # all arities 0,1; a slice of pairs and triples chosen per run
            rng = ck.rng
            start = 1 + P + rng.below(P * P - 200)
            todo.append((n, 0, P))
            todo.append((n, start, start + 200))
            todo.append((n, 1 + P + P * P, 1 + P + P * P + 40))
        else:
            for lo_ in range(0, ntup, 500):
                todo.append((n, lo_, min(ntup - 1, lo_ + 499)))
    ck.count("lib:functions", len(set(t[0] for t in todo)))
    slines = ["f%d %s cpu=2000000000 mem=1500000000 flags=4" % (i, lua_hex(SWEEP_LUA % (n, a, b, P))) for i, (n, a, b) in enumerate(todo)]
    ck.log("library sweep: %d cases" % len(slines))
    souts = lr.run(slines, timeout=(60 if quick else 300), batch=100)     # each case makes hundreds of calls: keep the children short-lived
    for i, (n, a, b) in enumerate(todo):
        res = parse_lua(souts[i]) if i < len(souts) else {"status": "?"}
        ck.count("lib:%s" % res["status"])
        ck.cov["evaluations"] += (b - a)       # calls made inside the case (the case itself is counted below)
        ck.case("lib %s %d %d" % (n, a, b), True)
        if res["status"] in ("gopanic", "CRASH", "HANG", "?"):
            # first the same case alone in a fresh child: a crash that does not reproduce there is an artefact of a long-lived
            # harness process (seen once in the thorough tier: the 1162-case child died and an innocent case took the blame)
            o = lr.run([slines[i]], timeout=300)
            if parse_lua(o[0])["status"] not in ("gopanic", "CRASH", "HANG", "?"):
                ck.count("lib:not-reproduced-in-fresh-process")
                ck.notes.append("sweep case %s %d-%d: %s in a long-lived child, ordinary outcome when re-run alone: %s" %
                                (n, a, b, res["status"], res.get("msg", "")[:300].replace("\n", " | ")))
                continue
            # bisect to a single tuple
            lo_, hi_ = a, b
            while lo_ < hi_:
                mid = (lo_ + hi_) // 2
                o = lr.run(["b %s cpu=2000000000 mem=1500000000 flags=4" % lua_hex(SWEEP_LUA % (n, lo_, mid, P))], timeout=60)
                if parse_lua(o[0])["status"] in ("gopanic", "CRASH", "HANG"):
                    hi_ = mid
                else:
                    lo_ = mid + 1
            args = tuple_labels(lo_, P)
            o = lr.run(["b %s cpu=2000000000 mem=1500000000 flags=4" % lua_hex(SWEEP_LUA % (n, lo_, lo_, P))], timeout=60)
            r1 = parse_lua(o[0])
            k = None
            if n in ("string.unpack", "smt.unpack") and "makeslice" in r1.get("msg", ""):
                k = ck.known_match(lambda k: k["id"] == "C04-note-unpack-makeslice")
            if n in ("string.format", "smt.format") and args and args[0] == "'%'" and r1["status"] == "gopanic" and "index out of range [0] with length 0" in r1.get("msg", ""):
                k = ck.known_match(lambda k: k["id"] == "C04-format-trailing-percent")
            if k:
                ck.known_finding(k)
            else:
                bad_total += 1
                ck.violation("library call crashes the host: %s(%s) -> %s %s" % (n, ", ".join(args), r1["status"], r1.get("msg", "")[:120]),
                             {"kind": "Go!=S", "engine": "lua", "function": n, "args": args, "tuple_index": lo_,
                              "status": r1["status"], "message": r1.get("msg", "")[:1500],
                              "source": SWEEP_LUA % (n, lo_, lo_, P), "opts": "cpu=2000000000 mem=1500000000 flags=4"})
        elif res["status"] != "ok":
            # error/killed of the sweep script itself is unexpected (each call is isolated): report as machinery note, not a violation
            ck.notes.append("sweep case %s %d-%d ended %s %s" % (n, a, b, res["status"], res.get("msg", "")[:100]))

    # ---- (b') the same functions with NO memory limit and half-overflow integers (arity <= 2 all pairs, 3-argument forms with a
    #      string/table/int first argument); a fatal out-of-memory of the child is tolerated here, everything else is not
    Q = len(NL_LABELS)
    nlt = 1 + Q + Q * Q + len(NL_FIRST) * Q * Q
    first_lua = ",".join(str(i + 1) for i in NL_FIRST)
    nl_src = lambda n, a, b: SWEEP_NL_LUA % (n, a, b, Q, first_lua)
    nl = [(n, 0, nlt - 1) for n in names if not SWEEP_SKIP.match(n)]
    ck.log("no-memory-limit sweep: %d functions x %d tuples" % (len(nl), nlt))
    nlines = ["u%d %s cpu=200000000 flags=4" % (i, lua_hex(nl_src(n, a, b))) for i, (n, a, b) in enumerate(nl)]
    nouts = lr.run(nlines, timeout=(60 if quick else 300), batch=100)

    def nl_bad(res):
        if res["status"] in ("gopanic", "HANG", "?"):
            return True
        return res["status"] == "CRASH" and "out of memory" not in res.get("msg", "")
    for i, (n, a, b) in enumerate(nl):
        res = parse_lua(nouts[i]) if i < len(nouts) else {"status": "?"}
        ck.count("libnl:%s" % res["status"])
        ck.cov["evaluations"] += (b - a)
        ck.case("libnl %s" % n, True)
        if res["status"] == "CRASH" and not nl_bad(res):
            ck.count("libnl:fatal-oom-tolerated")
        if nl_bad(res):
            lo_, hi_ = a, b
            while lo_ < hi_:
                mid = (lo_ + hi_) // 2
                o = lr.run(["b %s cpu=200000000 flags=4" % lua_hex(nl_src(n, lo_, mid))], timeout=60)
                if nl_bad(parse_lua(o[0])):
                    hi_ = mid
                else:
                    lo_ = mid + 1
            args = nl_labels(lo_)
            o = lr.run(["b %s cpu=200000000 flags=4" % lua_hex(nl_src(n, lo_, lo_))], timeout=60)
            r1 = parse_lua(o[0])
            if not nl_bad(r1):
                ck.count("libnl:not-reproduced")
                ck.notes.append("no-limit sweep %s: %s not reproduced on a single tuple" % (n, res["status"]))
                continue
            k = None
            if n in ("string.rep", "smt.rep") and r1["status"] == "gopanic" and "makeslice: len out of range" in r1.get("msg", "") \
                    and rep_size_is_plain_huge(args):
                k = ck.known_match(lambda k: k["id"] == "C04-rep-makeslice-no-memory-limit")
            if k:
                ck.known_finding(k)
                # the recorded defect hides the rest of this function's tuples: run the remainder in two halves around it
                for (x, y) in ((a, lo_ - 1), (lo_ + 1, b)):
                    if x <= y:
                        pass   # (kept simple: the narrow re-sweep below covers string.rep's 3-argument forms)
            else:
                bad_total += 1
                ck.violation("library call crashes the host (no memory limit): %s(%s) -> %s %s" % (n, ", ".join(args), r1["status"], r1.get("msg", "")[:120]),
                             {"kind": "Go!=S", "engine": "lua", "function": n, "args": args, "tuple_index": lo_,
                              "status": r1["status"], "message": r1.get("msg", "")[:1500],
                              "source": nl_src(n, lo_, lo_), "opts": "cpu=200000000 flags=4"})
    # string.rep has a recorded no-limit defect (2-argument makeslice) that ends its case early: sweep its tuples one case each
    # for the half-overflow integers so that a second defect in the same function is still seen
    reps = []
    for fn in ("string.rep", "smt.rep"):
        for s_ in ("''", "'x'", "'ab'"):
            for n_ in ("0", "1", "2", "-1", "1<<62", "(1<<62)+1", "(1<<61)+1", "math.maxinteger", "math.maxinteger-1", "math.maxinteger//2+1", "math.mininteger"):
                for sep in (None, "''", "'y'", "'yz'"):
                    call = "%s, %s" % (s_, n_) + ("" if sep is None else ", " + sep)
                    f_ = "string.rep" if fn == "string.rep" else "getmetatable('').__index.rep"
                    reps.append((fn, call, "return (pcall(%s, %s))" % (f_, call)))
    rl2 = ["q%d %s cpu=50000000" % (i, lua_hex(src)) for i, (fn, call, src) in enumerate(reps)]
    ro2 = lr.run(rl2, timeout=60)
    for (fn, call, src), o in zip(reps, ro2):
        r = parse_lua(o)
        ck.case("rep " + fn + call, True)
        ck.count("repnl:%s" % r["status"])
        if nl_bad(r):
            plain_huge = rep_size_is_plain_huge([a.strip() for a in call.split(",")])
            k = ck.known_match(lambda k: k["id"] == "C04-rep-makeslice-no-memory-limit") if (
                r["status"] == "gopanic" and "makeslice: len out of range" in r.get("msg", "") and plain_huge) else None
            if k:
                ck.known_finding(k)
            else:
                bad_total += 1
                ck.violation("library call crashes the host (no memory limit): %s(%s) -> %s %s" % (fn, call, r["status"], r.get("msg", "")[:120]),
                             {"kind": "Go!=S", "engine": "lua", "function": fn, "args": call, "status": r["status"], "message": r.get("msg", "")[:1500],
                              "source": src, "opts": "cpu=50000000"})

    # ---- (c) recursion / explosion
    rl = []
    for i, (label, fam, src) in enumerate(RECURSION):
        rl.append("r%d %s cpu=%d mem=20000000" % (i, lua_hex(src), 5000000 if quick else 50000000))
    ck.log("recursion templates")
    routs = lr.run(rl, timeout=(12 if quick else 400), maxstack=(32 << 20) if quick else None)
    for i, (label, fam, src) in enumerate(RECURSION):
        res = parse_lua(routs[i]) if i < len(routs) else {"status": "?"}
        ck.case("rec " + src, True)
        ck.count("rec:%s:%s" % (fam, res["status"]))
        bad_total += judge(ck, lr, fam if fam == "meta" else "rec", label, src.encode(), None, res, rl[i], quick)

    # ---- (d) coroutine life-cycle abuse
    cos = gen_coroutines(ck.rng, tier)
    ck.log("coroutine family: %d programs" % len(cos))
    # collectgarbage is refused in a limited context, so the programs whose action runs in a __gc handler run without limits
    # (the watchdog remains); all others under CPU and memory limits
    cl = ["k%d %s %s" % (i, lua_hex(src), "" if label.startswith("gc/") else "cpu=20000000 mem=200000000") for i, (label, src) in enumerate(cos)]
    couts = lr.run(cl, timeout=(20 if quick else 120), batch=400)
    ncobad = 0
    for i, (label, src) in enumerate(cos):
        res = parse_lua(couts[i]) if i < len(couts) else {"status": "?"}
        ck.case("co " + src, True)
        ck.count("co:%s:%s" % (label.split("/")[0], res["status"]))
        if res["status"] in ("gopanic", "CRASH", "HANG", "?"):
            # alone in a fresh child first (a dying child takes the next case with it)
            o = lr.run([cl[i]], timeout=60)
            r1 = parse_lua(o[0])
            if r1["status"] not in ("gopanic", "CRASH", "HANG", "?"):
                ck.count("co:not-reproduced-alone")
                continue
            ncobad += 1
            bad_total += 1
            if ncobad <= 5:
                ck.violation("coroutine program kills or hangs the host: %s -> %s %s" % (label, r1["status"], r1.get("msg", "")[:160].replace("\n", " | ")),
                             {"kind": "Go!=S", "engine": "lua", "family": "coroutine", "label": label, "status": r1["status"],
                              "message": r1.get("msg", "")[:1500], "source": src, "opts": " ".join(cl[i].split(" ")[2:])})
    ck.cov["coroutine_bad"] = ncobad

    # ---- (e) unbounded growth of the call depth: NO limits at all (only the process ulimit and the watchdog); reference Lua ends each
    #      of these with an ordinary "stack overflow" error, and so must golua (a fatal out-of-memory is not recoverable by pcall)
    GQ = ("nontail", "through-metamethod", "wrap-recursion", "resume-recursion", "vararg-nontail", "legit-depth-150000",
          "legit-loop-collecting-results", "legit-loop-vararg-calls")
    GROWTH_ = [g for g in GROWTH if not quick or g[0] in GQ]
    gl_ = ["g%d %s" % (i, lua_hex(src)) for i, (label, src) in enumerate(GROWTH_)]
    ck.log("call-depth growth family: %d programs" % len(gl_))
    gouts = lr.run(gl_, timeout=(90 if quick else 300), mem_kb=4 * 1024 * 1024)
    for i, (label, src) in enumerate(GROWTH_):
        res = parse_lua(gouts[i]) if i < len(gouts) else {"status": "?"}
        ck.case("growth " + src, True)
        ck.count("growth:%s:%s" % (label, res["status"]))
        if res["status"] in ("gopanic", "CRASH", "HANG", "?"):
            k = ck.known_match(lambda k: k["id"] == "C04-unbounded-lua-call-depth" and label in k["match"]["labels"])
            if k:
                ck.known_finding(k)
            else:
                bad_total += 1
                ck.violation("runaway recursion without a memory limit kills the host instead of raising 'stack overflow': %s -> %s %s" %
                             (label, res["status"], res.get("msg", "")[:120].replace("\n", " | ")),
                             {"kind": "Go!=S", "engine": "lua", "family": "growth", "label": label, "status": res["status"],
                              "message": res.get("msg", "")[:1500], "source": src, "opts": ""})
        elif label.startswith("legit-") and res["status"] != "ok":
            bad_total += 1
            ck.violation("a program that is not deeply nested is refused by the call-depth limit: %s -> %s %s" %
                         (label, res["status"], res.get("msg", "")[:120].replace("\n", " | ")),
                         {"kind": "Go!=S", "engine": "lua", "family": "growth", "label": label, "status": res["status"],
                          "message": res.get("msg", "")[:1500], "source": src, "opts": ""})
    panic_inventory(ck)

    # ---- (f) runaway recursion through CALLABLE-VALUE handlers: first pass with Go's stack limit lowered to 32 MB (no other limit);
    #      a death there is confirmed at the default 1 GB stack (the first two individually, ~25 s each) before it is reported
    cps = callable_programs()
    ck.log("callable-handler recursion: %d programs" % len(cps))
    cpl = ["h%d %s" % (i, lua_hex(src)) for i, (label, src) in enumerate(cps)]
    cpo = lr.run(cpl, timeout=60, maxstack=32 << 20, mem_kb=4 * 1024 * 1024)
    confirmed = 0
    not_repro = set()
    for i, (label, src) in enumerate(cps):
        res = parse_lua(cpo[i]) if i < len(cpo) else {"status": "?"}
        ck.case("callable " + src, True)
        ck.count("callable:%s" % res["status"])
        if res["status"] in ("gopanic", "CRASH", "HANG", "?"):
            kind = label.rsplit("-", 1)[0]
            if kind in not_repro:
                ck.count("callable:needs-more-than-32MB-stack")
                continue
            if confirmed < 2:
                o = lr.run([cpl[i]], timeout=300, mem_kb=6 * 1024 * 1024)
                r1 = parse_lua(o[0])
                if r1["status"] not in ("gopanic", "CRASH", "HANG", "?"):
                    ck.count("callable:needs-more-than-32MB-stack")
                    not_repro.add(kind)        # the deeper chain of the same kind is not re-run at 1 GB
                    continue
                confirmed += 1
                res = r1
            elif confirmed == 0:
                continue
            bad_total += 1
            if confirmed <= 2 and ck.cov["distribution"].get("viol:callable", 0) < 6:
                ck.count("viol:callable")
                ck.violation("runaway recursion through a callable-value handler kills the host: %s -> %s %s" %
                             (label, res["status"], res.get("msg", "")[:140].replace("\n", " | ")),
                             {"kind": "Go!=S", "engine": "lua", "family": "callable", "label": label, "status": res["status"],
                              "message": res.get("msg", "")[:1500], "source": src, "opts": "",
                              "confirmed_at_default_stack": i < len(cps) and confirmed <= 2})
    ck.cov["bad_outcomes"] = bad_total


def tuple_labels(idx, P):
    if idx == 0:
        return []
    if idx <= P:
        return [POOL_LABELS[idx - 1]]
    idx -= P + 1
    if idx < P * P:
        return [POOL_LABELS[idx // P], POOL_LABELS[idx % P]]
    idx -= P * P
    return [POOL_LABELS[(idx * 7919 + 13) % P], POOL_LABELS[(idx * 104729 + 7) % P], POOL_LABELS[(idx * 1299709 + 3) % P]]


def judge(ck, lr, fam, label, src, exp, res, line, quick):
    """Classify one outcome; returns 1 if it is a bad outcome (violation or known finding)."""
    st = res["status"]
    bad = st in ("gopanic", "CRASH", "HANG", "?")
    wrong = False
    if not bad and exp is not None and st == "ok":
        want_st, want_ret = exp
        if want_ret is not None and res.get("ret", "").split(",")[0] != want_ret:
            wrong = True
    if not bad and not wrong:
        return 0
    if st == "CRASH" and quick and ("stack exceeds" in res.get("msg", "") or "stack overflow" in res.get("msg", "")):
        # seen under the lowered stack limit: a recorded defect is accepted as is (it was confirmed at 1 GB when recorded);
        # anything else is re-run with Go's default limit before it is reported
        if classify_known(ck, fam, label, res, len(src)) is None:
            o = lr.run([line], timeout=240)
            res2 = parse_lua(o[0])
            if res2["status"] not in ("gopanic", "CRASH", "HANG"):
                ck.count("needs-more-than-32MB-stack")
                return 0
            res = res2
            st = res["status"]
    codelen = 0
    if fam in ("huge", "nest", "corpus") and (wrong or st == "gopanic"):
        rc, o, _ = vlib.run_lines(lr.bin, ["codelen"], ["x " + lua_hex(src)], timeout=300)
        if o and len(o[0].split()) >= 3:
            codelen = int(o[0].split()[1])
    if wrong:
        k = classify_known(ck, "wrong-int16", label, res, codelen) if fam in ("huge", "nest", "corpus") else None
        what = "silently wrong result: %s gives %s, expected %s" % (label, res.get("ret", "")[:40], exp[1])
    else:
        k = classify_known(ck, fam, label, res, codelen)
        what = "%s: %s %s" % (label, st, res.get("msg", "")[:160].replace("\n", " | "))
    if k:
        ck.known_finding(k)
        return 1
    small = src if len(src) <= 4000 else None
    path = None
    if small is None:
        path = os.path.join(ck.work, "big-%s.lua" % re.sub(r"\W", "_", label))
        with open(path, "wb") as f:
            f.write(src)
    ck.violation(("no ordinary outcome for " if not wrong else "") + what,
                 {"kind": "Go!=S", "engine": "lua", "family": fam, "label": label, "status": st, "message": res.get("msg", "")[:1500],
                  "result": res.get("ret", "")[:200], "expected": exp,
                  "source": small.decode("latin-1") if small is not None else None, "source_file": path,
                  "source_bytes": len(src), "opts": " ".join(line.split(" ")[2:])})
    return 1


def replay(path, seed):
    r = json.load(open(path))
    ck = vlib.Check("C04", "quick", seed, level="proof")
    gvh, _ = ck.build_gvh(pkg="./cmd/gvh-limits", name="gvh_limits")
    oracle = ck.build_oracle("limits")
    if r.get("engine") in ("enc", "lim"):
        line = r["case"] if r["case"].split()[0][0] in "el" else "x " + r["case"]
        _, a, _ = vlib.run_lines(gvh, [r["engine"]], [line])
        _, b, _ = vlib.run_lines(oracle, [r["engine"]], [line])
        print("impl :", a[0] if a else None)
        print("model:", b[0] if b else None)
        return 0
    if r.get("engine") == "lua":
        src = r.get("source")
        if src is None and r.get("source_file"):
            src = open(r["source_file"], "rb").read().decode("latin-1")
        o = vlib.run_lines_resilient(gvh, ["lua"], ["x %s %s" % (lua_hex(src.encode("latin-1")), r.get("opts", ""))], per_case_timeout=300,
                                     mem_kb=6 * 1024 * 1024)
        res = parse_lua(o[0])
        print("status:", res["status"], "| message:", res.get("msg", "")[:400], "| result:", res.get("ret", "")[:100])
        return 0
    print(json.dumps(r, indent=1)[:3000])
    return 0
