# C08 — compliance flags gate every Go function; iosafe means no access to the outside.
#
#  translator        : translate/flags (go/packages + go/ssa + CHA refined by VTA) regenerates
#                      coq/theories/Flags/Generated.v from /repo's source on EVERY run:
#                      registry (Go function, Lua name, declared flags), call graph reachable
#                      from the registry (safeio.* and the gated call in GoCont.RunInThread cut,
#                      allow.txt cuts), sink list
#  proof obligations : coq/theories/Properties/C08.v — gate theorems (Flags/Gate.v, Nesting.v),
#                      DFS soundness (Flags/Reach.v), and, by vm_compute on the regenerated table,
#                      "every function declared iosafe reaches no sink" (Flags/Check.v)
#  dynamic tie       : gvh-flags enumerates every Go function reachable from _G, package.loaded,
#                      metatables and iterator factories on the real runtime, compares with the
#                      registry (translator completeness + flags), and calls each under every
#                      subset of the four flags x argument tuples x call forms; expects the
#                      ordinary Lua error "missing flags: ..." iff required is not a subset of
#                      declared, the context alive afterwards, and (iosafe) an untouched sentinel
import json
import os
import re

from lib import vlib

PROP = ["Properties/C08.v"]
FLAG_NAMES = [(1, "memsafe"), (2, "cpusafe"), (4, "iosafe"), (8, "timesafe")]
TRUSTED = [
    "Coq 8.16.1 kernel (coqc); vm_compute for the finite, regenerated table (Flags/Check.v) and Examples",
    "no axioms (Print Assumptions: closed under the global context for every C08 theorem)",
    "translator translate/flags (our Go code) + golang.org/x/tools v0.29.0 go/packages, go/ssa, callgraph/cha refined by callgraph/vta: "
    "trusted to report every static edge; VTA is sound modulo reflection/unsafe; lib/golib (reflection) declares no flags",
    "translate/flags/allow.txt: 3 cuts with justifications (File.cleanup->os.Remove of its own temp file; time.initLocal; crypto/rand.reader.Read)",
    "built-in cuts: safeio.* (Gate.safeio_refuses) and the call c.f(t,c) in GoCont.RunInThread (Gate.gate_blocks; shape of the function checked by the translator)",
    "sink list in translate/flags/main.go (os/ioutil/os-exec/syscall/plugin/net acquisition primitives); reading/writing an already open handle is not a sink",
    "Go harness harness/cmd/gvh-flags (reflection on GoFunction fields), harness/hx; Python generator/diff lib/props/C08.py",
    "Gate.v is written by hand from gocont.go/runtimecontextmanager.go/safeio/file.go; tied to the code by the dynamic calls (error iff required not subset of declared, message text, context alive)",
]

FORMS = ["direct", "pcall", "coroutine", "meta", "load", "wrap"]
TUPLES = ['', '"canary"', '"canary", "w"', '"touch gv_marker"', '"canary", "canary2"', '0', 'nil, -1',
          '{}, function() end', '1.5, true, "a"']
# never executed when the gate is expected to let them through (they end or fork the harness process)
DANGEROUS = {"github.com/arnodel/golua/lib/oslib.exit", "github.com/arnodel/golua/lib/golib.goimport"}


def names(fl):
    return " ".join(n for b, n in FLAG_NAMES if fl & b)


def norm_go(n):
    n = n.replace(".init.", ".")
    return re.sub(r"\.func\d+(\.\d+)*", ".func", n)


def chunk(expr, args, flags, form):
    body = {
        "direct": "local r = table.pack(f(table.unpack(A, 1, A.n))) ok = true",
        "pcall": "ok, e = pcall(f, table.unpack(A, 1, A.n))",
        "coroutine": "local co = coroutine.create(f) ok, e = coroutine.resume(co, table.unpack(A, 1, A.n))",
        "wrap": "ok, e = pcall(coroutine.wrap(function(...) return f(...) end), table.unpack(A, 1, A.n))",
        "meta": "local o = setmetatable({}, {__call = f}) ok, e = pcall(o, table.unpack(A, 1, A.n))",
        "load": "local g = load('local f, A = ... return f(table.unpack(A, 1, A.n))') ok, e = pcall(g, f, A)",
    }[form]
    return ("local f = %s\nlocal A = table.pack(%s)\n"
            "local ctx, x = runtime.callcontext({flags=%s}, function()\n local ok, e\n %s\n"
            " emit('r', ok, type(e) == 'string' and e or type(e))\n emit('alive', math.type(1))\n return 'fin'\nend)\n"
            "emit('ctx', tostring(ctx), type(x) == 'string' and x or type(x))\n") % (expr, args, json.dumps(names(flags)), body)


BODIES = {
    "direct": "local r = table.pack(f(table.unpack(A, 1, A.n))) ok = true",
    "pcall": "ok, e = pcall(f, table.unpack(A, 1, A.n))",
    "coroutine": "local co = coroutine.create(f) ok, e = coroutine.resume(co, table.unpack(A, 1, A.n))",
    "wrap": "ok, e = pcall(coroutine.wrap(function(...) return f(...) end), table.unpack(A, 1, A.n))",
    "meta": "local o = setmetatable({}, {__call = f}) ok, e = pcall(o, table.unpack(A, 1, A.n))",
    "load": "local g = load('local f, A = ... return f(table.unpack(A, 1, A.n))') ok, e = pcall(g, f, A)",
}


def chunk_nested(expr, args, outer, inner_def, form):
    """f is called inside runtime.callcontext(inner_def, ...) nested inside a context requiring `outer`.
    Same events as chunk() ('r', 'alive', 'ctx' = the INNER context), plus the flags in force."""
    return ("local f = %s\nlocal A = table.pack(%s)\nlocal ictx, ix\n"
            "local octx, ox = runtime.callcontext({flags=%s}, function()\n"
            " ictx, ix = runtime.callcontext(%s, function()\n  emit('flags', runtime.context().flags)\n  local ok, e\n  %s\n"
            "  emit('r', ok, type(e) == 'string' and e or type(e))\n  emit('alive', math.type(1))\n  return 'fin'\n end)\n"
            " emit('outerflags', runtime.context().flags)\n return 'fin'\nend)\n"
            "emit('ctx', tostring(ictx), type(ix) == 'string' and ix or type(ix))\nemit('octx', tostring(octx))\n") % (
                expr, args, json.dumps(names(outer)), inner_def, BODIES[form])


def chunk_stress(rej_expr, flags, thread, count):
    """count flag-rejected calls in ONE thread, then compliant calls inside the context and after leaving it."""
    run = {"main": "burst(%d)" % count, "coroutine": "coroutine.wrap(burst)(%d)" % count,
           "pcall": "assert(pcall(burst, %d))" % count}[thread]
    return ("local rej = %s\nlocal n = 0\n"
            "local function burst(k) for i = 1, k do local ok, e = pcall(rej, 'canary') "
            "if not ok and type(e) == 'string' and e:find('missing flags: ', 1, true) then n = n + 1 end end end\n"
            "local ctx, x = runtime.callcontext({flags=%s}, function()\n %s\n emit('rej', n)\n"
            " emit('after', pcall(string.rep, 'a', 3))\n emit('after2', tostring(12), select('#', 1, 2), ('x'):upper())\n return 'fin'\nend)\n"
            "emit('ctx', tostring(ctx), type(x) == 'string' and x or type(x))\n"
            "emit('outside', pcall(string.rep, 'b', 2))\nemit('outside2', tostring(7), #table.pack(1, 2, 3))\n") % (
                rej_expr, json.dumps(names(flags)), run)


SITE_KINDS = ["close-error", "close-return", "close-break", "gc", "msgh", "coroutine", "index", "arith", "tostring", "load", "goto-close", "hook"]


def site_prelude(expr, args):
    """site(tag): at the place where it is called, record the flags in force and call f under pcall."""
    return ("local f = %s\nlocal A = table.pack(%s)\n"
            "local function site(tag)\n local fl = runtime.context().flags\n local ok, e = pcall(f, table.unpack(A, 1, A.n))\n"
            " emit('site', tag, fl, ok, type(e) == 'string' and e or type(e))\nend\n") % (expr, args)


def chunk_site(expr, args, ctxdef, kind):
    """f is called from a place that belongs to the body of runtime.callcontext(ctxdef, body) without being
    lexically a plain call in it: a pending __close handler (context ends by error / return / break / goto), a __gc
    finaliser of a value created there, an xpcall message handler, a coroutine body, a metamethod, load'ed code."""
    body = {
        "close-error": "local x <close> = setmetatable({}, {__close = function() site('close-error') end}) error('boom')",
        "close-return": "local x <close> = setmetatable({}, {__close = function() site('close-return') end}) return 'fin'",
        "close-break": "for i = 1, 3 do local x <close> = setmetatable({}, {__close = function() site('close-break') end}) break end return 'fin'",
        "goto-close": "do local x <close> = setmetatable({}, {__close = function() site('goto-close') end}) goto out end ::out:: return 'fin'",
        "gc": "setmetatable({}, {__gc = function() site('gc') end}) return 'fin'",
        "hook": "local fired = false debug.sethook(function() if fired then return end fired = true site('hook') end, 'c') return 'fin'",
        "msgh": "xpcall(function() error('x') end, function(m) site('msgh') return m end) return 'fin'",
        "coroutine": "local co = coroutine.create(function() site('coroutine') end) coroutine.resume(co) return 'fin'",
        "index": "local _ = setmetatable({}, {__index = function() site('index') end}).k return 'fin'",
        "arith": "local _ = setmetatable({}, {__add = function() site('arith') return 1 end}) + 1 return 'fin'",
        "tostring": "tostring(setmetatable({}, {__tostring = function() site('tostring') return 's' end})) return 'fin'",
        "load": "load('local site = ... site(\\'load\\')')(site) return 'fin'",
    }[kind]
    return (site_prelude(expr, args) +
            "local ctx, x = runtime.callcontext(%s, function()\n %s\nend)\n"
            "emit('ctx', tostring(ctx), type(x) == 'string' and x or type(x))\n"
            "collectgarbage() collectgarbage()\nlocal _ = math.abs(-1)\ndebug.sethook()\nemit('end', runtime.context().flags)\n") % (ctxdef, body)


CORO_SHAPES = {
    # shape -> (main program around the coroutine `co`, must the predicate hold on HEAD's design?)
    "same-depth": "co() emit('between', runtime.context().flags) co()",
    "inside-body": None,
    "pcall-inside-coroutine": None,
    "resumed-from-deeper": "co() runtime.callcontext({flags=\"cpusafe\"}, function() co() end)",
    "abandoned": "co() co = nil runtime.callcontext(CTXDEF, function() site('main-own') end)",
    "resumer-exits-pcall": "pcall(co) co()",
    "resumer-exits-callcontext": "runtime.callcontext({}, function() co() end) co()",
    "resumed-from-shallower": "runtime.callcontext({flags=\"cpusafe\"}, function() co() end) co()",
    "resumer-exits-xpcall": "xpcall(co, print) co()",
    # a coroutine the sandboxed code did not create: suspended inside a pcall BEFORE the flagged context is entered and
    # resumed inside the body; when it leaves its pcall, PopContext takes the flagged context off the shared stack
    "foreign-suspended-in-pcall-leaves-it": None,
    # same, but it yields again without leaving its pcall: nothing is popped
    "foreign-suspended-in-pcall-stays": None,
}
# shapes in which a coroutine is suspended inside an open CallContext frame and its resumer exits a CallContext frame
# (pcall, xpcall, runtime.callcontext) before resuming it: known finding C08-context-stack-shared-by-coroutines
CORO_KNOWN_SHAPES = ("resumer-exits-pcall", "resumer-exits-callcontext", "resumed-from-shallower", "resumer-exits-xpcall",
                     "foreign-suspended-in-pcall-leaves-it")


def chunk_coro(expr, args, ctxdef, shape):
    pre = site_prelude(expr, args)
    cobody = ("local co = coroutine.wrap(function()\n runtime.callcontext(%s, function()\n  site('before')\n  coroutine.yield()\n  site('after')\n end)\n"
              " emit('co-out')\nend)\n") % ctxdef
    if shape == "inside-body":
        return (pre + "local ctx = runtime.callcontext(%s, function()\n local co = coroutine.wrap(function() site('before') coroutine.yield() site('after') end)\n"
                " co() pcall(function() end) co()\n site('body')\nend)\nemit('ctx', tostring(ctx))\nemit('end', runtime.context().flags)\n") % ctxdef
    if shape == "pcall-inside-coroutine":
        return (pre + "local ctx = runtime.callcontext(%s, function()\n local co = coroutine.wrap(function() pcall(function() site('before') coroutine.yield() site('after') end) end)\n"
                " pcall(co) site('body') co()\n site('body')\nend)\nemit('ctx', tostring(ctx))\nemit('end', runtime.context().flags)\n") % ctxdef
    if shape.startswith("foreign-suspended-in-pcall"):
        inner = "coroutine.yield()" if shape.endswith("leaves-it") else "coroutine.yield() coroutine.yield()"
        return (pre + "local gen = coroutine.wrap(function() pcall(function() %s end) coroutine.yield() end)\ngen()\n"
                "local ctx = runtime.callcontext(%s, function()\n site('before')\n gen()\n site('after')\nend)\n"
                "emit('ctx', tostring(ctx))\nemit('end', runtime.context().flags)\n") % (inner, ctxdef)
    return pre + cobody + CORO_SHAPES[shape].replace("CTXDEF", ctxdef) + "\nemit('end', runtime.context().flags)\n"


OPEN_MODES = ["r", "w", "a", "r+", "w+", "a+", "rb", "wb", "ab", "r+b", "w+b", "a+b"]
# expressions that would hand the program a NEW handle on something outside (or an iterator over one)
ACQUIRE = ([('io.open("canary", "%s")' % m) for m in OPEN_MODES] + [('io.open("gvnew", "%s")' % m) for m in OPEN_MODES] +
           ['io.open("canary")', 'io.input("canary")', 'io.output("canary")', 'io.output("gvnew")', 'io.lines("canary")',
            'io.lines("canary", "n")', 'io.tmpfile()', 'io.popen("true")', 'io.popen("true", "w")', 'loadfile("canary")',
            'io.open("/dev/null", "r+")', 'io.open(".", "r")'])


def chunk_acquire(expr, ctxdef, form):
    call = {"direct": "local ok, a, b = true, %s" % expr,
            "pcall": "local ok, a, b = pcall(function() return %s end)" % expr,
            "coroutine": "local ok, a, b = coroutine.resume(coroutine.create(function() return %s end))" % expr,
            "close": "local ok, a, b local h <close> = setmetatable({}, {__close = function() ok, a, b = pcall(function() return %s end) end}) h = nil" % expr}[form]
    if form == "close":
        call = "local ok, a, b do local h <close> = setmetatable({}, {__close = function() ok, a, b = pcall(function() return %s end) end}) end" % expr
    return ("local ctx, x = runtime.callcontext(%s, function()\n %s\n"
            " emit('acq', runtime.context().flags, ok, io.type(a) or type(a), type(b) == 'string' and b or type(b))\n"
            " if io.type(a) == 'file' then pcall(a.close, a) end\n return 'fin'\nend)\n"
            "emit('ctx', tostring(ctx), type(x) == 'string' and x or type(x))\n") % (ctxdef, call)


def parse_trace(tr):
    """T: field -> list of events, each a list of python values (strings decoded)."""
    evs = []
    if tr == "-":
        return evs
    for ev in tr.split(";"):
        vals = []
        for v in ev.split(","):
            if v.startswith("s"):
                vals.append("" if v == "s-" else bytes.fromhex(v[1:]).decode("utf-8", "replace"))
            elif v == "b1":
                vals.append(True)
            elif v == "b0":
                vals.append(False)
            elif v == "n":
                vals.append(None)
            else:
                vals.append(v)
        evs.append(vals)
    return evs


def translate(ck, known_names):
    """Run the translator; returns (diag dict or None, error text)."""
    tdir = os.path.join(vlib.VERIF, "translate")
    binp = os.path.join(vlib.WORK, "bin", "tr-flags")
    srcs = [os.path.join(root, f) for root, _, fs in os.walk(tdir) for f in fs if f.endswith((".go", ".mod", ".sum"))]
    if not (os.path.exists(binp) and os.path.getmtime(binp) >= max(os.path.getmtime(x) for x in srcs)):
        rc, so, se = vlib.sh(["go", "build", "-o", binp, "./flags"], cwd=tdir, timeout=600)
        if rc != 0:
            return None, "translator does not build: " + se[-2000:]
    out = os.path.join(vlib.COQ, "theories", "Flags", "Generated.v")
    diag = os.path.join(ck.work, "diag.json")
    cmd = [binp, "-repo", vlib.REPO, "-out", out + ".tmp", "-json", diag, "-allow", os.path.join(tdir, "flags", "allow.txt"),
           "-known", ",".join(known_names)]
    rc, so, se = vlib.sh(cmd, cwd=tdir, timeout=900)
    ck.log("translator:", se.strip().splitlines()[-1] if se.strip() else rc)
    if rc != 0:
        return None, "translator failed on /repo: " + se[-2000:]
    new = open(out + ".tmp").read()
    old = open(out).read() if os.path.exists(out) else ""
    if new != old:
        os.replace(out + ".tmp", out)
    else:
        os.remove(out + ".tmp")
    return json.load(open(diag)), ""


def prove(ck, tier):
    """Re-check the proof obligations; the thorough tier rebuilds this property's own cone from scratch
    (only our directories: other checks may be building in the same tree) and runs coqchk."""
    if tier == "thorough":
        for d in ['Flags'] + ["Properties"]:
            dd = os.path.join(vlib.COQ, "theories", d)
            for f in os.listdir(dd):
                if f.endswith((".vo", ".vok", ".vos", ".glob")) and (d != "Properties" or f.startswith('C08.')):
                    os.remove(os.path.join(dd, f))
    ok = ck.obligations(PROP, clean=False)
    if ok and tier == "thorough":
        ok = ck.coqchk(['GV.Properties.C08'])
        if not ok:
            ck.cov["obligation_failure"] = "coqchk: " + str(ck.cov.get("coqchk"))
    return ok


def run(tier, seed):
    ck = vlib.Check("C08", tier, seed, level="proof")
    known_by_go = {k["match"]["go_function"]: k for k in ck.known if k.get("status") == "open" and "go_function" in k.get("match", {})}

    # ---------------- 1. translator (regenerates Flags/Generated.v) in parallel with the harness build
    from concurrent.futures import ThreadPoolExecutor
    pool = ThreadPoolExecutor(max_workers=2)
    f_build = pool.submit(ck.build_gvh, ("verif",), False, "gvh_flags", "./cmd/gvh-flags", os.environ.get("VERIF_OVERLAY"))
    diag, err = translate(ck, sorted(known_by_go))
    if diag is None:
        ck.violation(err[:300], {"kind": "translator", "detail": err}, no_input=True)
        return ck.finish("n/a", TRUSTED, [])
    reg = diag["registry"]
    ck.cov["registry_rows"] = len(reg)
    ck.cov["graph"] = {"algo": diag.get("algo"), "cha_nodes": diag.get("cha_nodes"), "nodes": diag["nodes"], "edges": diag["edges"],
                       "sinks": len(diag["sinks"]), "gate_edges_cut": diag.get("gate_edges_cut"),
                       "allow_used": diag.get("allow_used") or [], "allow_unused": diag.get("allow_unused") or [],
                       "translator_s": round(diag.get("total_s", 0), 1)}
    # the proof obligations are re-checked by coqc while the dynamic sweep runs
    f_obl = pool.submit(prove, ck, tier)
    static_bad = [r for r in reg if r.get("path") and r["go_name"] not in known_by_go]
    static_known = [r for r in reg if r.get("path") and r["go_name"] in known_by_go]
    for k in known_by_go.values():
        if not any(r["go_name"] == k["match"]["go_function"] for r in static_known):
            ck.notes.append("known finding %s no longer reproduces statically (function not declared iosafe or no path to a sink)" % k["id"])

    # ---------------- 2. dynamic enumeration on the real runtime
    gvh, berr = f_build.result()
    if gvh is None:
        f_obl.result()
        ck.violation("harness does not build against /repo", {"kind": "build", "stderr": berr[-3000:]}, no_input=True)
        return ck.finish("n/a", TRUSTED, [])
    sentinel = os.path.join(ck.work, "sentinel")
    rc, lines, se = vlib.run_lines(gvh, ["enum", sentinel], [], timeout=120)
    dyn = []
    for l in lines:
        f = l.split(" ")
        if f[0] == "F":
            dyn.append({"expr": bytes.fromhex(f[1]).decode(), "go": f[2], "lua": f[3], "flags": int(f[4])})
        else:
            ck.notes.append("enum: " + l[:200])
    ck.cov["dynamic_functions"] = len(dyn)
    if rc != 0 or not dyn:
        ck.violation("gvh-flags enum failed", {"kind": "crash", "stderr": se[-2000:]}, no_input=True)
        return ck.finish("n/a", TRUSTED, [])
    # registry rows by (package, normalised go name, lua name)
    def pkg_of(go):
        m = re.match(r"github.com/arnodel/golua/((?:lib/)?[a-z0-9]+(?:/[a-z0-9]+)?)\.", go)
        return m.group(1) if m else "?"
    regmap = {}
    for r in reg:
        regmap.setdefault((norm_go(r["go_name"]), r["lua_name"]), []).append(r)
    matched = set()
    for d in dyn:
        rows = regmap.get((norm_go(d["go"]), d["lua"]))
        if not rows:
            ck.violation("Go function %s (%s) is reachable from Lua but is not in the translator's registry" % (d["expr"], d["go"]),
                         {"kind": "translator-incomplete", "function": d, "theorems_not_covering_it": ["C08_iosafe_functions_reach_no_sink"]},
                         no_input=True)
            d["declared_static"] = None
            continue
        matched.add((norm_go(d["go"]), d["lua"]))
        fl = {r["flags"] for r in rows}
        d["declared_static"] = sorted(fl)
        d["row"] = rows[0]
        if d["flags"] not in fl:
            ck.violation("declared flags of %s: source analysis says %s, the running GoFunction has %d" % (d["expr"], sorted(fl), d["flags"]),
                         {"kind": "translator-wrong-flags", "function": d}, no_input=True)
    ck.cov["registry_rows_not_reached_dynamically"] = sorted({r["go_name"] + " (" + r["lua_name"] + ")" for r in reg
                                                              if (norm_go(r["go_name"]), r["lua_name"]) not in matched})

    # ---------------- 2b. safeio's guard, called directly through the Go API for every flag word
    rc, glines, se = vlib.run_lines(gvh, ["safeio", sentinel + "-s"], [], timeout=300)
    nref = nperf = 0
    sbad = []
    for gl in glines:
        g = gl.split(" ")
        if g[0] != "G" or len(g) < 7:
            continue
        req, op, flagw, name, res, changed = int(g[1]), g[2], g[3], g[4], g[5], g[6]
        ck.case("safeio|" + gl, nontrivial=True)
        ck.count("safeio:%s:%s" % ("iosafe-required" if req & 4 else "free", res.split(":")[0]))
        if req & 4:
            nref += 1
            if res != "refused" or changed != "0":
                sbad.append((op, flagw, name, res, changed, req))
        elif res == "performed":
            nperf += 1
    ck.cov["safeio_direct_calls_under_iosafe"] = nref
    if rc != 0 or nref < 300 or nperf < 50:
        ck.violation("gvh-flags safeio sweep incomplete (rc %s, %d guarded calls, %d performed without the flag)" % (rc, nref, nperf),
                     {"kind": "crash", "stderr": se[-2000:]}, no_input=True)
    for op, flagw, name, res, changed, req in sbad[:4]:
        ck.violation("safeio.%s(%s, flag word 0x%s = %s) in a context requiring '%s' is not refused: %s%s" %
                     (op, name, flagw, "|".join(n for n, b in (("O_WRONLY", 1), ("O_RDWR", 2), ("O_CREATE", 0x40), ("O_EXCL", 0x80), ("O_TRUNC", 0x200),
                                                               ("O_APPEND", 0x400), ("O_SYNC", 0x101000)) if int(flagw, 16) & b == b) or "O_RDONLY",
                      names(req), res, ", sentinel changed" if changed != "0" else ""),
                     {"kind": "Go!=S", "engine": "flags", "go_call": "safeio.%s(r, %r, 0x%s, 0644) inside Thread.CallContext{RequiredFlags: %d}" % (op, name, flagw, req),
                      "result": res, "theorem": "C08_safeio_refuses (for ANY primitive and arguments)"})
    # ---------------- 3. calls under every flag subset
    cases = []
    quick = tier == "quick"
    rot = ck.rng.below(6)
    # corpus first: past witnesses, one per line: <lua expression>|<required flags>|<form>|<tuple index>
    cdir = os.path.join(vlib.VERIF, "corpus", "C08")
    ncorpus = 0
    if os.path.isdir(cdir):
        for fn in sorted(os.listdir(cdir)):
            for l in open(os.path.join(cdir, fn)):
                l = l.strip()
                if not l or l.startswith("#"):
                    continue
                ex, R, fm, ti = l.split("|")
                d = next((x for x in dyn if x["expr"] == ex), None)
                if d is None:
                    ck.notes.append("corpus entry for a function that no longer exists: " + ex)
                    continue
                cases.append((d, int(R), fm, int(ti), (int(R) & ~d["flags"]) != 0))
                ncorpus += 1
    ck.cov["corpus_cases"] = ncorpus
    for d in dyn:
        for R in range(16):
            blocked = (R & ~d["flags"]) != 0
            if not blocked and d["go"] in DANGEROUS:
                ck.count("skipped:dangerous-when-admitted")
                continue
            combos = []
            if quick:
                # deterministic in the seed: two rotating (form, tuple) picks per (function, flag set), every form and
                # every tuple for the flag sets {iosafe} and all four
                h = (sum(d["expr"].encode()) + rot) % 6
                combos += [(FORMS[(R + h) % 6], (R + h) % len(TUPLES)), (FORMS[(R + h + 3) % 6], 3 if R & 4 else (R + 2 * h) % len(TUPLES))]
                if R in (4, 15):
                    combos += [(fm, 0) for fm in FORMS] + [("pcall", ti) for ti in range(1, len(TUPLES))]
                combos = sorted(set(combos))
            else:
                combos = [(fm, ti) for fm in FORMS for ti in range(len(TUPLES))]
            for fm, ti in combos:
                cases.append((d, R, fm, ti, blocked))
    # nested contexts: f called inside runtime.callcontext(<inner def>) nested in a context requiring iosafe (and more);
    # the requirement in force inside is outer | inner (| cpusafe/memsafe for limits): flags only grow (C08_gate_monotone_under_nesting)
    nested = {}   # index in cases -> (outer, inner definition source)
    INNER_FORMS = ["direct", "pcall", "coroutine", "wrap"]
    inner_defs = [(fl, "{flags=%s}" % json.dumps(names(fl))) for fl in range(16)] + [(2, "{kill={cpu=10000000}}"), (1, "{kill={memory=100000000}}"), (0, "{}")]
    for di, d in enumerate(dyn):
        if quick:
            outers = [4]
            h = (di + rot) % 4
            picks = [inner_defs[2], inner_defs[(1, 8, 3, 9)[h]], inner_defs[16 + h % 3]]
            if not (d["flags"] & 4) or any(w in d["expr"] for w in ("io.", "os.", "file", "lines")):
                picks += [inner_defs[1], inner_defs[8], inner_defs[10], inner_defs[0]]
            combos = [(ifl, idef, INNER_FORMS[(h + k) % 4], 1 + (h + k) % 4) for k, (ifl, idef) in enumerate(picks)]
        else:
            outers = [4, 5, 12]
            combos = [(ifl, idef, fm, ti) for (ifl, idef) in inner_defs for fm in INNER_FORMS for ti in (0, 1, 2, 3, 4)]
        for outer in outers:
            for ifl, idef, fm, ti in combos:
                R = outer | ifl
                blocked = (R & ~d["flags"]) != 0
                if not blocked and d["go"] in DANGEROUS:
                    continue
                nested[len(cases)] = (outer, idef)
                cases.append((d, R, fm, ti, blocked))
    ck.cov["nested_context_cases"] = len(nested)
    # stress: many rejected calls in one thread must not wear anything out (Go call depth, pools, memory accounting)
    stress_cases = []
    nrej = 1600 if quick else 6000
    for d in dyn:
        if d["go"] in DANGEROUS or "(" in d["expr"] or d["flags"] == 15:
            continue
        missing_bit = next(b for b, _ in FLAG_NAMES if not d["flags"] & b)
        for thread in ("main", "coroutine", "pcall"):
            stress_cases.append((d, missing_bit | 4, thread, nrej))
    if quick:
        stress_cases = [c for k, c in enumerate(stress_cases) if k % 3 == (k // 3 + rot) % 3][:12]
    ck.cov["stress_cases"] = len(stress_cases)
    # other spellings of "a call made by the code of a flagged context": __close handlers pending when the context ends,
    # __gc finalisers of its values, xpcall message handlers, coroutine bodies, metamethods, load'ed code; and coroutines
    # that yield inside / are resumed around a flagged context.  For every function the flag set blocks, plus the
    # file-changing functions that are compliant but guarded by safeio.
    site_cases = []   # dicts: d, F (flags the def requires), ctxdef, family 'site'|'coro', kind, ti
    io_guarded = {"_G.io.open": 2, "_G.os.rename": 4, "_G.os.remove": 1, "_G.io.lines": 1, "_G.os.tmpname": 0, "_G.io.tmpfile": 0,
                  "_G.io.output": 1, "_G.io.input": 1}
    fsets = [4] if quick else [4, 8, 5, 15]
    for F in fsets:
        defs = [(F, "{flags=%s}" % json.dumps(names(F))), (F | 2, "{flags=%s, kill={cpu=100000000}}" % json.dumps(names(F)))]
        for d in dyn:
            blk = (F & ~d["flags"]) != 0
            if not blk and not ((F & 4) and d["expr"] in io_guarded):
                continue
            tis = [io_guarded.get(d["expr"], 1)] if quick else sorted({io_guarded.get(d["expr"], 1), 1, 3})
            for Feff, cdef in defs:
                for ti in tis:
                    for kind in SITE_KINDS:
                        if d["go"] in DANGEROUS and ((kind == "gc" and "kill" not in cdef) or kind == "hook"):
                            continue   # known finding below: the gate is not in force there, os.exit would end the harness
                        site_cases.append({"d": d, "F": Feff, "ctxdef": cdef, "family": "site", "kind": kind, "ti": ti})
                    for shape in CORO_SHAPES:
                        if d["go"] in DANGEROUS and shape in CORO_KNOWN_SHAPES:
                            continue
                        site_cases.append({"d": d, "F": Feff, "ctxdef": cdef, "family": "coro", "kind": shape, "ti": ti})
    # acquisition: every mode string io.open accepts (and the other functions that return a handle / iterator / chunk from a
    # file name) against an EXISTING sentinel file and a new name, inside contexts requiring iosafe
    acq_cases = []
    for cdef, F in (('{flags="iosafe"}', 4), ('{flags="memsafe cpusafe iosafe timesafe"}', 15), ('{flags="cpusafe iosafe", kill={cpu=100000000}}', 6),
                    ('{flags="cpusafe"}', 2)):
        for k, ex in enumerate(ACQUIRE):
            forms = ["direct", "pcall", "coroutine", "close"] if (not quick or F == 4) else [("pcall", "coroutine", "close", "direct")[(k + rot) % 4]]
            for fm in forms:
                acq_cases.append({"expr": ex, "ctxdef": cdef, "F": F, "form": fm})
    ck.cov["acquisition_cases"] = len(acq_cases)
    ck.cov["call_site_cases"] = sum(1 for c in site_cases if c["family"] == "site")
    ck.cov["coroutine_shape_cases"] = sum(1 for c in site_cases if c["family"] == "coro")
    # the Go API path (RuntimeContextDef.RequiredFlags through Thread.CallContext) for functions reachable by plain indexing
    api_cases = []
    for d in dyn:
        if "(" in d["expr"]:
            continue
        for R in (range(1, 16) if not quick else sorted({4, 15, 1 + (rot + len(d["expr"])) % 15})):
            blocked = (R & ~d["flags"]) != 0
            if not blocked and d["go"] in DANGEROUS:
                continue
            api_cases.append((d, R, blocked))
    lines = []
    for i, (d, R, fm, ti, blocked) in enumerate(cases):
        if i in nested:
            lines.append("n%d %s" % (i, chunk_nested(d["expr"], TUPLES[ti], nested[i][0], nested[i][1], fm).encode().hex()))
        else:
            lines.append("c%d %s" % (i, chunk(d["expr"], TUPLES[ti], R, fm).encode().hex()))
    for i, (d, R, blocked) in enumerate(api_cases):
        src = "return %s('canary')" % d["expr"]
        lines.append("a%d %s flags=%d" % (i, src.encode().hex(), R))
    for i, (d, R, thread, cnt) in enumerate(stress_cases):
        lines.append("s%d %s" % (i, chunk_stress(d["expr"], R, thread, cnt).encode().hex()))
    for i, c in enumerate(site_cases):
        mk = chunk_site if c["family"] == "site" else chunk_coro
        lines.append("k%d %s" % (i, mk(c["d"]["expr"], TUPLES[c["ti"]], c["ctxdef"], c["kind"]).encode().hex()))
    for i, c in enumerate(acq_cases):
        lines.append("q%d %s" % (i, chunk_acquire(c["expr"], c["ctxdef"], c["form"]).encode().hex()))
    ck.log("cases: %d via runtime.callcontext, %d via the Go API, %d stress, %d call sites / coroutine shapes" %
           (len(cases), len(api_cases), len(stress_cases), len(site_cases)))
    # the harness process keeps every runtime it created alive (coroutine goroutines), so feed it in slices;
    # slices run in parallel, each in its own sentinel directory
    from concurrent.futures import ThreadPoolExecutor
    step = 1500
    slices = [lines[i:i + step] for i in range(0, len(lines), step)]

    def work(arg):
        k, sl = arg
        return vlib.run_lines_resilient(gvh, ["run", "%s-%d" % (sentinel, k % 4)], sl, per_case_timeout=30)
    outs = []
    # 4 workers, slice k uses sentinel k%4: slices with the same k%4 must not overlap in time -> 4 lanes
    lanes = [[(k, sl) for k, sl in enumerate(slices) if k % 4 == w] for w in range(4)]

    def lane(work_items):
        return [(k, work((k, sl))) for k, sl in work_items]
    with ThreadPoolExecutor(max_workers=4) as ex:
        res = {}
        for part in ex.map(lane, lanes):
            for k, o in part:
                res[k] = o
    for k in range(len(slices)):
        outs += res[k]
    # reference digest of the untouched sentinel = the most frequent one (a corpus case may change it in the first case)
    import collections
    dcount = collections.Counter()
    for l in outs:
        m = re.search(r" S:([0-9a-f]{16})", l)
        if m:
            dcount[m.group(1)] += 1
    base_digest = dcount.most_common(1)[0][0] if dcount else None
    nviol = 0
    blocked_seen = admitted_seen = 0
    known_hits = {}
    reported = set()

    def report(summary, rep, d, known_ok=False):
        nonlocal nviol
        k = known_by_go.get(d["go"]) if known_ok else None
        if k is not None:
            ck.known_finding(k)
            known_hits[k["id"]] = known_hits.get(k["id"], 0) + 1
            return
        nviol += 1
        cls = (d["go"], re.sub(r"[^a-z ]", "", summary.split(d["expr"])[0])[:40])
        if summary.startswith("inside runtime.callcontext") or summary.startswith("after a nested context"):
            # one report per inner definition, not per function
            cls = ("nested-flags", rep.get("nested", {}).get("inner_def"))
            if sum(1 for c in reported if c[0] == "nested-flags") >= 3 and cls not in reported:
                return
        if cls not in reported and len(reported) < 16:
            reported.add(cls)
            ck.violation(summary, rep)

    k_coro = next((k for k in ck.known if k.get("status") == "open" and k.get("match", {}).get("family") == "coro"), None)
    k_gc = next((k for k in ck.known if k.get("status") == "open" and k.get("match", {}).get("family") == "site" and k["match"].get("kind") == "gc"), None)

    k_hook = next((k for k in ck.known if k.get("status") == "open" and k.get("match", {}).get("family") == "site" and k["match"].get("kind") == "hook"), None)

    acq_reported = set()

    def eval_acquire(c, l, src):
        nonlocal nviol
        F = c["F"]
        ck.case("acquire|%s|%s|%s" % (c["expr"], c["ctxdef"], c["form"]), nontrivial=True)
        ck.count("acquire:" + ("iosafe-required" if F & 4 else "not-required"))
        f = l.split(" ")
        fields = {x[0]: x[2:] for x in f[2:] if len(x) > 1 and x[1] == ":"}
        evs = parse_trace(fields.get("T", "-")) if len(f) > 2 else []
        acq = next((e for e in evs if e and e[0] == "acq"), None)
        dg = (fields.get("S") or "").split(",children=")
        fails = []
        if not (F & 4):
            if acq and acq[3] in ("file", "function"):
                ck.count("acquire:handle-obtained-when-not-required")
            return
        if len(f) < 2 or f[1] in ("CRASH", "HANG"):
            fails.append("the harness process %s" % f[1] if len(f) > 1 else "died")
        elif acq is None:
            ctx_ev = next((e for e in evs if e and e[0] == "ctx"), None)
            if not (c["form"] == "direct" and ctx_ev and ctx_ev[1] == "error"):
                fails.append("the program did not report (status %s)" % f[1])
        else:
            if "iosafe" not in (acq[1] or "").split():
                fails.append("flags in force are '%s'" % acq[1])
            if acq[3] in ("file", "closed file", "function", "userdata"):
                fails.append("a handle was obtained: the call returned a %s" % acq[3])
        if dg[0] and base_digest and dg[0] != base_digest:
            fails.append("the sentinel directory changed")
        if len(dg) > 1 and int(dg[1]):
            fails.append("%s child process(es) started" % dg[1])
        if fails:
            nviol += 1
            key = (c["expr"].split("(")[0], fails[0][:30])
            if key not in acq_reported and len(acq_reported) < 6:
                acq_reported.add(key)
                ck.violation("%s inside runtime.callcontext(%s) (%s call): %s" % (c["expr"], c["ctxdef"], c["form"], "; ".join(fails)),
                             {"kind": "Go!=S", "engine": "flags", "function": c["expr"], "context_def": c["ctxdef"], "form": "acquire:" + c["form"],
                              "lua": src, "impl": l[:1500], "failed": fails, "theorem": "C08_safeio_refuses / C08_iosafe_functions_reach_no_sink"})

    def eval_site(c, l, src):
        """Predicate: while the body of callcontext(def requiring F) runs - and in every handler that belongs to it -
        runtime.context().flags includes F, functions that have not declared F fail with the gate's error, and the
        sentinel directory is untouched."""
        d, F, fam, kind = c["d"], c["F"], c["family"], c["kind"]
        blocked = (F & ~d["flags"]) != 0
        ck.case("%s|%s|%s|%s|%d" % (fam, kind, d["expr"], c["ctxdef"], c["ti"]), nontrivial=True)
        ck.count("%s:%s" % (fam, kind))
        rep = {"kind": "Go!=S", "engine": "flags", "function": d["expr"], "go_function": d["go"], "declared": d["flags"], "required": F,
               "required_names": names(F), "context_def": c["ctxdef"], "form": fam + ":" + kind, "args": TUPLES[c["ti"]], "lua": src, "impl": l[:1500],
               "predicate": "inside the body of runtime.callcontext(def) and its handlers: flags in force include the def's flags, "
                            "non-compliant functions fail with 'missing flags', sentinel untouched"}
        f = l.split(" ")
        if len(f) < 2 or f[1] in ("CRASH", "HANG"):
            report("%s called from %s:%s under %s %s the harness process" % (d["expr"], fam, kind, c["ctxdef"], "crashed" if "CRASH" in l else "hung"), rep, d)
            return
        fields = {x[0]: x[2:] for x in f[2:] if len(x) > 1 and x[1] == ":"}
        evs = parse_trace(fields.get("T", "-"))
        dg = fields.get("S")
        nchild = 0
        if dg and ",children=" in dg:
            dg, nc = dg.split(",children=")
            nchild = int(nc)
        sites = [e for e in evs if e and e[0] == "site"]
        fails = []
        want = "missing flags: " + names(F & ~d["flags"])
        for e in sites:
            tag, fl, ok, msg = (e + [None] * 5)[1:5]
            seen = set((fl or "").split())
            if fam == "coro" and tag == "main-own":
                pass
            if not set(names(F).split()) <= seen:
                fails.append((tag, "flags in force are '%s', expected at least '%s'" % (fl, names(F))))
            elif blocked and not (ok is False and isinstance(msg, str) and "missing flags: " in msg and
                                  set(names(F & ~d["flags"]).split()) <= set(msg.split("missing flags: ")[1].split())):
                fails.append((tag, "expected the error '%s', got %r %r" % (want, ok, msg)))
        expected_sites = {"site": 1, "coro": {"abandoned": 2, "inside-body": 3, "pcall-inside-coroutine": 4}.get(kind, 2)}[fam]
        if f[1] != "ok" or len(sites) < expected_sites:
            if fam == "site" and kind in ("gc", "hook") and f[1] == "ok":
                ck.count(kind + "-handler-did-not-run")
            else:
                ck.count("site-family:program-incomplete")
                if not fails and not (fam == "coro" and kind in CORO_KNOWN_SHAPES):
                    fails.append(("-", "the program did not reach all its call sites (status %s, %d of %d sites; error %s)" %
                                  (f[1], len(sites), expected_sites,
                                   bytes.fromhex(fields["E"]).decode("utf-8", "replace")[:100] if fields.get("E", "-") not in ("-", None) else None)))
        if (F & 4) and dg is not None and base_digest is not None and dg != base_digest:
            fails.append(("sentinel", "the sentinel directory changed"))
        if (F & 4) and nchild:
            fails.append(("sentinel", "%d child process(es) started" % nchild))
        if not fails:
            return
        # narrow matching of the two recorded defects: by the SHAPE of the history, and only for the call site that shape affects
        if fam == "coro" and k_coro is not None and kind in CORO_KNOWN_SHAPES and all(t in ("after", "sentinel") for t, _ in fails):
            ck.known_finding(k_coro)
            known_hits[k_coro["id"]] = known_hits.get(k_coro["id"], 0) + 1
            return
        if fam == "site" and kind == "gc" and k_gc is not None and "kill" not in c["ctxdef"] and all(t in ("gc", "sentinel") for t, _ in fails):
            ck.known_finding(k_gc)
            known_hits[k_gc["id"]] = known_hits.get(k_gc["id"], 0) + 1
            return
        if fam == "site" and kind == "hook" and k_hook is not None and all(t in ("hook", "sentinel") for t, _ in fails):
            ck.known_finding(k_hook)
            known_hits[k_hook["id"]] = known_hits.get(k_hook["id"], 0) + 1
            return
        rep["failed"] = fails
        rep["events"] = evs
        report("%s called from %s (%s) of runtime.callcontext(%s): %s" %
               (d["expr"], {"site": "a " + kind + " handler/site", "coro": "a coroutine, shape " + kind}[fam], fails[0][0], c["ctxdef"], fails[0][1]), rep, d)

    for i, l in enumerate(outs):
        if i >= len(lines):
            break
        if i >= len(cases) + len(api_cases) + len(stress_cases) + len(site_cases):
            eval_acquire(acq_cases[i - len(cases) - len(api_cases) - len(stress_cases) - len(site_cases)], l, bytes.fromhex(lines[i].split(" ")[1]).decode())
            continue
        if i >= len(cases) + len(api_cases) + len(stress_cases):
            c = site_cases[i - len(cases) - len(api_cases) - len(stress_cases)]
            eval_site(c, l, bytes.fromhex(lines[i].split(" ")[1]).decode())
            continue
        if i >= len(cases) + len(api_cases):
            d, R, thread, cnt = stress_cases[i - len(cases) - len(api_cases)]
            src = bytes.fromhex(lines[i].split(" ")[1]).decode()
            ck.case("stress|%s|%d|%s|%d" % (d["expr"], R, thread, cnt), nontrivial=True)
            ck.count("form:stress-" + thread)
            f = l.split(" ")
            fields = {x[0]: x[2:] for x in f[2:] if len(x) > 1 and x[1] == ":"}
            evs = parse_trace(fields.get("T", "-")) if len(f) > 2 and f[1] == "ok" else []
            want = [["rej", "i%d" % cnt], ["after", True, "aaa"], ["after2", "12", "i2", "X"], ["ctx", "done", "fin"],
                    ["outside", True, "bb"], ["outside2", "7", "i3"]]
            if evs != want:
                bad = next((k for k in range(len(want)) if k >= len(evs) or evs[k] != want[k]), len(want))
                report("after %d flag-rejected calls of %s in one %s the context does not keep running: expected event %s, got %s (status %s)" %
                       (cnt, d["expr"], {"main": "thread", "coroutine": "coroutine", "pcall": "protected call"}[thread], want[bad] if bad < len(want) else "-",
                        evs[bad] if bad < len(evs) else (bytes.fromhex(fields["E"]).decode("utf-8", "replace")[:120] if fields.get("E", "-") != "-" else None), f[1] if len(f) > 1 else "?"),
                       {"kind": "Go!=S", "engine": "flags", "function": d["expr"], "go_function": d["go"], "required": R, "required_names": names(R),
                        "form": "stress-" + thread, "lua": src, "impl": l[:1500], "expected_events": want, "got_events": evs,
                        "theorem": "C08_blocked_call_is_invisible / C08_gate_blocks (state unchanged, incl. the Go call depth)"}, d)
            continue
        is_api = i >= len(cases)
        if is_api:
            d, R, blocked = api_cases[i - len(cases)]
            fm, ti = "goapi", 1
        else:
            d, R, fm, ti, blocked = cases[i]
        src = bytes.fromhex(lines[i].split(" ")[1]).decode()
        canon = "%s|%d|%s|%d" % (d["expr"], R, fm, ti)
        ck.case(canon, nontrivial=True)
        ck.count("form:" + fm)
        ck.count("required:%d" % bin(R).count("1") + "flags")
        ck.count("expect:" + ("blocked" if blocked else "admitted"))
        rep = {"kind": "Go!=S", "engine": "flags", "function": d["expr"], "go_function": d["go"], "declared": d["flags"],
               "required": R, "required_names": names(R), "form": fm, "args": TUPLES[ti], "lua": src, "impl": l[:1500]}
        f = l.split(" ")
        if len(f) < 2 or f[1] in ("CRASH", "HANG"):
            report("calling %s under flags '%s' (%s) %s the harness process" % (d["expr"], names(R), fm, "crashed" if "CRASH" in l else "hung"),
                   rep, d)
            continue
        status = f[1]
        fields = {x[0]: x[2:] for x in f[2:] if len(x) > 1 and x[1] == ":"}
        dg = fields.get("S")
        nchild = 0
        if dg and ",children=" in dg:
            dg, nc = dg.split(",children=")
            nchild = int(nc)
        if base_digest is None:
            base_digest = dg
        want = "missing flags: " + names(R & ~d["flags"])
        if is_api:
            msg = bytes.fromhex(fields.get("E", "-")).decode("utf-8", "replace") if fields.get("E", "-") != "-" else ""
            got_block = status == "error" and msg.endswith(want) and blocked
            spurious = status == "error" and "missing flags: " in msg and not blocked
            ctxst = fields.get("X", "-").split(",")[0]
            if blocked and not got_block:
                report("Go API: %s required '%s', declared '%s': expected the error '%s', got %s %r" % (d["expr"], names(R), names(d["flags"]), want, status, msg[:80]), rep, d)
            elif blocked and ctxst == "killed":
                report("Go API: context killed by a blocked call of %s" % d["expr"], rep, d)
            elif spurious:
                ck.count("admitted-but-inner-missing-flags")
            blocked_seen += blocked
            admitted_seen += (not blocked)
        else:
            evs = parse_trace(fields.get("T", "-"))
            if i in nested:
                ck.count("nested:outer=%s" % names(nested[i][0]).replace(" ", "+"))
                fl_ev = next((e for e in evs if e and e[0] == "flags"), None)
                ofl_ev = next((e for e in evs if e and e[0] == "outerflags"), None)
                rep["nested"] = {"outer": names(nested[i][0]), "inner_def": nested[i][1], "required_inside": names(R)}
                if status == "ok" and fl_ev is not None and fl_ev[1:] != [names(R)]:
                    report("inside runtime.callcontext(%s) nested in a context requiring '%s' the flags in force are '%s', expected '%s' (%s)" %
                           (nested[i][1], names(nested[i][0]), fl_ev[1] if len(fl_ev) > 1 else None, names(R), d["expr"]),
                           dict(rep, theorem="C08_gate_monotone_under_nesting"), d)
                elif status == "ok" and ofl_ev is not None and ofl_ev[1:] != [names(nested[i][0])]:
                    report("after a nested context the outer context requires '%s' instead of '%s' (%s)" %
                           (ofl_ev[1] if len(ofl_ev) > 1 else None, names(nested[i][0]), d["expr"]), dict(rep, theorem="C08_gate_monotone_under_nesting"), d)
            r_ev = next((e for e in evs if e and e[0] == "r"), None)
            alive = any(e[:2] == ["alive", "integer"] for e in evs)
            ctx_ev = next((e for e in evs if e and e[0] == "ctx"), None)
            if status != "ok" or ctx_ev is None:
                if blocked:
                    report("blocked call of %s under '%s' (%s) did not leave the program running: status %s" % (d["expr"], names(R), fm, status), rep, d)
                else:
                    ck.count("admitted:chunk-" + status)
                continue
            if fm == "direct":
                # the error escapes the function given to callcontext: ctx status error, x = message
                emsg = ctx_ev[2] if len(ctx_ev) > 2 else None
                got_block = ctx_ev[1] == "error" and isinstance(emsg, str) and emsg.endswith(want)
                is_missing = ctx_ev[1] == "error" and isinstance(emsg, str) and "missing flags: " in emsg
                alive_ok = ctx_ev[1] in ("error", "done")
            else:
                emsg = r_ev[2] if r_ev and len(r_ev) > 2 else None
                got_block = r_ev is not None and r_ev[1] is False and isinstance(emsg, str) and emsg.endswith(want)
                is_missing = r_ev is not None and r_ev[1] is False and isinstance(emsg, str) and "missing flags: " in emsg
                alive_ok = alive and ctx_ev[1] == "done"
            if blocked:
                blocked_seen += 1
                if not got_block:
                    report("%s requires '%s' but declared only '%s': expected the Lua error '%s' (%s call), got %r" %
                           (d["expr"], names(R), names(d["flags"]), want, fm, (r_ev, ctx_ev)), rep, d)
                elif not alive_ok:
                    report("context did not keep running after the blocked call of %s under '%s' (%s): %r" % (d["expr"], names(R), fm, (evs,)), rep, d)
            else:
                admitted_seen += 1
                if is_missing and emsg.endswith(want if (R & ~d["flags"]) else "\0"):
                    pass
                if is_missing:
                    # the function passed the gate but something it called through the gate did not
                    ck.count("admitted-but-inner-missing-flags")
                    m = re.search(r"missing flags: ([a-z ]*)$", emsg)
                    if m and not set(m.group(1).split()) <= set(names(R).split()):
                        report("error names flags that were not required: %r under '%s'" % (emsg, names(R)), rep, d)
        # sentinel: whatever the gate did, nothing outside may change while iosafe is required
        if (R & 4) and dg is not None and base_digest is not None and dg != base_digest:
            rep2 = dict(rep)
            rep2["sentinel"] = "changed"
            rep2["theorem"] = "C08_iosafe_functions_reach_no_sink"
            report("sentinel directory changed by %s(%s) in a context requiring iosafe (declared '%s', %s call)" %
                   (d["expr"], TUPLES[ti] if not is_api else "'canary'", names(d["flags"]), fm), rep2, d, known_ok=True)
            ck.count("sentinel-changed-under-iosafe")
        elif (R & 4) and nchild > 0:
            rep2 = dict(rep)
            rep2["child_processes"] = nchild
            rep2["theorem"] = "C08_iosafe_functions_reach_no_sink"
            report("%s(%s) started %d process(es) in a context requiring iosafe (declared '%s', %s call)" %
                   (d["expr"], TUPLES[ti] if not is_api else "'canary'", nchild, names(d["flags"]), fm), rep2, d, known_ok=True)
            ck.count("process-started-under-iosafe")
    if len(outs) < len(lines):
        ck.violation("gvh-flags stopped after %d of %d cases" % (len(outs), len(lines)), {"kind": "crash"}, no_input=True)
    ck.cov["blocked_cases"] = blocked_seen
    ck.cov["admitted_cases"] = admitted_seen
    ck.cov["violating_cases"] = nviol
    for ex in (0, len(cases) // 2, len(cases) - 1, len(lines) - 1):
        if 0 <= ex < len(outs):
            ck.sample({"lua": bytes.fromhex(lines[ex].split(" ")[1]).decode(), "extra": lines[ex].split(" ")[2:], "impl": outs[ex][:300]})

    ok_obl = f_obl.result()
    pool.shutdown()
    # ---------------- 4. static rows: the generated table is the input; each offending row is a failing input
    for r in static_known:
        k = known_by_go[r["go_name"]]
        ck.known_finding(k)
        if not known_hits.get(k["id"]):
            ck.notes.append("known finding %s: static path present but the dynamic witness did not change the sentinel this run" % k["id"])
    for r in static_bad[:10]:
        dynrows = [d for d in dyn if norm_go(d["go"]) == norm_go(r["go_name"])]
        ck.violation("function %s (%s, %s) is declared iosafe and reaches %s via %s" %
                     (r["go_name"], r["lua_name"], r["pos"], r["sink"], " -> ".join(r["path"])),
                     {"kind": "generated-table-row", "row": r, "theorem": "C08_iosafe_functions_reach_no_sink",
                      "dynamic": "see sentinel violations of this run for %s" % [d["expr"] for d in dynrows],
                      "coq": str(ck.cov.get("obligation_failure", ""))[-600:]})
    for u in (diag["unresolved"] or [])[:10]:
        ck.violation("translator could not resolve: " + u, {"kind": "translator-unresolved", "detail": u,
                                                            "theorem": "C08_translator_resolved_everything"}, no_input=True)
    if not ok_obl and not static_bad and not (diag["unresolved"] or []):
        ck.violation("proof obligations of C08 no longer check: " + str(ck.cov.get("obligation_failure", ""))[-300:],
                     {"kind": "proof", "theorem_file": PROP, "detail": ck.cov.get("obligation_failure")}, no_input=(nviol == 0))
    ck.cov["exhaustive"] = (tier == "thorough")
    return ck.finish(
        rule="every Go function found by walking _G / package.loaded / string, file, context metatables / iterator factories on the real runtime "
             "x all 16 subsets of {memsafe,cpusafe,iosafe,timesafe} (runtime.callcontext flags=...) x call forms "
             "(direct, pcall, coroutine.resume, coroutine.wrap, __call metamethod, load'ed code; + Go API CallContext) x argument tuples "
             "(%s: every form with no arguments + pcall with each of 8 edge tuples + 2 rotating forms; thorough: full product); "
             "distinct by (function, required, form, tuple); all are non-trivial (a real call is made)" % tier,
        trusted_base=TRUSTED,
        assumptions=["os.exit and golib.import are only called under flag sets that must block them",
                     "functions not reachable from Lua values of a fresh runtime (loadlua, golib value metamethods) are covered statically only",
                     "sinks = operations that acquire a file/dir entry/process/plugin/connection; use of already open handles (stdout, a file passed in) is not a sink"])


def replay(path, seed):
    r = json.load(open(path))
    ck = vlib.Check("C08", "quick", seed)
    gvh, _ = ck.build_gvh(pkg="./cmd/gvh-flags", name="gvh_flags", overlay=os.environ.get("VERIF_OVERLAY"))
    if "lua" in r:
        line = "r " + r["lua"].encode().hex()
        if r.get("form") == "goapi":
            line += " flags=%d" % r["required"]
        out = vlib.run_lines_resilient(gvh, ["run", os.path.join(ck.work, "sentinel")], [line])
        print("required:", r.get("required_names"), " declared:", names(r.get("declared", 0)))
        print(r["lua"])
        print("impl:", out[0] if out else None)
    else:
        print(json.dumps(r, indent=1)[:3000])
    return 0
