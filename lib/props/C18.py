# C18 — finalisers and resource release run exactly once, in order, inside their context.
#
#  proof obligations : coq/theories/Properties/C18.v (model GC/ClonePool.v, proofs GC/Proofs.v, GC/Theorems.v)
#  correspondence    : gvh-gc pool (real luagc.ClonePool through the verif hooks; goFinalizer invoked
#                      deterministically, runtime.SetFinalizer replaced by a recorder) vs oracle/gc
#                      (extracted model): returned values, SetFinalizer calls and panics after every call,
#                      whole internal state at the end of every history
#  property-level    : (a) an independent bookkeeping of "who is owed what" on the Go output of
#                      environment-valid histories; (b) Lua programs with logging __gc / ReleaseResources
#                      whose exact log is predicted from the property text
import itertools
import json
import os

from lib import vlib

PROP = ["Properties/C18.v"]
TRUSTED = [
    "Coq 8.16.1 kernel (coqc); vm_compute only in the _refuted witness and the Example",
    "no axioms (Print Assumptions: closed under the global context for every C18 theorem)",
    "extraction: ExtrOcamlBasic only; oracle/common/proto.ml + oracle/gc/driver.ml (glue), OCaml 4.13.1",
    "Go harness harness/cmd/gvh-gc/main.go; hooks /repo/runtime/verif_gc.go, /repo/runtime/internal/luagc/verif_gc.go",
    "Python generators/predicates in lib/props/C18.py",
    "modelled not verified: when Go's collector runs a finaliser (an event enabled only for unreachable, "
    "not-held, armed values); Go's sort.Sort, maps, mutex; UnsafePool (tag safepool) is observed only (C14)",
]
THEOREMS = ["C18_finalize_at_most_once", "C18_release_at_most_once", "C18_finalize_exactly_once_by_close",
            "C18_release_exactly_once_after_finalize", "C18_release_exactly_once_when_finalizer_kills", "C18_close_order_reverse_mark", "C18_extraction_order_unique",
            "C18_never_finalized_while_reachable", "C18_killed_context_skips_finalizers_not_releases",
            "C18_killed_context_releases_exactly_once", "C18_finalizer_runs_in_owning_context"]


# ------------------------------------------------------------------ pool histories

def op_str(o):
    return " ".join([o[0]] + [("%x" % x if isinstance(x, int) else x) for x in o[1:]])


def hist_str(ops):
    return ";".join(op_str(o) for o in ops)


def enum_alphabet():
    ops = []
    for k in (1, 2):
        for fl in (0, 1, 2, 3):
            ops.append(("M", k, fl))
        ops.append(("G", k))
    ops += [("PF",), ("PR",), ("AF",), ("AR",)]
    return ops


def rand_free(rng):
    """arbitrary call sequence (not environment-valid): for Go~IM only"""
    n = 2 + rng.geometric(10, 40)
    nk = 1 + rng.below(5)
    ops = []
    for _ in range(n):
        r = rng.below(100)
        if r < 40:
            fl = rng.choice([1, 1, 2, 3, 3, 3, 0, 4, 5, 7, 255])
            ops.append(("M", 1 + rng.below(nk), fl))
        elif r < 70:
            ops.append(("G", 1 + rng.below(nk)))
        elif r < 80:
            ops.append(("PF",))
        elif r < 88:
            ops.append(("PR",))
        elif r < 95:
            ops.append(("AF",))
        else:
            ops.append(("AR",))
    return ops


class World:
    """Independent statement of the environment and of what the runtime owes each value (python side of S)."""

    def __init__(self):
        self.dropped, self.held, self.armed = set(), set(), set()
        self.closed = False
        self.mark_time = {}      # key -> time of last marking
        self.flags = {}          # key -> flags of last marking
        self.fin = {}            # key -> finaliser calls since last marking
        self.rel = {}
        self.pending = set()     # keys whose Go finaliser fired and that PF has not returned since
        self.inreg = set()
        self.finflag = {}
        self.t = 0


def rand_world(rng):
    """environment-valid history: (ops, annotations) where ops are pool calls"""
    w = World()
    n = 3 + rng.geometric(14, 60)
    nk = 1 + rng.below(6)
    ops = []
    closing = False
    for _ in range(n):
        if w.closed:
            break
        r = rng.below(100)
        k = 1 + rng.below(nk)
        if r < 30:
            if k in w.dropped and k not in w.held:
                continue
            fl = rng.choice([1, 1, 2, 3, 3, 3])
            ops.append(("M", k, fl))
            if k not in w.inreg:
                w.armed.add(k)
            w.inreg.add(k)
            w.finflag[k] = (fl & 1) == 0
        elif r < 45:
            ops.append(("drop", k))
            w.dropped.add(k)
        elif r < 70:
            if k in w.dropped and k not in w.held and k in w.armed:
                ops.append(("G", k))
                w.armed.discard(k)
                if k in w.inreg:
                    if not w.finflag[k]:
                        w.finflag[k] = True
                        w.pending.add(k)
                    else:
                        w.inreg.discard(k)
        elif r < 80:
            ops.append(("PF",))
            w.held |= w.pending
            w.armed |= w.pending
            if rng.chance(1, 3):
                for x in list(w.pending):
                    if rng.chance(1, 2):
                        ops.append(("res", x))
                        w.dropped.discard(x)
            w.pending = set()
            if rng.chance(2, 3):
                ops.append(("finret",))
                w.held = set()
        elif r < 88:
            ops.append(("PR",))
        elif r < 92:
            ops.append(("finret",))
            w.held = set()
        elif r < 97 and w.pending and rng.chance(1, 2):
            # runPendingFinalizers in which the (j+1)-th finaliser terminates the context: rest of the batch dropped,
            # ExtractPendingRelease not reached, PopContext releases
            ops += [("PF", "kill", rng.below(len(w.pending) + 1)), ("AF", "discard"), ("AR",)]
            w.closed = True
        elif r < 97:
            # close of the owning context, normal exit: runFinalizers(AF); PopContext: AF (discarded); AR
            ops += [("AF",), ("finret",), ("AF", "discard"), ("AR",)]
            w.closed = True
        else:
            # killed context: PopContext only
            ops += [("AF", "discard"), ("AR",)]
            w.closed = True
    if not w.closed and rng.chance(3, 4):
        ops += [("AF",), ("finret",), ("AF", "discard"), ("AR",)]
    return ops


def world_valid(ops):
    """enabledness of the environment events (mirror of wstep's side conditions); used by the shrinker"""
    dropped, held, armed, inreg, finflag, pending = set(), set(), set(), set(), {}, set()
    closed = False
    for o in ops:
        t = o[0]
        if t == "M":
            k, fl = o[1], o[2]
            if closed or (k in dropped and k not in held) or fl == 0:
                return False
            if k not in inreg:
                armed.add(k)
            inreg.add(k)
            finflag[k] = (fl & 1) == 0
        elif t == "drop":
            dropped.add(o[1])
        elif t == "res":
            if o[1] not in held:
                return False
            dropped.discard(o[1])
        elif t == "finret":
            held = set()
        elif t == "G":
            k = o[1]
            if not (k in dropped and k not in held and k in armed):
                return False
            armed.discard(k)
            if k in inreg and not closed:
                if not finflag[k]:
                    finflag[k] = True
                    pending.add(k)
                else:
                    inreg.discard(k)
        elif t == "PF":
            if closed:
                return False
            held |= pending
            armed |= pending
            pending = set()
        elif t == "PR":
            if closed:
                return False
        elif t == "AF":
            if closed:
                return False
            if len(o) == 1:
                held |= {k for k in inreg if not finflag[k]} | pending
            for k in inreg:
                finflag[k] = True
            pending = set()
        elif t == "AR":
            if closed:
                return False
            closed = True
    return True


def shrink_world(ops, still_fails):
    """delta debugging on an environment-valid history: drop single events while the history stays valid and still fails"""
    ops = list(ops)
    changed = True
    while changed:
        changed = False
        for i in range(len(ops)):
            cand = ops[:i] + ops[i + 1:]
            if cand and world_valid(cand) and still_fails(cand):
                ops = cand
                changed = True
                break
    return ops


def shrink_free(ops, still_differs):
    ops = list(ops)
    changed = True
    while changed:
        changed = False
        for i in range(len(ops)):
            cand = ops[:i] + ops[i + 1:]
            if cand and still_differs(cand):
                ops = cand
                changed = True
                break
    return ops


def coq_crosscheck(ck, samples):
    """Re-evaluate sampled histories inside Coq (vm_compute on the model itself, no extraction, no OCaml driver)
    and compare with the lines the Go side produced.  samples: list of (pool ops, parsed outs)."""
    def cop(o):
        return {"M": lambda: "OMark %d %d" % (o[1], o[2]), "G": lambda: "OGoFin %d" % o[1], "PF": lambda: "OExtPF",
                "PR": lambda: "OExtPR", "AF": lambda: "OExtAF", "AR": lambda: "OExtAR"}[o[0]]()

    def cout(x):
        vals, calls, pan = x
        cs = [] if calls == "-" else ["(%d, %s)" % (int(c[:-1], 16), "true" if c[-1] == "+" else "false") for c in calls.split(",")]
        return "mkOut [%s] [%s] %s" % ("; ".join(str(v) for v in vals), "; ".join(cs), "true" if pan else "false")
    body = ["From Coq Require Import NArith List.", "From GV Require Import GC.ClonePool.", "Import ListNotations.", "Open Scope N_scope."]
    for j, (ops, outs) in enumerate(samples):
        body.append("Example c%d : run_ops pool0 [%s] = [%s].\nProof. vm_compute. reflexivity. Qed." %
                    (j, "; ".join(cop(o) for o in ops), "; ".join(cout(x) for x in outs)))
    d = os.path.join(ck.work, "coqcases")
    os.makedirs(d, exist_ok=True)
    with open(os.path.join(d, "Cases.v"), "w") as f:
        f.write("\n".join(body) + "\n")
    rc, so, se = vlib.sh(["coqc", "-R", os.path.join(vlib.COQ, "theories"), "GV", "Cases.v"], cwd=d, timeout=900)
    return rc == 0, (so + se)[-800:]


def rand_stack(rng):
    """history over a stack of pools: pushes (isolating/sharing), markings, collector callbacks on any pool, exits, close"""
    n = 4 + rng.geometric(18, 70)
    nk = 1 + rng.below(5)
    ops = []
    for _ in range(n):
        r = rng.below(100)
        k = 1 + rng.below(nk)
        if r < 14:
            ops.append("P1")
        elif r < 18:
            ops.append("P0")
        elif r < 48:
            ops.append("M %x %x" % (k, rng.choice([1, 1, 2, 3, 3, 3, 0])))
        elif r < 68:
            ops.append("G %x %x" % (rng.below(4), k))
        elif r < 78:
            ops.append("RP")
        elif r < 90:
            ops.append("X0")
        elif r < 96:
            ops.append("X1")
        else:
            ops.append("CL")
    if rng.chance(1, 2):
        ops.append("CL")
    return ops


def owner_predicate(events):
    """every F<h>:<k> / R<h>:<k> must be preceded by an M<h>:<k>:_ since the last P<h> (context h's own pool registered k)"""
    marked = {}
    for e in events:
        if e == "PANIC":
            return "Go panic"
        t, rest = e[0], e[1:]
        if t == "P":
            marked[int(rest)] = set()
        elif t == "M":
            h, k, _ = rest.split(":")
            marked.setdefault(int(h), set()).add(k)
        else:
            h, k = rest.split(":")
            if k not in marked.get(int(h), set()):
                return "%s: context %s ran a finaliser/release for key %s that was never marked in its pool" % (e, h, k)
    return None


def collect_program(rng):
    """Deterministic collector: the harness option mockgc=1 records the pools' runtime.SetFinalizer calls and the Lua
    global collect(v, ...) runs the recorded Go finalisers of its arguments (one batch).  Inside a limited context:
    release-only userdata, userdata with __gc and releaser, tables with __gc and at most one value whose finaliser
    kills the context; one or two batches; then the context ends (normally / by error) unless it was killed.
    Returns (source, exact expected log)."""
    items = []       # [name, kind(u|uf|t|K), gc log or None, releasable]
    src = ["local ctx = runtime.callcontext({kill={cpu=1000000}}, function()"]
    n = 2 + rng.below(6)
    killer_at = rng.below(n) if rng.chance(2, 3) else -1
    for i in range(n):
        if i == killer_at:
            src.append("  K = setmetatable({}, {__gc = function() log('gc:K') runtime.killcontext() end})")
            items.append(["K", "K", "l:gc:K", False])
            continue
        r = rng.below(3)
        nm = "v%d" % i
        if r == 0:
            src.append("  %s = mkud('%s')" % (nm, nm))
            items.append([nm, "u", None, True])
        elif r == 1:
            src.append("  %s = mkud('%s', gcmt('g%d'))" % (nm, nm, i))
            items.append([nm, "uf", "gc:g%d" % i, True])
        else:
            src.append("  %s = setmetatable({}, gcmt('g%d'))" % (nm, i))
            items.append([nm, "t", "gc:g%d" % i, False])
    order = {it[0]: i for i, it in enumerate(items)}
    finalised, released = set(), set()
    expect = []
    remaining = [it[0] for it in items]
    rng_shuffle = lambda l: sorted(l, key=lambda _: rng.next())
    nb = 1 + rng.below(2)
    killed = False
    byname = {it[0]: it for it in items}
    for b in range(nb):
        if not remaining:
            break
        batch = [x for x in rng_shuffle(remaining) if rng.chance(2, 3)]
        if b == nb - 1 and "K" in remaining and "K" not in batch:
            batch.append("K")         # a killer is always collected: its finaliser must not run at the context exit
        if not batch:
            continue
        remaining = [x for x in remaining if x not in batch]
        src.append("  collect(%s)" % ", ".join(batch))
        pf = sorted([x for x in batch if byname[x][2]], key=lambda x: -order[x])
        pr = sorted([x for x in batch if byname[x][1] == "u"], key=lambda x: -order[x])
        for x in pf:
            expect.append(byname[x][2])
            finalised.add(x)
            if x == "K":
                killed = True
                break
        if killed:
            break
        for x in pr:
            expect.append("rel:" + x)
            released.add(x)
        src.append("  log('after%d')" % b)
        expect.append("l:after%d" % b)
    how = "ok"
    if not killed:
        how = rng.choice(["ok", "ok", "error"])
        if how == "error":
            src.append("  error('boom')")
        for it in reversed(items):
            if it[2] and it[0] not in finalised:
                expect.append(it[2])
    for it in reversed(items):
        if it[3] and it[0] not in released:
            expect.append("rel:" + it[0])
    src.append("end)")
    src.append("log(ctx.status)")
    expect.append("l:" + ("killed" if killed else {"ok": "done", "error": "error"}[how]))
    expect.append("close")
    return "\n".join(src) + "\n", expect


ENDINGS = [("return", "return 1", "done"), ("error string", "error('boom')", "error"), ("error table", "error({code = 7})", "error"),
           ("runtime error", "local z = nil z.x = 1", "error")]


def ending_program(rng):
    """a cpu-limited context left by return / error string / error table / runtime error while marked values are pending,
    with or without a finaliser that needs more cpu than the context has left: the exit finalisers run INSIDE the context —
    metered and stopped by its limit (status killed, the finalisers after the heavy one skipped, releases made, cpu used
    below the limit) — whatever way the body ended"""
    limit = rng.choice([20000, 50000])
    n = 2 + rng.below(5)
    heavy_at = rng.below(n) if rng.chance(2, 3) else -1
    items = []
    src = ["local ctx = runtime.callcontext({kill={cpu=%d}}, function()" % limit]
    for i in range(n):
        if i == heavy_at:
            src.append("  H = setmetatable({}, {__gc = function() log('gc:heavy') for i = 1, 10000000 do end log('heavy finished') end})")
            items.append(["H", "l:gc:heavy", False])
        elif rng.chance(1, 2):
            src.append("  v%d = setmetatable({}, gcmt('g%d'))" % (i, i))
            items.append(["v%d" % i, "gc:g%d" % i, False])
        elif rng.chance(1, 2):
            src.append("  v%d = mkud('v%d', gcmt('g%d'))" % (i, i, i))
            items.append(["v%d" % i, "gc:g%d" % i, True])
        else:
            src.append("  v%d = mkud('v%d')" % (i, i))
            items.append(["v%d" % i, None, True])
    name, stmt, st = rng.choice(ENDINGS)
    src.append("  " + stmt)
    src.append("end)")
    src.append("log(ctx.status)")
    src.append("log(tostring(ctx.used.cpu < %d))" % limit)
    expect = []
    killed = False
    for it in reversed(items):
        if it[1]:
            expect.append(it[1])
            if it[0] == "H":
                killed = True
                break
    expect.extend("rel:" + it[0] for it in reversed(items) if it[2])
    expect += ["l:" + ("killed" if killed else st), "l:true", "close"]
    return "\n".join(src) + "\n", expect


def pool_ops(ops):
    return [o[:1] if o[0] in ("PF", "PR", "AF", "AR") else o for o in ops if o[0] in ("M", "G", "PF", "PR", "AF", "AR")]


def parse_pool_out(line):
    body = line.split(" ", 1)[1]
    j = body.rfind("S:")
    res, state = body[:j].strip(), body[j + 2:]
    outs = []
    for r in (res.split("/") if res else []):
        vals, calls, pan = r.split("|")
        outs.append(([] if vals == "-" else [int(x, 16) for x in vals.split(",")], calls, pan == "1"))
    return outs, state


def world_predicates(ops, outs):
    """C18 stated on the Go output of an environment-valid history.  Returns (failures, known_class_failures)."""
    fails, known = [], []
    mark_time, flags, fin, rel = {}, {}, {}, {}
    pending_at = set()     # keys whose Go finaliser fired since their last PF (the defect class)
    finflag, inreg = {}, set()
    dropped, held = set(), set()
    t = 0
    i = 0
    killed_exit = False
    for o in ops:
        if o[0] == "drop":
            dropped.add(o[1])
            continue
        if o[0] == "res":
            dropped.discard(o[1])
            continue
        if o[0] == "finret":
            held = set()
            continue
        vals, calls, pan = outs[i]
        i += 1
        if pan:
            fails.append("op %d (%s): Go panic" % (i - 1, o[0]))
        if o[0] == "M":
            k, fl = o[1], o[2]
            t += 1
            mark_time[k], flags[k], fin[k], rel[k] = t, fl, 0, 0
            inreg.add(k)
            finflag[k] = (fl & 1) == 0
        elif o[0] == "G":
            k = o[1]
            if k in inreg:
                if not finflag[k]:
                    finflag[k] = True
                    pending_at.add(k)
                else:
                    inreg.discard(k)
        elif o[0] in ("PF", "AF"):
            discard = len(o) > 1 and o[0] == "AF"
            # order: reverse order of (last) marking
            times = [mark_time.get(k, 0) for k in vals]
            if any(a <= b for a, b in zip(times, times[1:])):
                fails.append("op %d (%s): values not in reverse order of marking: %s" % (i - 1, o[0], vals))
            ran = vals
            if o[0] == "PF" and len(o) > 1:
                discard = False
                ran = vals[:o[2] + 1]          # the finalisers that were called before / when the context was terminated
            for k in ran:
                if o[0] == "PF" and (k not in dropped or k in held):
                    fails.append("op %d: key %x handed to its finaliser while reachable" % (i - 1, k))
                if not discard:
                    fin[k] = fin.get(k, 0) + 1
                    if fin[k] > 1:
                        fails.append("op %d: key %x finalised twice since its last marking" % (i - 1, k))
                    if rel.get(k, 0) > 0:
                        fails.append("op %d: key %x finalised after its release" % (i - 1, k))
                    held.add(k)
                elif not killed_exit and False:
                    pass
            if o[0] == "PF":
                pending_at -= set(vals)
            if o[0] == "AF" and not discard:
                # exactly once by close: every key whose last marking asked for a finaliser
                for k, fl in flags.items():
                    if fl & 1 and fin.get(k, 0) != 1:
                        msg = "close: key %x (marked with Finalize) finalised %d times" % (k, fin.get(k, 0))
                        if fin.get(k, 0) == 0 and k in pending_at:
                            known.append(msg)
                        else:
                            fails.append(msg)
                pending_at = set()
        elif o[0] in ("PR", "AR"):
            times = [mark_time.get(k, 0) for k in vals]
            if any(a <= b for a, b in zip(times, times[1:])):
                fails.append("op %d (%s): releases not in reverse order of marking: %s" % (i - 1, o[0], vals))
            for k in vals:
                rel[k] = rel.get(k, 0) + 1
                if rel[k] > 1:
                    fails.append("op %d: key %x released twice since its last marking" % (i - 1, k))
                if o[0] == "PR" and k not in dropped:
                    fails.append("op %d: key %x released while reachable" % (i - 1, k))
            if o[0] == "AR":
                for k, fl in flags.items():
                    if fl & 2 and rel.get(k, 0) != 1:
                        fails.append("close: key %x (marked with Release) released %d times" % (k, rel.get(k, 0)))
    return fails, known


# ------------------------------------------------------------------ Lua programs

# a value with both __close and __gc; its __close handler marks a new value ("late:<n>")
BOTH_PRELUDE = ("local function both(n) local mt = gcmt(n) mt.__close = function() log('close:' .. n) "
                "_G['late_' .. n] = setmetatable({}, gcmt('late:' .. n)) end local v = setmetatable({}, mt) _G['keep_' .. n] = v return v end")


# (has its own finaliser pool?, opening text up to "function()", text after "end)")
CTX_FORMS = []
for _cpu in (0, 1):
    for _mem in (0, 1):
        for _ms in (0, 1):
            if _cpu or _mem or _ms:
                lim = ", ".join(x for x in (("cpu=10000000" if _cpu else ""), ("memory=100000000" if _mem else ""), ("millis=100000" if _ms else "")) if x)
                CTX_FORMS.append((True, "runtime.callcontext({kill={%s}}, function()" % lim, ".status"))
CTX_FORMS += [
    (True, "gcctx('isolate', function()", ""),
    (True, "gcctx('isolate', function()", ""),
    (False, "gcctx('share', function()", ""),
    (False, "runtime.callcontext({stop={cpu=10000000}}, function()", ".status"),
    (False, "runtime.callcontext({flags='cpusafe'}, function()", ".status"),
]


def lua_program(rng):
    """A deterministic program (no collector involved: everything stays reachable through globals)
    and the exact log the property prescribes."""
    src = [BOTH_PRELUDE]
    expect = []
    counter = [0]

    def fresh(prefix):
        counter[0] += 1
        return "%s%d" % (prefix, counter[0])

    def body(depth, pool, indent):
        # pool: list of [name, kind, gcname or None, releasable] in marking order (re-marking moves to the end)
        n = 1 + rng.below(4)
        for _ in range(n):
            r = rng.below(100)
            if r < 35:
                v = fresh("t")
                g = fresh("g")
                src.append("%s%s = setmetatable({}, gcmt('%s'))" % (indent, v, g))
                pool.append([v, "t", g, False])
            elif r < 55:
                v = fresh("u")
                if rng.chance(2, 3):
                    g = fresh("g")
                    src.append("%s%s = mkud('%s', gcmt('%s'))" % (indent, v, v, g))
                    pool.append([v, "u", g, True])
                else:
                    src.append("%s%s = mkud('%s')" % (indent, v, v))
                    pool.append([v, "u", None, True])
            elif r < 70 and [e for e in pool if e[1] != "c"]:
                # re-mark a value of THIS pool
                e = rng.choice([e for e in pool if e[1] != "c"])
                if e[1] == "t" and rng.chance(1, 3):
                    # same metatable again: still a re-marking (the value moves to the front of the close order)
                    src.append("%ssetmetatable(%s, getmetatable(%s))" % (indent, e[0], e[0]))
                    pool.remove(e)
                    pool.append(e)
                    continue
                g = fresh("g")
                src.append("%ssetmetatable(%s, gcmt('%s'))" % (indent, e[0], g) if e[1] == "t"
                           else "%sdebug.setmetatable(%s, gcmt('%s'))" % (indent, e[0], g))
                pool.remove(e)
                e[2] = g
                pool.append(e)
            elif r < 90 and depth < 2:
                kind = rng.choice(["ok", "ok", "error", "error", "kill"])
                # which kind of context: every non-empty subset of the hard limits {cpu, memory, millis} and the explicit
                # GC policy give the context its own finaliser pool; soft limits, flags or the sharing policy do not
                form = rng.choice(CTX_FORMS)
                isolating = form[0]
                inner = [] if isolating else pool
                src.append("%sdo local st = %s" % (indent, form[1]))
                # to-be-closed locals holding values with both __close and __gc, pending when the context is left
                tbc = []
                for _ in range(rng.choice([0, 0, 1, 2, 3])):
                    c = fresh("c")
                    src.append("%s  local %s <close> = both('%s')" % (indent, c, c))
                    inner.append([c, "c", c, False])
                    tbc.append(c)
                body(depth + 1, inner, indent + "  ")
                if kind == "error":
                    src.append("%s  %s" % (indent, rng.choice(["error('boom')", "error('boom')", "error({code = 7})", "local z = nil z.x = 1"])))
                elif kind == "kill":
                    src.append("%s  runtime.killcontext()" % indent)
                src.append("%send)%s log(st) end" % (indent, form[2]))
                if kind != "kill":
                    # the pending __close handlers run first (reverse order of declaration), each marking a new value;
                    # only then the context's finalisers, the values just closed included
                    for c in reversed(tbc):
                        expect.append("l:close:" + c)
                        inner.append(["-", "c", "late:" + c, False])
                    if isolating:
                        expect.extend("gc:" + e[2] for e in reversed(inner) if e[2])
                if isolating:
                    expect.extend("rel:" + e[0] for e in reversed(inner) if e[3])
                expect.append("l:" + {"ok": "done", "error": "error", "kill": "killed"}[kind])
            elif r < 95 and depth == 0:
                # everything is reachable through globals: forcing the collector must not finalise anything
                src.append("collectgarbage()")
            else:
                m = fresh("m")
                src.append("%slog('%s')" % (indent, m))
                expect.append("l:" + m)

    root = []
    body(0, root, "")
    expect.append("close")
    expect.extend("gc:" + e[2] for e in reversed(root) if e[2])
    expect.extend("rel:" + e[0] for e in reversed(root) if e[3])
    return "\n".join(src) + "\n", expect


LUA_FIXED = [
    # (name, source, options, expected log or None, kind)
    ("remark-order", "a = setmetatable({}, gcmt('a'))\nb = setmetatable({}, gcmt('b'))\nsetmetatable(a, gcmt('a2'))\n", "",
     ["close", "gc:a2", "gc:b"]),
    ("resurrect-on-close", "keep = nil\na = setmetatable({}, {__gc = function(x) log('gc:a') keep = x end})\n", "",
     ["close", "l:gc:a"]),
    ("gc-error-does-not-stop-others", "a = setmetatable({}, gcmt('a'))\nb = setmetatable({}, {__gc = function() error('x') end})\nc = setmetatable({}, gcmt('c'))\n", "",
     ["close", "gc:c", "gc:a"]),
    # finalisers of values created in a limited context run inside it and are charged to it
    ("charged-to-owning-context", "local function run(work)\n  local ctx = runtime.callcontext({kill={cpu=1000000}}, function()\n"
     "    x = setmetatable({}, {__gc=function() for i=1,work do end log('gc') end})\n  end)\n  return ctx.used.cpu\nend\n"
     "local a, b = run(10), run(10000)\nlog(tostring(b - a >= 9000))\n", "",
     ["l:gc", "l:gc", "l:true", "close"]),
    # a finaliser that exhausts its context's budget kills that context, not the host; releases still happen
    ("finalizer-overruns-budget", "local ctx = runtime.callcontext({kill={cpu=5000}}, function()\n"
     "  u = mkud('u', {__gc=function() log('gc-start') while true do end end})\nend)\nlog(ctx.status)\n", "",
     ["l:gc-start", "rel:u", "l:killed", "close"]),
    # replacing the metatable by one without __gc (or by nil) un-marks the value: the old finaliser must not run (Lua 5.4)
    ("metatable-replaced", "a = setmetatable({}, gcmt('a'))\nsetmetatable(a, {})\nb = setmetatable({}, gcmt('b'))\nsetmetatable(b, nil)\n"
     "c = setmetatable({}, gcmt('c'))\nsetmetatable(c, gcmt('c2'))\nu = mkud('u', gcmt('gu'))\ndebug.setmetatable(u, {})\n", "",
     ["close", "gc:c2", "rel:u"]),
    # to-be-closed values that also have __gc, pending when a limited context is left: __close before __gc (never
    # finalised while still reachable), values marked by the handlers are finalised too; a killed context runs neither
    ("tbc-gc-error-exit", BOTH_PRELUDE + "\nlocal ctx = runtime.callcontext({kill={cpu=100000}}, function()\n  local a <close> = both('a')\n"
     "  local b <close> = both('b')\n  log('body')\n  error('boom')\nend)\nlog(ctx.status)\n", "",
     ["l:body", "l:close:b", "l:close:a", "gc:late:a", "gc:late:b", "gc:b", "gc:a", "l:error", "close"]),
    ("tbc-gc-normal-exit", BOTH_PRELUDE + "\nlocal ctx = runtime.callcontext({kill={cpu=100000}}, function()\n  local a <close> = both('a')\n"
     "  local b <close> = both('b')\n  log('body')\n  return 1\nend)\nlog(ctx.status)\n", "",
     ["l:body", "l:close:b", "l:close:a", "gc:late:a", "gc:late:b", "gc:b", "gc:a", "l:done", "close"]),
    ("tbc-gc-kill", BOTH_PRELUDE + "\nlocal ctx = runtime.callcontext({kill={cpu=100000}}, function()\n  local a <close> = both('a')\n"
     "  log('body')\n  runtime.killcontext()\nend)\nlog(ctx.status)\n", "",
     ["l:body", "l:killed", "close"]),
    # setmetatable with the metatable the table already has still (re-)marks: __gc added to the metatable after it was
    # first set; re-marking changes the reverse-marking order; a finaliser re-arming its own argument gets a second call
    ("same-metatable-late-gc", "local mt = {}\nt = setmetatable({}, mt)\nmt.__gc = gcmt('late').__gc\nsetmetatable(t, mt)\n", "",
     ["close", "gc:late"]),
    ("same-metatable-reorders", "local m1, m2 = gcmt('a'), gcmt('b')\na = setmetatable({}, m1)\nb = setmetatable({}, m2)\nsetmetatable(a, m1)\n", "",
     ["close", "gc:a", "gc:b"]),
    ("rearm-in-finalizer", "local done = false\nlocal mt\nmt = {__gc = function(x) log('gc:r') if not done then done = true keep = x setmetatable(x, mt) end end}\n"
     "do local r = setmetatable({}, mt) end\nlocal n = 0\nwhile not done and n < 3000000 do local f = function() return {n} end f() n = n + 1 end\n"
     "log(tostring(done))\n", "",
     ["l:gc:r", "l:true", "close", "l:gc:r"]),
    # memory as the ONLY hard limit: own pool all the same — finalisers at exit, charged to it, skipped when it is killed
    # by memory (not run afterwards, outside, either), releases still made
    ("memory-only-exit", "local st = runtime.callcontext({kill={memory=1000000}}, function()\n  t = setmetatable({}, gcmt('t'))\n  u = mkud('u', gcmt('gu'))\n"
     "  log('body')\nend).status\nlog(st)\n", "",
     ["l:body", "gc:gu", "gc:t", "rel:u", "l:done", "close"]),
    ("memory-only-killed", "local st = runtime.callcontext({kill={memory=100000}}, function()\n  t = setmetatable({}, gcmt('t'))\n  u = mkud('u', gcmt('gu'))\n"
     "  local s = {}\n  for i = 1, 1000000 do s[i] = {i} end\n  log('not reached')\nend).status\nlog(st)\n", "",
     ["rel:u", "l:killed", "close"]),
    ("memory-only-charged", "local function run(work)\n  local ctx = runtime.callcontext({kill={memory=10000000}}, function()\n"
     "    x = setmetatable({}, {__gc=function() local t = {} for i=1,work do t[i] = i end log('gc') end})\n  end)\n  return ctx.used.memory\nend\n"
     "local a, b = run(10), run(10000)\nlog(tostring(b - a >= 50000))\n", "",
     ["l:gc", "l:gc", "l:true", "close"]),
    ("millis-only-exit", "local st = runtime.callcontext({kill={millis=100000}}, function()\n  t = setmetatable({}, gcmt('t'))\n  u = mkud('u')\nend).status\nlog(st)\n", "",
     ["gc:t", "rel:u", "l:done", "close"]),
    # Runtime.Close with a killed context on the runtime itself (what the CLI's -cpulimit does): finalisers skipped, releases made
    ("root-killed-close", "x = setmetatable({}, {__gc = function() log('gc:x:' .. runtime.context().status) for i = 1, 100000 do end end})\n"
     "u = mkud('u', gcmt('gu'))\nwhile true do end\n", "rootcpu=100000",
     ["terminated", "root:killed", "close", "rel:u"]),
    ("root-live-close", "x = setmetatable({}, gcmt('x'))\nu = mkud('u', gcmt('gu'))\nlog('fine')\n", "rootcpu=100000",
     ["l:fine", "root:live", "close", "gc:gu", "gc:x", "rel:u"]),
    ("nested-ctx", "runtime.callcontext({kill={cpu=100000}}, function()\n a = setmetatable({}, gcmt('a'))\n runtime.callcontext({kill={cpu=10000}}, function() b = mkud('b', gcmt('b')) end)\n log('mid')\nend)\nlog('out')\n", "",
     ["gc:b", "rel:b", "l:mid", "gc:a", "l:out", "close"]),
]


# witnesses of recorded defects: (name, source, options, log the property prescribes, finding id, log / status observed on the recorded tree)
LUA_KNOWN = [
    ("double-release-after-escape", "local st = runtime.callcontext({kill={cpu=100000}}, function() u = mkud('u') end).status\nlog(st)\n"
     "debug.setmetatable(u, gcmt('g'))\n", "",
     ["rel:u", "l:done", "close", "gc:g"], "C18-double-release-after-escape", ("ok", ["rel:u", "l:done", "close", "gc:g", "rel:u"])),
    ("userdata-same-go-value", "a, b = mkpair('p', gcmt('p'))\nlog('made')\n", "",
     ["l:made", "close", "gc:p", "gc:p", "rel:p", "rel:p"], "C18-userdata-sharing-go-value-share-pool-entry", ("ok", ["l:made", "close", "gc:p", "rel:p"])),
    ("userdata-unhashable-go-value", "local ok = pcall(mkraw, gcmt('r'))\nlog(tostring(ok))\n", "",
     ["l:true", "close", "gc:r"], "C18-marked-userdata-with-unhashable-go-value-panics", ("gopanic", [])),
]


def lua_line(cid, src, opts=""):
    return ("%s %s %s" % (cid, src.encode().hex(), opts)).strip()


def parse_lua_out(line):
    f = line.split(" ")
    if len(f) >= 2 and f[1] in ("CRASH", "HANG"):
        err = ""
        if f[1] == "CRASH" and len(f) > 3 and f[3] != "-":
            try:
                err = bytes.fromhex(f[3]).decode("utf-8", "replace")
            except ValueError:
                err = ""
        return f[1], [], err
    status = f[1]
    log = [] if f[2] == "L:-" else f[2][2:].split(";")
    err = "" if f[3] == "E:-" else bytes.fromhex(f[3][2:]).decode("utf-8", "replace")
    return status, log, err


def run(tier, seed):
    ck = vlib.Check("C18", tier, seed, level="proof")
    ok_obl = ck.obligations(PROP, clean=False)
    if tier == "thorough" and ok_obl:
        if not ck.coqchk(["GV.Properties.C18"]):
            ok_obl = False
            ck.cov["obligation_failure"] = "coqchk rejects Properties/C18.vo: " + str(ck.cov.get("coqchk", {}).get("tail", ""))[-300:]
    gvh, err = ck.build_gvh(pkg="./cmd/gvh-gc", name="gvh-gc_verif", overlay=os.environ.get("VERIF_OVERLAY"))
    if gvh is None:
        ck.violation("gc harness does not build against /repo", {"kind": "build", "stderr": err[-3000:]}, no_input=True)
        return ck.finish("n/a", TRUSTED, [])
    oracle = ck.build_oracle("gc")
    if oracle is None:
        ck.violation("oracle (extracted model) does not build", {"kind": "build"}, no_input=True)
        return ck.finish("n/a", TRUSTED, [])
    rng = ck.rng

    # ---------------- pool histories
    cases = []      # (kind, annotated ops)
    corpus = os.path.join(vlib.VERIF, "corpus", "C18")
    if os.path.isdir(corpus):
        for fn in sorted(os.listdir(corpus)):
            for l in open(os.path.join(corpus, fn)):
                l = l.strip()
                if l and not l.startswith("#"):
                    cases.append(("corpus", [tuple([t.split()[0]] + [int(x, 16) for x in t.split()[1:]]) for t in l.split(";") if t.strip()]))
    # the recorded witness of the known finding, replayed on every run
    witness = [("M", 1, 1), ("M", 2, 1), ("drop", 1), ("G", 1), ("AF",), ("finret",), ("AF", "discard"), ("AR",)]
    cases.append(("world", witness))
    alpha = enum_alphabet()
    depth = 4 if tier == "quick" else 5
    nenum = 0
    for d in range(1, depth + 1):
        for h in itertools.product(alpha, repeat=d):
            cases.append(("enum", list(h)))
            nenum += 1
    nfree = 50000 if tier == "quick" else 600000
    nworld = 100000 if tier == "quick" else 1200000
    for _ in range(nfree):
        cases.append(("free", rand_free(rng)))
    for _ in range(nworld):
        cases.append(("world", rand_world(rng)))
    ck.log("pool histories: enumerated %d (depth<=%d over %d ops), free %d, environment-valid %d" % (nenum, depth, len(alpha), nfree, nworld))
    lines = ["h%d %s" % (i, hist_str(pool_ops(ops))) for i, (_, ops) in enumerate(cases)]
    rc1, impl, e1 = vlib.run_lines(gvh, ["pool"], lines, timeout=1800)
    rc2, model, e2 = vlib.run_lines(oracle, [], lines, timeout=1800)
    if rc1 != 0 or len(impl) != len(lines):
        ck.violation("gvh-gc pool crashed or produced %d/%d lines" % (len(impl), len(lines)),
                     {"kind": "crash", "stderr": e1[-2000:], "last_line": lines[min(len(impl), len(lines) - 1)]})
    if rc2 != 0 or len(model) != len(lines):
        ck.violation("oracle crashed (%d/%d lines)" % (len(model), len(lines)), {"kind": "oracle-crash", "stderr": e2[-2000:]}, no_input=True)
    ndiff, first_diffs, pred_fail, known_hits = 0, [], 0, 0
    kf = ck.known_match(lambda k: k.get("id") == "C18-pending-finalizer-dropped-on-extract-all")
    for i, (kind, ops) in enumerate(cases):
        if i >= len(impl):
            break
        outs, state = parse_pool_out(impl[i])
        nontriv = any(v for v, _, _ in outs)
        ck.case(lines[i].split(" ", 1)[1], nontriv)
        ck.count("history:" + kind)
        for o in ops:
            ck.count("op:" + o[0])
        if any(p for _, _, p in outs):
            ck.count("outcome:panic(mark after release-all)")
        if kind == "world":
            fails, known = world_predicates(ops, outs)
            if known:
                if kf is not None:
                    known_hits += 1
                    ck.known_finding(kf)
                    ck.count("known:pending-finalizer-dropped")
                else:
                    fails = fails + known
            if fails:
                pred_fail += 1
                if pred_fail <= 3:
                    def still(cand):
                        r, out, _ = vlib.run_lines(gvh, ["pool"], ["x " + hist_str(pool_ops(cand))], timeout=60)
                        return r == 0 and out and bool(world_predicates(cand, parse_pool_out(out[0])[0])[0])
                    small = shrink_world(ops, still) if len(ops) <= 80 else ops
                    r, out, _ = vlib.run_lines(gvh, ["pool"], ["x " + hist_str(pool_ops(small))], timeout=60)
                    sf = world_predicates(small, parse_pool_out(out[0])[0])[0] if out else fails
                    ck.violation("finaliser property fails on the implementation: " + (sf[0] if sf else fails[0]),
                                 {"kind": "Go!=S", "engine": "gc/pool", "history": hist_str(small), "original_history": hist_str(ops),
                                  "impl": out[0] if out else impl[i], "failed_predicates": sf or fails, "theorems": THEOREMS})
        if i < len(model) and impl[i] != model[i]:
            ndiff += 1
            if len(first_diffs) < 3:
                first_diffs.append(i)
    # the witness must still fail (otherwise the model is stale)
    widx = next(i for i, (k, o) in enumerate(cases) if o is witness)
    if widx < len(impl):
        _, wknown = world_predicates(witness, parse_pool_out(impl[widx])[0])
        ck.cov["known_witness_still_fails"] = bool(wknown)
        if kf is not None and not wknown:
            ck.violation("recorded witness of C18-pending-finalizer-dropped-on-extract-all no longer fails: the model GC/ClonePool.v is stale (Go≈IM/gc)",
                         {"kind": "Go!=IM", "correspondence": "Go≈IM/gc", "history": hist_str(witness), "impl": impl[widx],
                          "theorems_no_longer_about_this_code": ["C18_finalize_exactly_once_by_close_refuted"]}, no_input=True)
    for i in (0, nenum // 2, len(cases) - nworld - 1, len(cases) - 1):
        if 0 <= i < len(impl):
            ck.sample({"history": hist_str(cases[i][1]), "impl": impl[i].split(" ", 1)[1][:300]})

    # ---------------- stack of per-context pools
    nstack = 20000 if tier == "quick" else 300000
    sh = [rand_stack(rng) for _ in range(nstack)]
    sh[0] = ["M 1 1", "P1", "M 1 1", "M 2 3", "X0", "CL"]
    slines = ["k%d %s" % (i, ";".join(o)) for i, o in enumerate(sh)]
    rc1, simpl, e1 = vlib.run_lines(gvh, ["stack"], slines, timeout=1800)
    rc2, smodel, e2 = vlib.run_lines(oracle, ["stack"], slines, timeout=1800)
    if rc1 != 0 or len(simpl) != len(slines):
        ck.violation("gvh-gc stack crashed or produced %d/%d lines" % (len(simpl), len(slines)),
                     {"kind": "crash", "stderr": e1[-2000:], "last_line": slines[min(len(simpl), len(slines) - 1)]})
    sdiff, sfirst, sfail = 0, None, 0
    for i, l in enumerate(slines):
        if i >= len(simpl):
            break
        evs = simpl[i].split(" ")[1]
        evl = [] if evs == "-" else evs.split(",")
        ck.case("stack:" + l.split(" ", 1)[1], any(e[0] in "FR" for e in evl))
        ck.count("history:stack")
        ck.count("stack-maxdepth:%d" % max([1] + [int(e[1:]) for e in evl if e[0] == "P"]))
        bad = owner_predicate(evl)
        if bad:
            sfail += 1
            pred_fail += 1
            if sfail <= 2:
                ck.violation("owning-context property fails on the implementation: " + bad,
                             {"kind": "Go!=S", "engine": "gc/stack", "history": l.split(" ", 1)[1], "impl": simpl[i],
                              "theorems": ["C18_finalizer_runs_in_owning_context"]})
        if i < len(smodel) and simpl[i] != smodel[i]:
            sdiff += 1
            if sfirst is None:
                sfirst = i
    if sdiff:
        ndiff += sdiff
        if not first_diffs:
            ck.cov["first_stack_difference"] = {"history": slines[sfirst], "impl": simpl[sfirst], "model": smodel[sfirst]}
    ck.cov["stack_differences"] = sdiff
    if simpl:
        ck.sample({"stack_history": slines[0].split(" ", 1)[1], "impl": simpl[0].split(" ", 1)[1]})

    # ---------------- extraction cross-check: sampled histories re-evaluated inside Coq
    nx = 40 if tier == "quick" else 600
    picks = [rng.below(len(cases)) for _ in range(nx)] + [widx]
    xs = []
    for i in picks:
        if i < len(impl) and len(cases[i][1]) <= 60:
            xs.append((pool_ops(cases[i][1]), parse_pool_out(impl[i])[0]))
    okx, xmsg = coq_crosscheck(ck, xs)
    ck.cov["coq_crosscheck_cases"] = len(xs)
    ck.cov["coq_crosscheck_ok"] = okx
    if not okx and not ndiff:
        ck.violation("extraction cross-check failed: the Coq model evaluated by vm_compute disagrees with the Go output on a sampled history "
                     "although the extracted oracle agreed", {"kind": "trusted-base", "detail": xmsg}, no_input=True)

    # ---------------- Lua level
    lua_cases = []   # (id, name, src, opts, expect)
    for name, src, opts, expect in LUA_FIXED:
        lua_cases.append((name, src, opts, expect, "fixed"))
    for name, src, opts, expect, fid, seen in LUA_KNOWN:
        lua_cases.append((name, src, opts, (expect, fid, seen), "knownw"))
    nlua = 2000 if tier == "quick" else 20000
    for j in range(nlua):
        src, expect = lua_program(rng)
        lua_cases.append(("gen%d" % j, src, "", expect, "generated"))
    # deterministic collector (mockgc): batches of pending work inside limited contexts, incl. a finaliser that kills its context
    ncol = 300 if tier == "quick" else 6000
    for j in range(ncol):
        src, expect = collect_program(rng)
        lua_cases.append(("collect%d" % j, src, "mockgc=1", expect, "generated"))
    nend = 120 if tier == "quick" else 3000
    for j in range(nend):
        src, expect = ending_program(rng)
        lua_cases.append(("ending%d" % j, src, "", expect, "generated"))
    # collector-dependent programs: multiset checks only
    gc_src = ("local names = {}\nfor i = 1, 20 do local t = setmetatable({}, gcmt('d' .. i)) end\n"
              "for i = 1, 5 do _G['k' .. i] = setmetatable({}, gcmt('k' .. i)) end\n"
              "for i = 1, 3 do collectgarbage() end\nlog('after')\nfor i = 1, 200 do local x = {} end\ncollectgarbage()\n")
    lua_cases.append(("collect", gc_src, "", None, "gc"))
    # witness of the known finding at the Lua level: dropped value, collector runs, then Close
    lost_src = "do local t = setmetatable({}, gcmt('lost')) end\nkeep = setmetatable({}, gcmt('keep'))\n"
    lua_cases.append(("lost-on-close", lost_src, "gcwait=1", None, "lost"))
    # re-marking a value in another context's pool
    cross1 = ("local t\nlocal ctx = runtime.callcontext({kill={cpu=100000}}, function() t = setmetatable({}, gcmt('in')) end)\n"
              "setmetatable(t, gcmt('out'))\nlog('survived')\n")
    cross2 = ("local t = setmetatable({}, gcmt('out'))\nlocal ctx = runtime.callcontext({kill={cpu=100000}}, function() setmetatable(t, gcmt('in')) end)\n"
              "log('survived')\n")
    cross3 = ("t = setmetatable({}, gcmt('out'))\nruntime.callcontext({kill={cpu=100000}}, function() runtime.callcontext({kill={cpu=10000}}, function() "
              "setmetatable(t, gcmt('in2')) u = mkud('u', gcmt('gu')) end) log('mid') end)\nlog('survived')\n")
    # repaired behaviour: the value stays with the pool of the enclosing context that already tracks it;
    # a stale Go finaliser of a discarded pool is cleared before a new one is set
    lua_cases.append(("cross-pool-remark-outer", cross1, "", ["gc:in", "l:survived", "close", "gc:out"], "cross"))
    lua_cases.append(("cross-pool-remark-inner", cross2, "", ["l:survived", "close", "gc:in"], "cross"))
    lua_cases.append(("cross-pool-remark-nested", cross3, "", ["gc:gu", "rel:u", "l:mid", "l:survived", "close", "gc:in2"], "cross"))
    llines = [lua_line("L%d" % i, c[1], c[2]) for i, c in enumerate(lua_cases)]
    lout = vlib.run_lines_resilient(gvh, ["lua"], llines, per_case_timeout=30)
    kf_cross = ck.known_match(lambda k: k.get("id") == "C18-setfinalizer-twice-across-pools")
    lua_fail = 0
    for i, c in enumerate(lua_cases):
        if i >= len(lout):
            break
        name, src, opts, expect, kind = c
        status, log, errm = parse_lua_out(lout[i])
        ck.case("lua:" + src + opts, True)
        ck.count("lua:" + kind)
        ck.count("lua-status:" + status)
        bad = None
        if kind in ("fixed", "generated"):
            if status != "ok":
                bad = "status %s (%s)" % (status, errm[:200])
            elif log != expect:
                bad = "log differs from the prescribed one"
        elif kind == "knownw":
            want, fid, seen = expect
            k = ck.known_match(lambda kk: kk.get("id") == fid)
            if status == "ok" and log == want:
                ck.cov.setdefault("known_witness_no_longer_fails", []).append(fid)
            elif k is not None and status == seen[0] and (log == seen[1] or seen[0] != "ok"):
                ck.known_finding(k)
                ck.count("known:" + fid)
            else:
                bad = "status %s log %s, the property prescribes %s; %s" % (status, log, want, errm[:200])
            expect = want
        elif kind == "gc":
            if status != "ok":
                bad = "status %s (%s)" % (status, errm[:200])
            else:
                gcs = [x for x in log if x.startswith("gc:")]
                if len(gcs) != len(set(gcs)):
                    bad = "a finaliser ran twice"
                after = log[log.index("close"):] if "close" in log else []
                ks = [x for x in after if x.startswith("gc:k")]
                if ks != ["gc:k5", "gc:k4", "gc:k3", "gc:k2", "gc:k1"]:
                    bad = "reachable values not finalised in reverse order on close: %s" % ks
                missing = [("gc:d%d" % j) for j in range(1, 21) if ("gc:d%d" % j) not in gcs]
                ck.cov["collect_program_missing_finalizers"] = len(missing)
                if missing:
                    # dropped values whose Go finaliser fired but that were still pending at Close
                    if kf is not None:
                        ck.known_finding(kf)
                        ck.count("known:lua-lost-on-close")
                    else:
                        bad = "finalisers never ran for %s" % missing[:5]
        elif kind == "lost":
            # repaired: a value the collector queued before Close is still finalised by Close, in mark order
            if status != "ok" or log != ["close", "gc:keep", "gc:lost"]:
                if "gc:lost" not in log and kf is not None:
                    ck.known_finding(kf)
                    ck.count("known:lua-lost-on-close")
                else:
                    bad = "status %s log %s (expected close, gc:keep, gc:lost)" % (status, log)
            ck.cov["lua_pending_at_close_finalised"] = ("gc:lost" in log)
        elif kind == "cross":
            if status == "CRASH" and "finalizer already set" in errm and kf_cross is not None:
                ck.known_finding(kf_cross)
                ck.count("known:cross-pool-crash")
            elif status != "ok" or log != expect:
                bad = "status %s log %s, expected %s; %s" % (status, log, expect, errm[:200])
        if bad:
            lua_fail += 1
            if lua_fail <= 3:
                ck.violation("Lua-level finaliser behaviour: %s [%s]" % (bad, name),
                             {"kind": "Go!=S", "engine": "gc/lua", "source": src, "options": opts, "expected_log": expect,
                              "log": log, "status": status, "error": errm[:500], "theorems": THEOREMS})
    if lua_cases:
        ck.sample({"lua": lua_cases[len(LUA_FIXED)][1][:400], "expected": lua_cases[len(LUA_FIXED)][3][:12]})

    if ndiff and not pred_fail and not lua_fail:
        # Go != IM while every property predicate held: search harder on the Go side alone before giving up
        ck.log("%d correspondence differences; property-level search with a larger budget" % ndiff)
        extra = [rand_world(rng) for _ in range(10 * nworld if tier == "quick" else 3 * nworld)]
        xl = ["s%d %s" % (j, hist_str(pool_ops(o))) for j, o in enumerate(extra)]
        r, xout, _ = vlib.run_lines(gvh, ["pool"], xl, timeout=3000)
        for j, o in enumerate(extra):
            if j >= len(xout):
                break
            f, kn = world_predicates(o, parse_pool_out(xout[j])[0])
            if kn and kf is None:
                f = f + kn
            if f:
                pred_fail += 1
                def still2(cand):
                    r2, out2, _ = vlib.run_lines(gvh, ["pool"], ["x " + hist_str(pool_ops(cand))], timeout=60)
                    return r2 == 0 and out2 and bool(world_predicates(cand, parse_pool_out(out2[0])[0])[0])
                small = shrink_world(o, still2) if len(o) <= 80 and not kn else o
                ck.violation("finaliser property fails on the implementation: " + f[0],
                             {"kind": "Go!=S", "engine": "gc/pool", "history": hist_str(small), "original_history": hist_str(o),
                              "impl": xout[j], "failed_predicates": f, "theorems": THEOREMS})
                break
    if ndiff and not pred_fail and not lua_fail and not first_diffs:
        d = ck.cov.get("first_stack_difference", {})
        ck.violation("the stack of pools no longer matches the Coq model GC/Stack.v (Go≈IM/gc-stack); no property-level failure found",
                     {"kind": "Go!=IM", "correspondence": "Go≈IM/gc-stack", "history": d.get("history"), "impl": d.get("impl"),
                      "model": d.get("model"), "differences": ndiff,
                      "theorems_no_longer_about_this_code": ["C18_finalizer_runs_in_owning_context"]}, no_input=True)
    elif ndiff and not pred_fail and not lua_fail:
        i = first_diffs[0]
        def differs(cand):
            l = "x " + hist_str(cand)
            r1, a, _ = vlib.run_lines(gvh, ["pool"], [l], timeout=60)
            r2, b, _ = vlib.run_lines(oracle, [], [l], timeout=60)
            return bool(a) and bool(b) and a[0] != b[0]
        smallops = shrink_free(pool_ops(cases[i][1]), differs) if len(cases[i][1]) <= 80 else pool_ops(cases[i][1])
        ck.cov["first_difference_shrunk"] = hist_str(smallops)
        ck.violation("implementation no longer matches the Coq model GC/ClonePool.v (Go≈IM/gc); no property-level failure found "
                     "in %d environment-valid histories and %d Lua programs" % (nworld, len(lua_cases)),
                     {"kind": "Go!=IM", "correspondence": "Go≈IM/gc", "history": hist_str(smallops),
                      "original_history": hist_str(cases[i][1]), "impl": impl[i], "model": model[i], "differences": ndiff,
                      "theorems_no_longer_about_this_code": THEOREMS}, no_input=True)
    elif ndiff:
        ck.cov["note_correspondence"] = "%d Go≈IM differences accompany the property-level failures" % ndiff
    if not ok_obl:
        ck.violation("proof obligations of C18 no longer check: " + str(ck.cov.get("obligation_failure", ""))[:300],
                     {"kind": "proof", "theorem_file": PROP, "detail": ck.cov.get("obligation_failure")},
                     no_input=(pred_fail == 0 and lua_fail == 0))
    ck.cov["correspondence_differences"] = ndiff
    ck.cov["predicate_failures"] = pred_fail
    ck.cov["lua_failures"] = lua_fail
    ck.cov["known_finding_histories"] = known_hits
    ck.cov["enumerated_depth"] = depth
    return ck.finish(
        rule="pool-call histories: every sequence of length <= %d over {Mark k fl (k in 1..2, fl in 0..3), goFinalizer k, the four extractions} "
             "+ %d free random sequences (<= 5 keys, flags incl. 0/4/5/7/255, calls after release-all) + %d environment-valid histories "
             "(drop/resurrect/finaliser-return events, normal and killed context exits); Lua: %d fixed + %d generated deterministic programs "
             "(tables/userdata with __gc and releasers, re-marking, nested callcontext ended normally/by error/by kill, close) with exact predicted logs, "
             "+ collector-dependent programs checked as multisets; non-trivial = some extraction returned a value (pool) / any Lua program; distinct by input text"
             % (depth, nfree, nworld, len(LUA_FIXED), nlua),
        trusted_base=TRUSTED,
        assumptions=["the Go collector calls a finaliser only for unreachable values (Go's guarantee; modelled as the enabling condition of GoGC)",
                     "goFinalizer is invoked by the harness on values it keeps alive (deterministic stand-in), runtime.SetFinalizer replaced by a recorder in pool mode",
                     "Lua-level deterministic programs keep every value reachable so the collector cannot interfere"])


def replay(path, seed):
    r = json.load(open(path))
    ck = vlib.Check("C18", "quick", seed)
    gvh, _ = ck.build_gvh(pkg="./cmd/gvh-gc", name="gvh-gc_verif", overlay=os.environ.get("VERIF_OVERLAY"))
    if r.get("engine") == "gc/lua":
        out = vlib.run_lines_resilient(gvh, ["lua"], [lua_line("r", r["source"], r.get("options", ""))])
        print("impl    :", parse_lua_out(out[0]))
        print("expected:", r.get("expected_log"))
        return 0
    oracle = ck.build_oracle("gc")
    ops = []
    for t in r["history"].split(";"):
        f = t.split()
        if f:
            ops.append(tuple([f[0]] + [x if x in ("discard", "kill") else int(x, 16) for x in f[1:]]))
    line = "r " + hist_str(pool_ops(ops))
    _, a, _ = vlib.run_lines(gvh, ["pool"], [line])
    _, b, _ = vlib.run_lines(oracle, [], [line])
    print("impl :", a[0] if a else None)
    print("model:", b[0] if b else None)
    if a:
        print("predicates:", world_predicates(ops, parse_pool_out(a[0])[0]))
    return 0
