# C12 — the front end accepts Lua 5.4 syntax and decodes it faithfully.
#
#  proof obligations : coq/theories/Properties/C12.v (models Front/Token.v Parse.v Print.v Lex.v)
#  correspondence (a): expression trees -> Print.print (extracted) -> source text with random layout
#                      -> gvh-front exp (scanner.New + parsing.ParseExp, AST dumped from the public ast types)
#                      vs Parse.parse (extracted, run on the token stream the Go scanner produced)
#                      vs the generator's tree (python norm) ; flat operator sequences vs an independent
#                      precedence-climbing reference written from the manual's table
#                 (b): literal spellings through load("return "..lit) vs Lex.v denotations
#                 (c): equivalent renderings of one program give identical results and traces
#                 (d): single-token corruptions: error line = line of the offending token
import json
import os
import re

from lib import vlib
from lib.props import C12lit
from lib.props import C12gram

PROP = ["Properties/C12.v"]
TRUSTED = [
    "Coq 8.16.1 kernel (coqc); vm_compute only in Example/refuted witnesses",
    "no axioms (Print Assumptions: closed under the global context for every C12 theorem)",
    "extraction: ExtrOcamlBasic only, no Extract Constant; positive/N/Z/nat kept as Coq datatypes",
    "oracle/common/proto.ml + oracle/front/driver.ml (text protocol glue, s-expression reader/printer), OCaml 4.13.1",
    "Go harness harness/cmd/gvh-front/main.go (AST dump from public ast types, left fold undoing NewBinOp merging; hx.RunLuaCase)",
    "Python generator / token renderer / diff in lib/props/C12.py, C12lit.py; python reference precedence-climbing parser (manual's priority table)",
    "modelled not verified: the scanner's state machine (only its token-level output and line numbers are checked); strconv.ParseFloat "
    "(float numerals are compared against python's float()/float.fromhex)",
]

BINOPS = ["or", "and", "lt", "le", "gt", "ge", "eq", "ne", "bor", "bxor", "band", "shl", "shr", "concat",
          "add", "sub", "mul", "div", "idiv", "mod", "pow"]
UNOPS = ["neg", "not", "len", "bnot"]
BINTOK = {"or": "or", "and": "and", "lt": "<", "le": "<=", "gt": ">", "ge": ">=", "eq": "==", "ne": "~=", "bor": "|",
          "bxor": "~", "band": "&", "shl": "<<", "shr": ">>", "concat": "..", "add": "+", "sub": "-", "mul": "*",
          "div": "/", "idiv": "//", "mod": "%", "pow": "^"}
UNTOK = {"neg": "-", "not": "not", "len": "#", "bnot": "~"}
TOKBIN = {v: k for k, v in BINTOK.items()}
TOKUN = {v: k for k, v in UNTOK.items()}
# lparser.c priority table (left, right); UNARY_PRIORITY = 12  — the manual's §3.4.8 order
PRIO = {"add": (10, 10), "sub": (10, 10), "mul": (11, 11), "mod": (11, 11), "pow": (14, 13), "div": (11, 11),
        "idiv": (11, 11), "band": (6, 6), "bor": (4, 4), "bxor": (5, 5), "shl": (7, 7), "shr": (7, 7),
        "concat": (9, 8), "eq": (3, 3), "lt": (3, 3), "le": (3, 3), "ne": (3, 3), "gt": (3, 3), "ge": (3, 3),
        "and": (2, 2), "or": (1, 1)}
UNARY_PRIORITY = 12


# ----------------------------------------------------------------------------- trees (python tuples)
def sx(t):
    """tree -> s-expression text (the oracle's / harness's format)"""
    if isinstance(t, str):
        return t
    return "(" + " ".join(sx(x) if not isinstance(x, (int,)) else str(x) for x in t) + ")"


def norm(t):
    """python's own denotation of spellings (independent of Print.norm)"""
    if isinstance(t, str):
        return t
    h = t[0]
    if h in ("num", "str", "name"):
        return t
    if h == "lstr":
        return ("str", t[1])
    if h == "idx":
        return ("idx", ntarget(t[1]), norm(t[2]))
    if h == "dot":
        return ("idx", ntarget(t[1]), ("str", t[2]))
    if h == "call":
        return ("call", ntarget(t[1]), t[2], 0) + tuple(norm(a) for a in t[4:])
    if h == "paren":
        x = norm(t[1])
        return ("paren", x) if multi_valued(x) else x
    if h == "tab":
        fs = []
        for f in t[2:]:
            if f[0] == "pos":
                fs.append(("pos", norm(f[1]), 0))
            elif f[0] == "key":
                fs.append(("key", norm(f[1]), norm(f[2]), 0))
            else:
                fs.append(("key", ("str", f[1]), norm(f[2]), 0))
        return ("tab", 0) + tuple(fs)
    if h == "un":
        return ("un", t[1], norm(t[2]))
    if h == "bin":
        return ("bin", t[1], norm(t[2]), norm(t[3]))
    raise ValueError(t)


def multi_valued(x):
    """manual 3.4.12: calls and '...' are the multi-valued expressions; parentheses around them are meaningful"""
    return x == "etc" or (not isinstance(x, str) and x[0] == "call")


def ntarget(t):
    """'...' as the head of a prefix expression can only be written (...), which is a node of its own"""
    return ("paren", "etc") if t == "etc" else norm(t)


ALLOW_ETC = [True]     # '...' is only generated where the enclosing function is variadic (manual 3.4.11)


def gen_atom(rng):
    k = rng.below(10)
    if k < 4:
        return ("name", rng.below(6))
    if k < 6:
        return ("num", rng.below(40))
    if k == 6:
        return ("str", rng.below(6))
    if k == 7:
        return rng.choice(["nil", "true", "false", "etc"] if ALLOW_ETC[-1] else ["nil", "true", "false", "nil"])
    if k == 8:
        return ("lstr", rng.below(6))
    return ("name", rng.below(6))


def gen_exp(rng, depth, spell=True):
    if depth <= 0:
        return gen_atom(rng)
    k = rng.below(100)
    if k < 38:
        return ("bin", rng.choice(BINOPS), gen_exp(rng, depth - 1, spell), gen_exp(rng, depth - 1 - rng.below(2), spell))
    if k < 50:
        return ("un", rng.choice(UNOPS), gen_exp(rng, depth - 1, spell))
    if k < 58:
        return ("idx", gen_exp(rng, depth - 1, spell), gen_exp(rng, depth - 2, spell))
    if k < 63 and spell:
        return ("dot", gen_exp(rng, depth - 1, spell), rng.below(6))
    if k < 76:
        n = rng.below(4)
        args = [gen_exp(rng, depth - 2, spell) for _ in range(n)]
        bare = 0
        if spell and rng.chance(1, 4):
            bare = 1
            args = [rng.choice([("str", rng.below(6)), ("lstr", rng.below(6)), gen_table(rng, depth - 2, spell)])]
        m = rng.below(6) if rng.chance(1, 3) else "-"
        return ("call", gen_exp(rng, depth - 1, spell), m, bare) + tuple(args)
    if k < 84 and spell:
        return ("paren", gen_exp(rng, depth - 1, spell))
    if k < 84:
        x = gen_exp(rng, depth - 1, spell)
        return ("paren", x) if multi_valued(x) else x
    if k < 92:
        return gen_table(rng, depth - 1, spell)
    return gen_atom(rng)


def gen_table(rng, depth, spell):
    n = rng.geometric(2, 5)
    fs = []
    for _ in range(n):
        semi = 1 if (spell and rng.chance(1, 3)) else 0
        k = rng.below(3)
        if k == 0:
            fs.append(("pos", gen_exp(rng, depth - 1, spell), semi))
        elif k == 1:
            fs.append(("key", gen_exp(rng, depth - 1, spell), gen_exp(rng, depth - 1, spell), semi))
        elif spell:
            fs.append(("nam", rng.below(6), gen_exp(rng, depth - 1, spell), semi))
        else:
            fs.append(("key", ("str", rng.below(6)), gen_exp(rng, depth - 1, spell), semi))
    trail = 1 if (spell and n > 0 and rng.chance(1, 3)) else 0
    return ("tab", trail) + tuple(fs)


def has_paren_etc(t):
    """explicit parentheses directly around '...' (known finding C12-paren-vararg lives there, at run time only)"""
    if isinstance(t, str):
        return False
    if t[0] == "paren" and t[1] == "etc":
        return True
    return any(has_paren_etc(x) for x in t[1:] if isinstance(x, tuple))


# ----------------------------------------------------------------------------- enumerated operator nestings
def enum_pairs():
    a, b, c, d = ("name", 0), ("name", 1), ("name", 2), ("name", 3)
    out = []
    for o1 in BINOPS:
        for o2 in BINOPS:
            out.append(("pair-L", ("bin", o2, ("bin", o1, a, b), c)))
            out.append(("pair-R", ("bin", o1, a, ("bin", o2, b, c))))
            out.append(("pair-LR", ("bin", o1, ("bin", o2, a, b), ("bin", o2, c, d))))
    for u in UNOPS:
        for o in BINOPS:
            out.append(("un-over-bin", ("un", u, ("bin", o, a, b))))
            out.append(("un-left", ("bin", o, ("un", u, a), b)))
            out.append(("un-right", ("bin", o, a, ("un", u, b))))
        for u2 in UNOPS:
            out.append(("un-un", ("un", u, ("un", u2, a))))
            out.append(("un-pow-un", ("bin", "pow", ("un", u, a), ("un", u2, ("bin", "pow", b, c)))))
    return out


# ----------------------------------------------------------------------------- flat sequences and the reference parser
def gen_flat(rng, nops):
    """token list (oracle spelling) of an unparenthesised operator sequence"""
    toks = []
    n = 0
    for i in range(nops + 1):
        for _ in range(rng.geometric(1, 2) if rng.chance(1, 3) else 0):
            toks.append(UNTOK[rng.choice(UNOPS)])
        toks.append("name:%d" % n)
        n += 1
        if i < nops:
            toks.append(BINTOK[rng.choice(BINOPS)])
    return toks


def ref_parse(toks):
    """Independent reference: lparser.c subexpr() with the manual's priorities.  Operands are names only."""
    pos = [0]

    def peek():
        return toks[pos[0]] if pos[0] < len(toks) else None

    def subexpr(limit):
        t = peek()
        if t in TOKUN and not t.startswith("name"):
            pos[0] += 1
            e = ("un", TOKUN[t], subexpr(UNARY_PRIORITY))
        else:
            assert t is not None and t.startswith("name:"), t
            pos[0] += 1
            e = ("name", int(t[5:]))
        while True:
            t = peek()
            if t is None or t not in TOKBIN:
                break
            op = TOKBIN[t]
            if PRIO[op][0] <= limit:
                break
            pos[0] += 1
            rhs = subexpr(PRIO[op][1])
            e = ("bin", op, e, rhs)
        return e
    e = subexpr(0)
    assert pos[0] == len(toks)
    return e


# ----------------------------------------------------------------------------- tokens -> source text
NOSPACE = {"(", ")", "{", "}", ",", ";", "]"}
NL_KINDS = ["\n", "\n", "\r\n", "\r", "\n\r"]


def tok_text(tok, rng):
    if tok.startswith("num:"):
        v = int(tok[4:])
        k = rng.below(6)
        if k == 0:
            return "0x%x" % v
        if k == 1:
            return "0X%X" % v
        if k == 2:
            return "0%d" % v
        return "%d" % v
    if tok.startswith("str:"):
        v = "v" + tok[4:]
        k = rng.below(4)
        if k == 0:
            return "'" + v + "'"
        if k == 1:
            return '"\\%d%s"' % (ord(v[0]), v[1:])
        if k == 2:
            return '"\\x%02x\\z  %s"' % (ord(v[0]), v[1:])
        return '"' + v + '"'
    if tok.startswith("lstr:"):
        v = "v" + tok[5:]
        k = rng.below(3)
        eq = "=" * k
        return "[%s[%s%s]%s]" % (eq, "\n" if rng.chance(1, 3) else "", v, eq)
    if tok.startswith("name:"):
        return "v" + tok[5:]
    return tok


NL_STYLES = [None, "\n", "\r\n", "\r", "\n\r"]      # None = a different line end at every line break


def render(toks, rng, layout=True, nl=None):
    """Returns (source text, [line of each token], line of EOF).  Lines counted the way the manual's
    readers count them: each of \\n, \\r, \\r\\n, \\n\\r ends one line.  nl: one line-end style for the whole
    source (None: mixed)."""
    if nl is not None:
        global NL_KINDS
        saved = NL_KINDS
        NL_KINDS = ["\n"]
        try:
            src, lines, eofline = render(toks, rng, layout, None)
        finally:
            NL_KINDS = saved
        return src.replace("\r\n", "\n").replace("\n", nl), lines, eofline
    out = []
    lines = []
    line = 1
    prev = None
    for tok in toks:
        txt = tok_text(tok, rng) if layout else tok_text(tok, vlib.SplitMix64(3))
        # separator
        sep = ""
        if prev is not None:
            need = not (prev in NOSPACE or tok in NOSPACE)
            if prev == "[" and (tok.startswith("lstr:") or tok == "["):
                need = True
            if tok == "[" and prev == "[":
                need = True
            if not layout:
                sep = " "
            else:
                k = rng.below(20)
                if k < 9:
                    sep = " "
                elif k < 11:
                    sep = "" if not need else " "
                elif k < 14:
                    sep = rng.choice(NL_KINDS)
                elif k == 14:
                    sep = " --" + rng.choice((["", " c", "[x", "[=x", "-", " ]]"] if rng.below(12) else ["[", "[=", "[=="])) + rng.choice(NL_KINDS)
                elif k == 15:
                    sep = " --[[ c" + rng.choice(["", "\n", "] ", " ]=] "]) + "]] "
                elif k == 16:
                    sep = " --[==[ ]] \r\n ]=] ]==]"
                elif k == 17:
                    sep = "\t \n  "
                else:
                    sep = "  "
        out.append(sep)
        line += count_lines(sep)
        lines.append(line)
        out.append(txt)
        line += count_lines(txt)
        prev = tok
    return "".join(out), lines, line


def count_lines(s):
    n = 0
    i = 0
    while i < len(s):
        c = s[i]
        if c in "\r\n":
            n += 1
            if i + 1 < len(s) and s[i + 1] in "\r\n" and s[i + 1] != c:
                i += 1
        i += 1
    return n


# ----------------------------------------------------------------------------- Go output -> model vocabulary
def go_tok_to_model(t):
    """'name:v3@2' -> ('name:3', 2); returns (None, line) for tokens outside the model's vocabulary"""
    body, _, line = t.rpartition("@")
    line = int(line.split(".")[0])
    if body.startswith("num:"):
        try:
            return "num:%d" % int(body[4:], 0) if not re.match(r"^0\d", body[4:]) else "num:%d" % int(body[4:]), line
        except ValueError:
            return None, line
    for p in ("str:", "lstr:"):
        if body.startswith(p):
            try:
                v = bytes.fromhex(body[len(p):]).decode()
            except ValueError:
                return None, line
            if re.match(r"^v\d+$", v):
                return p + v[1:], line
            return None, line
    if body.startswith("name:"):
        if re.match(r"^v\d+$", body[5:]):
            return "name:" + body[6:], line
        return None, line
    if body == "eof":
        return "eof", line
    if ":" in body and body != "::" and body != ":":
        return None, line
    return body, line


def go_ast_to_model(s):
    s = re.sub(r"\(int (\d+)\)", r"(num \1)", s)
    s = re.sub(r"\(str ([0-9a-f]+)\)", lambda m: "(str %s)" % _vk(bytes.fromhex(m.group(1)).decode("latin-1")), s)
    s = re.sub(r"\(name v(\d+)\)", r"(name \1)", s)
    s = re.sub(r" v(\d+) 0", r" \1 0", s)
    return s


def _vk(v):
    return v[1:] if re.match(r"^v\d+$", v) else "?" + v


def hexsrc(s):
    b = s.encode("latin-1")
    return b.hex() if b else "-"


# ----------------------------------------------------------------------------- the check
def run(tier, seed):
    ck = vlib.Check("C12", tier, seed, level="proof")
    ok_obl = ck.obligations(PROP, clean=False)
    if tier == "thorough":
        if not ck.coqchk(["GV.Properties.C12"]):
            ok_obl = False
            ck.cov["obligation_failure"] = "coqchk failed: " + str(ck.cov.get("coqchk", {}).get("tail", ""))[-500:]
    gvh, err = ck.build_gvh(pkg="./cmd/gvh-front", name="gvh_front" + ("_mut" if os.environ.get("VERIF_C12_OVERLAY") else ""),
                            overlay=os.environ.get("VERIF_C12_OVERLAY"))   # overlay: mutation experiments only
    if gvh is None:
        ck.violation("harness does not build against /repo", {"kind": "build", "stderr": err[-3000:]}, no_input=True)
        return ck.finish("n/a", TRUSTED, [])
    oracle = ck.build_oracle("front")
    if oracle is None:
        ck.violation("oracle (extracted model) does not build", {"kind": "build"}, no_input=True)
        return ck.finish("n/a", TRUSTED, [])
    st = {"go_ne_s": 0, "go_ne_im": 0, "first_im": None}
    check_expressions(ck, gvh, oracle, tier, st)
    check_errors(ck, gvh, oracle, tier, st)
    C12lit.check_literals(ck, gvh, oracle, tier, st)
    C12lit.check_renderings(ck, gvh, tier, st)
    from lib.props import C12stat, C12lex
    C12stat.check_statements(ck, gvh, oracle, tier, st)
    C12lex.check_lexical(ck, gvh, tier, st)
    C12lex.check_files(ck, gvh, tier, st)
    if st["go_ne_im"] and not st["go_ne_s"]:
        ck.violation("implementation no longer matches the Coq model Front/Parse.v (Go≈IM/front); no property-level failure found",
                     dict(st["first_im"], kind="Go!=IM", correspondence="Go≈IM/front", differences=st["go_ne_im"],
                          theorems_no_longer_about_this_code=["C12_parse_print", "C12_parse_print_min", "C12_error_at_first_extra_token", "C12_paren_only_truncates_multivalue"]),
                     no_input=True)
    if not ok_obl:
        ck.violation("proof obligations of C12 no longer check: " + str(ck.cov.get("obligation_failure", ""))[:300],
                     {"kind": "proof", "theorem_file": PROP, "detail": ck.cov.get("obligation_failure")},
                     no_input=(st["go_ne_s"] == 0))
    ck.cov["correspondence_differences"] = st["go_ne_im"]
    ck.cov["property_failures"] = st["go_ne_s"]
    ck.cov["exhaustive"] = False
    return ck.finish(
        rule="(a) expression trees: all 21x21 binary operator pairs x 3 nestings, all unary x binary x 3 positions, unary x unary, "
             "random trees (depth<=5, all expression forms and spellings) printed by the extracted Print.print, rendered with random "
             "whitespace/comments/4 kinds of line ends/literal spellings; flat unparenthesised operator sequences (1-6 binary operators, "
             "unary prefixes) against a reference precedence-climbing parser; Go AST = model AST = generator tree, Go tokens and token lines "
             "= rendered tokens and lines.  (b) literal spellings: see C12lit.  (c) equivalent renderings run on the real runtime. "
             "(d) single-token corruptions: Go error line = line of the token at which the model reports the error. "
             "(e) random chunks over all statement forms (C12stat): Go ParseChunk AST = Front/Stat.v parse_chunk = generator tree, "
             "token lines, and error lines for single-token corruptions of chunks. "
             "non-trivial = parsed/evaluated successfully, or an error case of (d); distinct by source text",
        trusted_base=TRUSTED,
        assumptions=["identifiers, strings and numerals in (a) are drawn from small pools (the parser does not look inside literal tokens); "
                     "literal decoding is exercised separately in (b)",
                     "'function' expressions inside expressions are not modelled (Unsupported); function bodies are covered through "
                     "function statements and local function (Front/Stat.v)"])


def lua_batched(gvh, lines, size=3000):
    """hx.RunLuaCase builds a fresh runtime per case; a long-lived harness process accumulates heap faster than the Go GC
    returns it and hits the address-space limit of run_lines_resilient after some 10^4 cases (false alarm of the first
    thorough run) — so the lua engine is fed in batches, one process each."""
    out = []
    for i in range(0, len(lines), size):
        out += vlib.run_lines_resilient(gvh, ["lua"], lines[i:i + size], per_case_timeout=30)
    return out


def bad_message(msg, prefix_rx):
    """A syntax error message must start with its position and must be a rendered message (no failed formatting)."""
    if "%!" in msg or "PANIC" in msg:
        return "formatting failure"
    if not re.match(prefix_rx, msg):
        return "no position prefix"
    return None


def known_for_source(ck, src):
    """narrow matching of recorded findings by the regex on the source text stored in the entry"""
    for k in ck.known:
        rx = k.get("match", {}).get("source_regex")
        if k.get("status") == "open" and rx and re.search(rx, src):
            return k
    return None


def write_lines(path, lines):
    with open(path, "w") as f:
        f.write("\n".join(lines) + "\n")


def check_expressions(ck, gvh, oracle, tier, st):
    rng = ck.rng.fork()
    cases = []   # dict(kind, tree|None, toks|None, expect)
    corpus = os.path.join(vlib.VERIF, "corpus", "C12")
    if os.path.isdir(corpus):
        for fn in sorted(os.listdir(corpus)):
            if fn.endswith(".trees"):
                for l in open(os.path.join(corpus, fn)):
                    l = l.strip()
                    if l and not l.startswith("#"):
                        cases.append({"kind": "corpus", "sx": l})
    for kind, t in enum_pairs():
        cases.append({"kind": kind, "tree": t})
    nrand = 4000 if tier == "quick" else 120000
    for i in range(nrand):
        spell = (i % 3 != 0)
        t = gen_exp(rng, 2 + rng.below(4), spell)
        cases.append({"kind": "random-spell" if spell else "random-plain", "tree": t})
    # flat sequences: every ordered pair of binary operators, then random longer ones
    for o1 in BINOPS:
        for o2 in BINOPS:
            cases.append({"kind": "flat-pair", "toks": ["name:0", BINTOK[o1], "name:1", BINTOK[o2], "name:2"]})
            for u in UNOPS:
                cases.append({"kind": "flat-pair-un", "toks": [UNTOK[u], "name:0", BINTOK[o1], UNTOK[u], "name:1", BINTOK[o2], "name:2"]})
    nflat = 2000 if tier == "quick" else 60000
    for i in range(nflat):
        cases.append({"kind": "flat-random", "toks": gen_flat(rng, 1 + rng.below(6))})

    # pass 1: oracle prints the trees
    rl = []
    for i, c in enumerate(cases):
        if "tree" in c:
            c["sx"] = sx(c["tree"])
        if "sx" in c:
            rl.append("e%d R %s" % (i, c["sx"]))
    rc, rout, rerr = vlib.run_lines(oracle, [], rl, timeout=1800)
    if rc != 0 or len(rout) != len(rl):
        ck.violation("oracle crashed on R lines (%d/%d)" % (len(rout), len(rl)), {"kind": "oracle-crash", "stderr": rerr[-2000:]}, no_input=True)
        return
    j = 0
    selfbad = 0
    for i, c in enumerate(cases):
        if "sx" not in c:
            c["expect"] = sx(ref_parse(c["toks"]))
            continue
        parts = rout[j].split(" @@ ")
        j += 1
        c["toks"] = parts[0].split(" ")[1:]
        c["model_norm"] = parts[1]
        c["plain"] = parts[2] == "1"
        c["model_self"] = parts[3]
        c["expect"] = sx(norm(c["tree"])) if "tree" in c else parts[1]
        # the theorem C12_parse_print, re-evaluated on this case by the extracted code
        if c["model_self"] != "ok " + c["model_norm"] or c["model_norm"] != c["expect"]:
            selfbad += 1
            if selfbad <= 2:
                ck.violation("extracted model contradicts parse(print e) = norm e or python's norm",
                             {"kind": "model-self", "tree": c["sx"], "oracle": rout[j - 1], "python_norm": c["expect"]}, no_input=True)
    # pass 2: render and run Go
    gl = []
    for i, c in enumerate(cases):
        layout = not (c["kind"].startswith("pair") and i % 2 == 0)
        c["src"], c["lines"], c["eofline"] = render(c["toks"], rng, layout, NL_STYLES[i % len(NL_STYLES)] if layout else None)
        gl.append("e%d %s" % (i, hexsrc(c["src"])))
    gout = vlib.run_lines_resilient(gvh, ["exp"], gl, per_case_timeout=30)
    # pass 3: model parses what the Go scanner produced
    pl = []
    for i, c in enumerate(cases):
        f = gout[i].split(" @@ ")
        c["go_status"] = f[0].split(" ")[1] if " " in f[0] else "crash"
        if len(f) < 3:
            c["go_toks"], c["go_body"] = None, gout[i]
            continue
        gt = [go_tok_to_model(t) for t in f[1].split(" ") if t]
        c["go_toks"] = gt
        c["go_body"] = f[2]
        if all(t[0] is not None for t in gt) and gt and gt[-1][0] == "eof":
            pl.append("e%d P %s" % (i, " ".join(t[0] for t in gt[:-1])))
            c["p"] = True
    rc, pout, perr = vlib.run_lines(oracle, [], pl, timeout=1800)
    if rc != 0 or len(pout) != len(pl):
        ck.violation("oracle crashed on P lines (%d/%d)" % (len(pout), len(pl)), {"kind": "oracle-crash", "stderr": perr[-2000:]}, no_input=True)
        return
    j = 0
    for i, c in enumerate(cases):
        c["model"] = None
        if c.get("p"):
            c["model"] = pout[j].split(" ", 1)[1]
            j += 1
    # compare
    for i, c in enumerate(cases):
        ck.count("a:" + c["kind"])
        ok = c["go_status"] == "ok"
        ck.case(c["src"], ok)
        rep = {"engine": "front", "mode": "exp", "source_hex": hexsrc(c["src"]), "source": c["src"], "case_kind": c["kind"],
               "expected_ast": c["expect"], "go": gout[i][:3000], "model": c["model"]}
        goast = go_ast_to_model(c["go_body"]) if ok else None
        kf = known_for_source(ck, c["src"])
        if kf is not None and kf["id"] == "C12-comment-bracket-newline":
            # the comment eats the next line: whatever happens on this source is that finding
            if goast != c["expect"] or c["go_toks"] != list(zip(c["toks"], c["lines"])) + [("eof", c["eofline"])]:
                ck.known_finding(kf)
            continue
        if goast != c["expect"]:
            st["go_ne_s"] += 1
            if st["go_ne_s"] <= 5:
                rep["kind"] = "Go!=S"
                rep["theorems"] = ["C12_parse_print"]
                ck.violation("Go parse differs from the tree denoted by the source (%s): %s" % (c["kind"], c["src"][:80].replace("\n", "\\n")), rep)
            continue
        # token stream and lines
        gt = c["go_toks"]
        want = list(zip(c["toks"], c["lines"])) + [("eof", c["eofline"])]
        if gt != want:
            st["go_ne_s"] += 1
            if st["go_ne_s"] <= 5:
                rep["kind"] = "Go!=S"
                rep["detail"] = "token stream or token line numbers differ from the rendered tokens"
                rep["want_tokens"] = want[:200]
                rep["got_tokens"] = gt[:200]
                ck.violation("Go scanner token stream/lines differ from the rendered source", rep)
            continue
        if c["model"] != "ok " + goast:
            st["go_ne_im"] += 1
            if st["first_im"] is None:
                st["first_im"] = rep
    for i in (0, 1400, len(cases) - nflat - 5, len(cases) - 1):
        if 0 <= i < len(cases):
            ck.sample({"kind": cases[i]["kind"], "source": cases[i]["src"][:300], "ast": cases[i]["expect"][:300]})
    ck.log("(a) %d expression cases, Go!=S %d, Go!=IM %d" % (len(cases), st["go_ne_s"], st["go_ne_im"]))


CORRUPT_TOKENS = [")", "(", "]", "}", "*", "..", "=", ",", "and", "then", "end", "name:9", "num:1", "^", "not", ":", "."]


def check_errors(ck, gvh, oracle, tier, st):
    """(d) single-token corruptions of valid expressions: the reported line is the line of the offending token."""
    rng = ck.rng.fork()
    n = 2000 if tier == "quick" else 40000
    trees = [gen_exp(rng, 2 + rng.below(3), True) for _ in range(n)]
    rl = ["c%d R %s" % (i, sx(t)) for i, t in enumerate(trees)]
    rc, rout, rerr = vlib.run_lines(oracle, [], rl, timeout=1800)
    if rc != 0 or len(rout) != len(rl):
        ck.violation("oracle crashed", {"kind": "oracle-crash", "stderr": rerr[-2000:]}, no_input=True)
        return
    cases = []
    for i, t in enumerate(trees):
        toks = rout[i].split(" @@ ")[0].split(" ")[1:]
        k = rng.below(4)
        p = rng.below(len(toks) + (1 if k == 1 else 0))
        if k == 0 and len(toks) > 1:
            toks2 = toks[:p] + toks[p + 1:]
            how = "delete"
        elif k == 1:
            toks2 = toks[:p] + [rng.choice(CORRUPT_TOKENS)] + toks[p:]
            how = "insert"
        elif k == 2:
            toks2 = toks[:p] + [rng.choice(CORRUPT_TOKENS)] + toks[p + 1:]
            how = "replace"
        else:
            toks2 = toks[:p + 1]
            how = "truncate"
        if not toks2:
            toks2 = [")"]
        nl = NL_STYLES[i % len(NL_STYLES)]
        src, lines, eofline = render(toks2, rng, True, nl)
        cases.append({"toks": toks2, "src": src, "lines": lines, "eofline": eofline, "how": how, "nl": nl})
    gout = vlib.run_lines_resilient(gvh, ["exp"], ["c%d %s" % (i, hexsrc(c["src"])) for i, c in enumerate(cases)], per_case_timeout=30)
    rc, pout, perr = vlib.run_lines(oracle, [], ["c%d P %s" % (i, " ".join(c["toks"])) for i, c in enumerate(cases)], timeout=1800)
    if rc != 0 or len(pout) != len(cases):
        ck.violation("oracle crashed", {"kind": "oracle-crash", "stderr": perr[-2000:]}, no_input=True)
        return
    # the same corruptions through load(): the message must carry the line
    ll = []
    for i, c in enumerate(cases):
        ll.append("c%d %s chunk=chunk" % (i, hexsrc("return (" + c["src"] + ")")))
    lout = lua_batched(gvh, ll)
    nerr = 0
    for i, c in enumerate(cases):
        f = gout[i].split(" @@ ")
        status = f[0].split(" ")[1]
        m = pout[i].split(" ")
        ck.count("d:" + c["how"])
        ck.count("d:line-ends:" + {None: "mixed", "\n": "LF", "\r\n": "CRLF", "\r": "CR", "\n\r": "LFCR"}[c["nl"]])
        rep = {"engine": "front", "mode": "exp", "source_hex": hexsrc(c["src"]), "source": c["src"], "corruption": c["how"],
               "go": gout[i][:2000], "model": pout[i], "load": lout[i][:600]}
        if m[1] == "unsupported":
            continue
        kf = known_for_source(ck, c["src"])
        if kf is not None and kf["id"] == "C12-comment-bracket-newline":
            ck.count("d:skipped-known-comment-defect")
            continue
        # S: the manual's grammar (C12gram) — acceptance and the offending token
        sres = C12gram.recognise(c["toks"], "exp")
        if (sres[0] == "ok") != (status == "ok") or (sres[0] == "err" and m[1] == "err" and not (sres[1] <= int(m[2]) <= sres[2])):
            st["go_ne_s"] += 1
            if st["go_ne_s"] <= 5:
                rep["kind"] = "Go!=S"
                rep["grammar"] = list(sres)
                ck.violation("golua and the manual's grammar disagree on an expression (%s vs %s): %s"
                             % (status, sres[0], c["src"][:80].replace("\n", "\\n")), rep)
            continue
        if status == "err":
            gm = bytes.fromhex(f[2].split(" ")[2]).decode("latin-1") if len(f[2].split(" ")) > 2 and f[2].split(" ")[2] != "-" else ""
            bad = bad_message(gm, r"^\d+:\d+: ")
            if bad:
                st["go_ne_s"] += 1
                if st["go_ne_s"] <= 5:
                    rep["kind"] = "Go!=S"
                    ck.violation("ill-formed syntax error message (%s): %r" % (bad, gm[:100]), rep)
                continue
        if m[1] == "ok":
            ck.count("d:still-valid")
            ck.case(c["src"], False)
            if status != "ok" or go_ast_to_model(f[2]) != " ".join(m[2:]):
                st["go_ne_im"] += 1
                st["first_im"] = st["first_im"] or rep
            continue
        nerr += 1
        ck.case(c["src"], True)
        idx = int(m[2])
        want_line = c["lines"][idx] if idx < len(c["lines"]) else c["eofline"]
        if status != "err":
            st["go_ne_s"] += 1
            if st["go_ne_s"] <= 5:
                rep["kind"] = "Go!=S"
                ck.violation("Go accepts (or crashes on) a token sequence that is not an expression: " + c["src"][:80].replace("\n", "\\n"), rep)
            continue
        gl = int(f[2].split(" ")[0])
        lm = re.search(r" E:([0-9a-f]+|-) ", lout[i])
        msg = bytes.fromhex(lm.group(1)).decode("latin-1") if lm and lm.group(1) != "-" else ""
        lline = re.match(r"^chunk:(\d+):", msg)
        # inside  return ( … )  the expression is parsed in the same context as by ParseExp, except that a stray ')'
        # closes the wrapper: those cases are compared on ParseExp only
        in_load = not (idx < len(c["toks"]) and c["toks"][idx] == ")")
        ck.count("d:load-compared" if in_load else "d:load-skipped-rparen")
        load_ok = (not in_load) or (lout[i].split(" ")[1] == "compile_error" and lline and int(lline.group(1)) == want_line
                                    and not bad_message(msg, r"^chunk:\d+:\d+: "))
        if gl != want_line or not load_ok:
            st["go_ne_s"] += 1
            if st["go_ne_s"] <= 5:
                rep["kind"] = "Go!=S"
                rep["expected_line"] = want_line
                rep["offending_token_index"] = idx
                rep["load_message"] = msg
                rep["theorems"] = ["C12_error_at_first_extra_token"]
                ck.violation("syntax error not reported at the line of the offending token (want %d, ParseExp %d, load %r)"
                             % (want_line, gl, msg[:60]), rep)
    ck.log("(d) %d corruptions, %d syntax errors located" % (len(cases), nerr))


def replay(path, seed):
    r = json.load(open(path))
    ck = vlib.Check("C12", "quick", seed)
    gvh, _ = ck.build_gvh(pkg="./cmd/gvh-front", name="gvh_front")
    oracle = ck.build_oracle("front")
    if "source_hex" in r:
        mode = r.get("mode", "exp")
        out = vlib.run_lines_resilient(gvh, [mode], ["r " + r["source_hex"] + (" chunk=chunk" if mode == "lua" else "")])
        print("source  :", repr(r.get("source")))
        print("impl    :", out[0] if out else None)
        print("expected:", r.get("expected_ast") or r.get("expected"))
        if mode == "exp" and out and " @@ " in out[0]:
            gt = [go_tok_to_model(t) for t in out[0].split(" @@ ")[1].split(" ") if t]
            if all(t[0] for t in gt) and gt[-1][0] == "eof":
                _, b, _ = vlib.run_lines(oracle, [], ["r P " + " ".join(t[0] for t in gt[:-1])])
                print("model   :", b[0] if b else None)
    else:
        print(json.dumps(r, indent=1)[:3000])
    return 0
