# C17 — value serialisation round trips: string.pack/unpack/packsize, %q + load,
# tostring/tonumber, integer and string directives of string.format.
#
#  proof obligations : coq/theories/Properties/C17.v  (models Pack/Model.v, Pack/QuoteModel.v, Pack/NumStrModel.v)
#  correspondence    : gvh-pack (the real library functions called through a golua runtime)
#                      vs oracle/pack (extracted models): same lines, whole result compared
#                      (bytes, values, next position, size, error class)
#  property-level    : S = the Lua 5.4 manual's definitions written independently in this
#                      file (ref_pack, ref_quote_ok, printf via Python) — the search that
#                      yields a concrete failing input when something breaks
import json
import os
import re
import struct

from lib import vlib

PROP = ["Properties/C17.v"]
TRUSTED = [
    "Coq 8.16.1 kernel (coqc); vm_compute only in Example/_refuted witnesses",
    "no axioms of our own; Section variable is_print (unicode.IsPrint) with the hypotheses is_print LF = is_print CR = false in Pack/QuoteRound.v",
    "extraction: ExtrOcamlBasic only, no Extract Constant; Z/positive kept as Coq datatypes",
    "oracle/common/proto.ml + oracle/pack/driver.ml (glue), OCaml 4.13.1",
    "Go harness harness/cmd/gvh-pack/main.go (calls string.pack/unpack/packsize/format, tostring, tonumber, load through Lua wrappers)",
    "Python generator, reference implementation of the manual's pack layout (ref_pack) and diff in lib/props/C17.py",
    "modelled not verified: Go's encoding/binary, strconv.Quote/FormatInt/ParseInt, fmt.Sprintf padding, unicode.IsPrint table (sampled: the oracle is given IsPrint for the alphabet runes by this file), "
    "float32<->float64 conversion (modelled on bit patterns, compared with Go), float printing (strconv.FormatFloat 'g' -1; only tested, not modelled), memory budget of pack/unpack (unlimited runtime only)",
]

MSG = {
    "arg out of limits [1,16]": "EBadOptionArg", "missing size": "EMissingSize", "bad value type": "EBadType",
    "overflow": "EOutOfBounds", "invalid next option after 'X'": "EExpectedOption",
    "alignment not power of 2": "EBadAlignment", "packed string too short: unexpected end": "EUnexpectedPackEnd",
    "does not fit into Lua integer": "EDoesNotFit", "string longer than format spec": "EStringLongerThanFormat",
    "string does not fit": "EStringDoesNotFit", "variable-length format": "EVariableLength",
    "invalid format: option size overflow": "EOverflow", "string contains zeros": "EStringContainsZeros",
    "not enough values for format string": "ENotEnoughValues", "EOF": "EEOF", "format result too large": "EResultTooLarge",
}

MININT, MAXINT = -(1 << 63), (1 << 63) - 1


def hexs(b):
    return b.hex() if b else "-"


def val_tok(v):
    if v is None:
        return "n"
    if isinstance(v, bool):
        return "b1" if v else "b0"
    if isinstance(v, int):
        return "i%d" % v
    if isinstance(v, float):
        if v != v:
            return "fnan"
        return "f%016x" % struct.unpack("<Q", struct.pack("<d", v))[0]
    if isinstance(v, tuple):   # ('fbits', int)
        b = v[1]
        if (b & 0x7ff0000000000000) == 0x7ff0000000000000 and (b & 0xfffffffffffff):
            return "fnan"
        return "f%016x" % b
    return "s" + hexs(v)


def vals_tok(vs):
    return ",".join(val_tok(v) for v in vs) if vs else "-"


def go_class(field):
    """'ok:...' stays; 'err:<hex msg>' -> 'err:<class>'"""
    if field.startswith("err:"):
        h = field[4:]
        msg = bytes.fromhex(h).decode("utf-8", "replace") if h != "-" else ""
        msg = re.sub(r"^[^:]*:\d+: ", "", msg)
        if msg in MSG:
            return "err:" + MSG[msg]
        m = re.match(r"invalid format option '(.*)'$", msg, re.S)
        if m:
            c = m.group(1)
            if len(c) == 1 and 32 <= ord(c) < 127 and c not in "'\\":
                return "err:EBadFormat/%x" % ord(c)
            return "err:EBadFormat/*"
        return "err:?" + msg
    return field


def norm_model(field):
    m = re.match(r"err:EBadFormat/([0-9a-f]+)$", field)
    if m:
        c = int(m.group(1), 16)
        if not (32 <= c < 127) or chr(c) in "'\\":
            return "err:EBadFormat/*"
    return field


def fields(line):
    d = {}
    for tok in line.split(" ")[1:]:
        if ":" in tok:
            k, v = tok.split(":", 1)
            d[k] = v
        else:
            d["_"] = tok
    return d


# ---------------------------------------------------------------- S: the manual's pack layout
INT_KINDS = {  # option -> (size, signed)     native sizes as chosen by golua
    "b": (1, True), "B": (1, False), "h": (2, True), "H": (2, False), "l": (8, True), "L": (8, False),
    "j": (8, True), "J": (8, False), "T": (8, False),
}


def f32_round(x):
    """double -> nearest float32 as a double; None if out of float32 range (unspecified in C)"""
    if x != x or x in (float("inf"), float("-inf")):
        return x
    try:
        return struct.unpack("<f", struct.pack("<f", x))[0]
    except OverflowError:
        return None


def ref_pack(tokens, values):
    """Reference layout per Lua 5.4 manual §6.4.2.  tokens: list of tuples.  Returns
    ('ok', bytes, returned_values) | ('err', why) | ('unspec', why)."""
    little, maxal = True, 1
    out = bytearray()
    ret = []
    vi = 0
    i = 0

    def alignment(tok):
        k = tok[0]
        if k == "int":
            return tok[1]
        if k == "flt":
            return 4 if tok[1] == "f" else 8
        if k == "s":
            return tok[1]
        if k == "x":
            return 1
        return 0   # c, z, space, controls: not alignable

    def do_align(n):
        n = min(n, maxal)
        if n & (n - 1):
            return False
        while len(out) % n:
            out.append(0)
        return True

    while i < len(tokens):
        t = tokens[i]
        k = t[0]
        if k in ("<", "="):
            little = True
        elif k == ">":
            little = False
        elif k == "!":
            maxal = t[1] if t[1] is not None else 1
            if not (1 <= maxal <= 16):
                return ("err", "bad !")
        elif k == " ":
            pass
        elif k == "X":
            if i + 1 >= len(tokens):
                return ("err", "X at end")
            a = alignment(tokens[i + 1])
            if a == 0:
                return ("err", "X before non-alignable")
            if tokens[i + 1][0] in ("int", "s") and not (1 <= tokens[i + 1][1] <= 16):
                return ("err", "bad size")
            if not do_align(a):
                return ("err", "alignment")
            i += 1
        elif k == "x":
            out.append(0)
        elif k == "bad":
            return ("err", "malformed")
        else:
            if k == "int" or k == "s":
                if not (1 <= t[1] <= 16):
                    return ("err", "bad size")
            if k in ("int", "flt", "s"):
                if not do_align(alignment(t)):
                    return ("err", "alignment")
            if vi >= len(values):
                return ("err", "no value")
            v = values[vi]
            vi += 1
            if k == "int":
                size, signed = t[1], t[2]
                if not isinstance(v, int) or isinstance(v, bool):
                    if isinstance(v, float) and v == v and abs(v) < 2.0 ** 63 and v == int(v):
                        v = int(v)
                    else:
                        return ("err", "not an integer")
                if size < 8:
                    lo, hi = (-(1 << (8 * size - 1)), (1 << (8 * size - 1)) - 1) if signed else (0, (1 << (8 * size)) - 1)
                    if not (lo <= v <= hi):
                        return ("err", "overflow")
                u = v & ((1 << 64) - 1)
                if size <= 8:
                    bs = (u & ((1 << (8 * size)) - 1)).to_bytes(size, "little")
                else:
                    fill = 0xff if (signed and v < 0) else 0
                    bs = u.to_bytes(8, "little") + bytes([fill]) * (size - 8)
                out += bs if little else bs[::-1]
                ret.append(v)
            elif k == "flt":
                if isinstance(v, bool) or not isinstance(v, (int, float)):
                    return ("err", "not a number")
                x = float(v)
                if t[1] == "f":
                    r = f32_round(x)
                    if r is None:
                        return ("unspec", "double outside float range")
                    if r != r:
                        bs = None   # NaN payload/sign not fixed by the manual
                        out += b"\x00\x00\xc0\x7f" if little else b"\x7f\xc0\x00\x00"
                        ret.append(r)
                        i += 1
                        continue
                    bs = struct.pack("<f", r)
                    ret.append(r)
                else:
                    bs = struct.pack("<d", x) if x == x else struct.pack("<Q", 0x7ff8000000000001)  # the harness's NaN
                    ret.append(x)
                out += bs if little else bs[::-1]
            elif k == "s":
                size = t[1]
                if not isinstance(v, bytes):
                    return ("unspec", "coercion to string")
                if size < 8 and len(v) >= (1 << (8 * size)):
                    return ("err", "length does not fit")
                bs = len(v).to_bytes(min(size, 8), "little") + bytes(max(0, size - 8))
                out += bs if little else bs[::-1]
                out += v
                ret.append(v)
            elif k == "z":
                if not isinstance(v, bytes):
                    return ("unspec", "coercion to string")
                if 0 in v:
                    return ("err", "zeros in z")
                out += v + b"\0"
                ret.append(v)
            elif k == "c":
                n = t[1]
                if n is None:
                    return ("err", "c without size")
                if not isinstance(v, bytes):
                    return ("unspec", "coercion to string")
                if len(v) > n:
                    return ("err", "string longer than size")
                out += v + bytes(n - len(v))
                ret.append(v + bytes(n - len(v)))
        i += 1
    return ("ok", bytes(out), ret)


FORMAT_ERRORS = ("EBadOptionArg", "EMissingSize", "EExpectedOption", "EBadAlignment", "EOverflow", "EBadFormat", "EResultTooLarge")


def ref_layout(tokens):
    """Well-formedness and size of a pack format by the manual (native sizes / limits as chosen by golua: option sizes
    are read as 64-bit unsigned numbers, a result must fit a Lua integer).  Independent of any value.
    Returns ('err', why) | ('ok', size) | ('var', None) for well-formed variable-length formats."""
    maxal, size, var = 1, 0, False
    i = 0

    def al_of(t):
        k = t[0]
        if k in ("int", "s"):
            return t[1]
        if k == "flt":
            return 4 if t[1] == "f" else 8
        if k == "x":
            return 1
        return 0

    def check(t):
        k = t[0]
        if k in ("int", "s") and not (1 <= t[1] <= 16):
            return "bad size"
        if k == "c" and (t[1] is None or t[1] >= 1 << 64):
            return "bad size"
        if k == "!" and t[1] is not None and not (1 <= t[1] <= 16):
            return "bad !"
        if k == "bad":
            return "malformed"
        return None

    while i < len(tokens):
        t = tokens[i]
        k = t[0]
        e = check(t)
        if e:
            return ("err", e)
        if k == "!":
            maxal = t[1] if t[1] is not None else 1
        elif k == "X":
            if i + 1 >= len(tokens):
                return ("err", "X at end")
            nx = tokens[i + 1]
            e = check(nx)
            if e:
                return ("err", e)
            a = al_of(nx)
            if a == 0:
                return ("err", "X before non-alignable")
            a = min(a, maxal)
            if a & (a - 1):
                return ("err", "alignment")
            size += (-size) % a
            i += 1
        elif k in ("int", "flt", "s", "x", "c", "z"):
            a = min(al_of(t), maxal) if k in ("int", "flt", "s") else 0
            if a:
                if a & (a - 1):
                    return ("err", "alignment")
                size += (-size) % a
            if k == "int":
                size += t[1]
            elif k == "flt":
                size += 4 if t[1] == "f" else 8
            elif k == "x":
                size += 1
            elif k == "c":
                size += t[1]
            else:
                var = True
        if size > MAXINT:
            return ("err", "result too large")
        i += 1
    return ("var", None) if var else ("ok", size)


SIZESET = [0, 1, 2, 3, 4, 5, 7, 8, 9, 12, 15, 16, 17, 32, 1 << 31, (1 << 63) - 1, 1 << 63, (1 << 64) - 1, 1 << 64, (1 << 64) + 1,
           (1 << 64) + 2, (1 << 64) + 3, 184467440737095516160, 99999999999999999999, 18446744073709551616000, 1844674407370955162]


def gen_wf(rng):
    """Short formats stressing well-formedness: option sizes from SIZESET, X followed by every option kind,
    !n for every n in 1..17 (and SIZESET), with dummy fitting values."""
    def sized(kind, n):
        if kind == "i":
            return ("int", n, True, "i%d" % n)
        if kind == "I":
            return ("int", n, False, "I%d" % n)
        if kind == "s":
            return ("s", n, "s%d" % n)
        if kind == "c":
            return ("c", n)
        return ("!", n)

    def any_opt():
        r = rng.below(14)
        if r < 5:
            n = rng.choice(SIZESET) if rng.chance(1, 2) else 1 + rng.below(17)
            return sized(rng.choice("iIsc!"), n)
        if r < 7:
            o = rng.choice(list(INT_KINDS))
            return ("int",) + INT_KINDS[o] + (o,)
        if r < 8:
            return ("flt", rng.choice("fdn"))
        if r < 9:
            return ("int", 8, True, "i") if rng.chance(1, 2) else ("s", 8, "s")
        return rng.choice([("x",), ("z",), (" ",), ("<",), (">",), ("=",), ("!", None), ("c", None), ("X",), ("bad", "y")])
    toks = []
    if rng.chance(2, 3):
        toks.append(("!", rng.choice([None] + list(range(1, 18)) * 3 + SIZESET[12:])))
    for _ in range(1 + rng.below(3)):
        if rng.chance(1, 3):
            toks.append(("X",))
        toks.append(any_opt())
    if rng.chance(1, 8):
        toks.append(("X",))
    vals = []
    i = 0
    while i < len(toks):
        t = toks[i]
        if t[0] == "X":
            i += 2
            continue
        if t[0] == "int":
            vals.append(1)
        elif t[0] == "flt":
            vals.append(1.5)
        elif t[0] in ("s", "z", "c"):
            vals.append(b"a" if not (t[0] == "c" and t[1] == 0) else b"")
        i += 1
    return toks, vals + [1, 1]


def tok_text(t, explicit=True):
    k = t[0]
    if k in "<>=x zX":
        return k
    if k == "!":
        return "!" + ("" if t[1] is None else str(t[1]))
    if k == "int":
        return t[3]
    if k == "flt":
        return t[1]
    if k == "s":
        return t[2]
    if k == "c":
        return "c" + ("" if t[1] is None else str(t[1]))
    if k == "bad":
        return t[1]
    raise ValueError(t)


def gen_int_token(rng):
    r = rng.below(10)
    if r < 4:
        o = rng.choice(list(INT_KINDS))
        size, signed = INT_KINDS[o]
        return ("int", size, signed, o)
    signed = rng.chance(1, 2)
    if r < 5:
        return ("int", 8, signed, "i" if signed else "I")     # default size of i/I in golua is 8
    size = rng.choice([1, 2, 3, 4, 5, 6, 7, 8, 9, 10, 12, 15, 16, 3, 7, 8, 16])
    return ("int", size, signed, ("i" if signed else "I") + str(size))


def int_value(rng, size, signed, fit=True):
    bits = 8 * min(size, 8)
    if signed or size > 8:
        lo, hi = -(1 << (bits - 1)), (1 << (bits - 1)) - 1
        if size > 8 and not signed:
            lo, hi = MININT, MAXINT
    else:
        lo, hi = 0, (1 << bits) - 1
        if size == 8:
            lo, hi = MININT, MAXINT      # the manual: any lua_Integer is packed modulo 2^64
    if not fit:
        if size >= 8:
            return None
        return rng.choice([lo - 1, hi + 1, lo - 1 - rng.below(1000), hi + 1 + rng.below(1000), MININT, MAXINT])
    r = rng.below(12)
    cands = [lo, lo + 1, hi, hi - 1, 0, 1, -1 if lo < 0 else 2, (hi + 1) // 2, (hi + 1) // 2 - 1, 127, 128, 255]
    if r < len(cands) and lo <= cands[r] <= hi:
        return cands[r]
    return lo + rng.next() % (hi - lo + 1)


FLOATS = [0.0, -0.0, 1.0, -1.5, 0.1, 3.4028234663852886e38, -3.4028234663852886e38, float("inf"), float("-inf"),
          1.401298464324817e-45, 1e-50, 5e-324, 1.7976931348623157e308, 16777217.0, 2.0 ** 63, -2.0 ** 63,
          1.1754943508222875e-38, 1.1754942106924411e-38, 0.5, 1e15]


def float_value(rng):
    r = rng.below(10)
    if r < 5:
        return rng.choice(FLOATS)
    if r == 5:
        return float("nan")
    if r == 6:
        return rng.choice([0, 1, -1, 2 ** 53, 2 ** 53 + 1, MAXINT, MININT, 2 ** 62 + 1, 123456789012345678])
    b = rng.next()
    x = struct.unpack("<d", struct.pack("<Q", b))[0]
    if r < 9:   # keep within float32 range most of the time
        e = 1023 - 30 + rng.below(60)
        b = (b & 0x800fffffffffffff) | (e << 52)
        x = struct.unpack("<d", struct.pack("<Q", b))[0]
    return x


def str_value(rng, maxlen=12, zeros=True):
    n = rng.geometric(4, maxlen)
    alpha = [0, 1, 65, 97, 255, 128, 10, 48] if zeros else [1, 65, 97, 255, 128, 10, 48]
    return bytes(rng.choice(alpha) if rng.chance(3, 4) else 1 + rng.below(255) for _ in range(n))


def gen_valid(rng, spoil=False):
    """A format from the pack grammar with fitting values (spoil: one value made unfit)."""
    n = 1 + rng.geometric(3, 10)
    tokens, values = [], []
    spoil_at = rng.below(n) if spoil else -1
    spoiled = False
    for idx in range(n):
        r = rng.below(100)
        bad = (idx == spoil_at)
        if r < 8:
            tokens.append((rng.choice("<>="),))
        elif r < 14:
            tokens.append(("!", rng.choice([None, 1, 2, 4, 8, 16, 2, 4, 8])))
        elif r < 17:
            tokens.append((" ",))
        elif r < 22:
            tokens.append(("x",))
        elif r < 27:
            # X + alignable option
            nxt = gen_int_token(rng) if rng.chance(3, 4) else ("flt", rng.choice("fdn"))
            tokens.append(("X",))
            tokens.append(nxt)
            # X consumes the option: mark by wrapping in ref_pack (it skips i+1)
        elif r < 62:
            t = gen_int_token(rng)
            v = int_value(rng, t[1], t[2], fit=not bad)
            if v is None:
                v = int_value(rng, t[1], t[2])
            elif bad:
                spoiled = True
            tokens.append(t)
            values.append(v)
        elif r < 74:
            t = ("flt", rng.choice("fdn"))
            tokens.append(t)
            if bad:
                values.append(None)
                spoiled = True
            else:
                values.append(float_value(rng))
        elif r < 84:
            size = rng.choice([None, 1, 2, 3, 4, 7, 8, 9, 16])
            tokens.append(("s", 8 if size is None else size, "s" + ("" if size is None else str(size))))
            values.append(str_value(rng))
        elif r < 92:
            tokens.append(("z",))
            values.append(str_value(rng, zeros=bad))
            if bad and 0 in values[-1]:
                spoiled = True
        else:
            s = str_value(rng)
            nn = len(s) + (rng.below(4) if not bad else -1)
            if nn < 0:
                nn = 0
            if bad and nn < len(s):
                spoiled = True
            if nn == 0 and rng.chance(1, 2):
                nn = 1
            tokens.append(("c", nn))
            values.append(s)
    if spoil and not spoiled:
        # drop the last value instead (if any value is consumed at all)
        if values:
            values = values[:-1]
    return tokens, values


BAD_SNIPPETS = ["i0", "i17", "I0", "I17", "!0", "!17", "!32", "c", "s0", "s17", "X", "X ", "XX", "Xz", "Xc", "Xc2", "y", "?", " 9", "%", "\x00",
                "i18446744073709551616", "c18446744073709551616", "!99999999999999999999", "X<", "X!4", "k", "Z", "@", "\xff", "\xe9"]


def gen_malformed(rng):
    tokens, values = gen_valid(rng)
    pos = rng.below(len(tokens) + 1)
    # keep "X" + option pairs together
    while pos > 0 and pos < len(tokens) and tokens[pos - 1][0] == "X":
        pos -= 1
    sn = rng.choice(BAD_SNIPPETS)
    if sn == "X":
        pos = len(tokens)      # 'X' is malformed only when nothing alignable follows
    tokens = tokens[:pos] + [("bad", sn)] + tokens[pos:]
    return tokens, values


def fmt_of(tokens, rng=None):
    parts = []
    for i, t in enumerate(tokens):
        s = tok_text(t)
        parts.append(s)
        # a following digit would be read as part of this option's size: separate with a space only
        # when that cannot change the meaning (after X a space is significant)
    return "".join(parts).encode("latin-1")


def needs_sep(tokens):
    """True if concatenating token texts would glue a size to following digits (none of our tokens start with a digit
    except malformed snippets, which we leave as they are)."""
    return False


# ---------------------------------------------------------------- %q reference (manual 3.1 string literals)
def ref_unescape(lit):
    """Decode a double-quoted Lua string literal (bytes) per the manual; None if not valid Lua."""
    if len(lit) < 2 or lit[:1] != b'"' or lit[-1:] != b'"':
        return None
    s = lit[1:-1]
    out = bytearray()
    i = 0
    simple = {ord("a"): 7, ord("b"): 8, ord("f"): 12, ord("n"): 10, ord("r"): 13, ord("t"): 9, ord("v"): 11,
              ord("\\"): 92, ord('"'): 34, ord("'"): 39, 10: 10}
    while i < len(s):
        c = s[i]
        if c == 34 or c == 10 or c == 13:
            return None
        if c != 92:
            out.append(c)
            i += 1
            continue
        i += 1
        if i >= len(s):
            return None
        c = s[i]
        if c in simple:
            out.append(simple[c])
            i += 1
        elif c == ord("x"):
            h = s[i + 1:i + 3]
            if len(h) != 2 or not re.match(rb"[0-9a-fA-F]{2}$", h):
                return None
            out.append(int(h, 16))
            i += 3
        elif c == ord("z"):
            i += 1
            while i < len(s) and s[i] in b" \t\r\n\f\v":
                i += 1
        elif 48 <= c <= 57:
            j = i
            while j < len(s) and j < i + 3 and 48 <= s[j] <= 57:
                j += 1
            v = int(s[i:j])
            if v > 255:
                return None
            out.append(v)
            i = j
        elif c == ord("u"):
            m = re.match(rb"u\{([0-9a-fA-F]+)\}", s[i:])
            if not m:
                return None
            cp = int(m.group(1), 16)
            if cp >= 1 << 31:
                return None
            out += utf8_ext(cp)
            i += m.end()
        else:
            return None
    return bytes(out)


def utf8_ext(cp):
    if cp < 0x80:
        return bytes([cp])
    if cp < 0x800:
        return bytes([0xC0 | cp >> 6, 0x80 | cp & 63])
    if cp < 0x10000:
        return bytes([0xE0 | cp >> 12, 0x80 | (cp >> 6) & 63, 0x80 | cp & 63])
    if cp < 0x200000:
        return bytes([0xF0 | cp >> 18, 0x80 | (cp >> 12) & 63, 0x80 | (cp >> 6) & 63, 0x80 | cp & 63])
    if cp < 0x4000000:
        return bytes([0xF8 | cp >> 24, 0x80 | (cp >> 18) & 63, 0x80 | (cp >> 12) & 63, 0x80 | (cp >> 6) & 63, 0x80 | cp & 63])
    return bytes([0xFC | cp >> 30, 0x80 | (cp >> 24) & 63, 0x80 | (cp >> 18) & 63, 0x80 | (cp >> 12) & 63, 0x80 | (cp >> 6) & 63, 0x80 | cp & 63])


# alphabet for %q: one representative (or more) of every escape class
Q_ALPHA = [b"\x00", b"\x01", b"\x07", b"\t", b"\n", b"\r", b"\x1b", b" ", b'"', b"'", b"\\", b"a", b"0", b"9", b"x", b"u", b"{",
           b"\x7f", b"\x80", b"\xbf", b"\xc2", b"\xe2", b"\xff", b"\xc3\xa9", b"\xe2\x82\xac", b"\xf0\x9f\x98\x80",
           b"\xc2\x85", b"\xc2\xad", b"\xe2\x80\x8b", b"\xef\xbf\xbd", b"\xed\xa0\x80", b"\xf4\x90\x80\x80", b"\xc0\x80"]
# runes of the alphabet that unicode.IsPrint accepts / rejects (the model takes IsPrint as a parameter)
PRINTABLE_RUNES = {0xe9, 0x20ac, 0x1f600, 0xfffd}


def has_nonprintable_rune(s):
    """defect class of C17-q-nonprintable-rune: s contains a valid multi-byte UTF-8 sequence whose rune
    is not printable (Go's strconv.Quote then writes \\uXXXX / \\UXXXXXXXX, which is not Lua)."""
    i = 0
    while i < len(s):
        b = s[i]
        if b < 0x80:
            i += 1
            continue
        n = 2 if 0xC2 <= b <= 0xDF else 3 if 0xE0 <= b <= 0xEF else 4 if 0xF0 <= b <= 0xF4 else 0
        if n:
            try:
                r = s[i:i + n].decode("utf-8")
                if len(r) == 1:
                    if not r.isprintable() or ord(r) not in PRINTABLE_RUNES and not r.isprintable():
                        return True
                    if not go_isprint(ord(r)):
                        return True
                    i += n
                    continue
            except UnicodeDecodeError:
                pass
        i += 1
    return False


def printable_tab(s):
    """the runes >= 0x80 decodable at some offset of s that unicode.IsPrint accepts (per go_isprint), for the oracle"""
    out = set()
    for i in range(len(s)):
        for n in (2, 3, 4):
            try:
                r = s[i:i + n].decode("utf-8")
            except UnicodeDecodeError:
                continue
            if len(r) == 1 and ord(r) >= 0x80 and go_isprint(ord(r)):
                out.add(ord(r))
    return ",".join("%x" % r for r in sorted(out)) or "-"


def go_isprint(r):
    """unicode.IsPrint approximated by Python's str.isprintable (letters, marks, numbers, punctuation, symbols
    and ASCII space); only used to classify failures under the known finding, never to excuse anything else."""
    if r == 0x20:
        return True
    return chr(r).isprintable() and not chr(r).isspace()


# ---------------------------------------------------------------- run
def run(tier, seed):
    ck = vlib.Check("C17", tier, seed, level="proof")
    ok_obl = ck.obligations(PROP, clean=False)
    gvh, err = ck.build_gvh(pkg="./cmd/gvh-pack", name="gvh_pack", overlay=os.environ.get("VERIF_OVERLAY"))
    if gvh is None:
        ck.violation("harness does not build against /repo", {"kind": "build", "stderr": err[-3000:]}, no_input=True)
        return ck.finish("n/a", TRUSTED, [])
    oracle = ck.build_oracle("pack")
    if oracle is None:
        ck.violation("oracle (extracted model) does not build", {"kind": "build"}, no_input=True)
        return ck.finish("n/a", TRUSTED, [])
    st = State(ck, gvh, oracle)
    st.corpus()
    st.pack_cases(8000 if tier == "quick" else 150000)
    st.wf_cases(2500 if tier == "quick" else 40000)
    st.unpack_fuzz(2500 if tier == "quick" else 80000)
    st.quote_cases(3 if tier == "quick" else 4)
    st.number_cases(3000 if tier == "quick" else 60000)
    st.finish_pack()
    if not ok_obl:
        ck.violation("proof obligations of C17 no longer check: " + str(ck.cov.get("obligation_failure", ""))[:300],
                     {"kind": "proof", "theorem_file": PROP, "detail": ck.cov.get("obligation_failure")},
                     no_input=(st.s_fail == 0))
    ck.cov["correspondence_differences"] = st.im_diff
    ck.cov["property_failures"] = st.s_fail
    ck.cov["exhaustive"] = False
    return ck.finish(
        rule="pack: formats from the pack grammar (endianness, ![n], every integer option and width 1..16, f d n, s[n] z c[n], x, X<op>, spaces) "
             "with boundary/random fitting values, the same with one unfit/missing value, and malformed formats (bad sizes, overflowing "
             "numerals, X before a non-alignable option, unknown options); unpack: packed strings truncated / corrupted / shifted start; "
             "non-trivial = pack succeeded with at least one value, or an error of a class not seen before for that option; distinct by case line",
        trusted_base=TRUSTED,
        assumptions=["runtime without limits (pack/unpack memory budget = unbounded)",
                     "values in numeric positions are numbers or nil, in string positions strings, integers or nil (no string->number / float->string coercion inside pack)",
                     "amd64 little-endian host (nativeEndian = little)"])


class State:
    def __init__(self, ck, gvh, oracle):
        self.ck, self.gvh, self.oracle = ck, gvh, oracle
        self.im_diff = 0
        self.s_fail = 0
        self.first_im = None
        self.err_seen = set()

    # -------------------------------------------------- helpers
    def both(self, lines, resilient=False, per_case_timeout=30):
        if resilient:
            impl = vlib.run_lines_resilient(self.gvh, [], lines, per_case_timeout=per_case_timeout, mem_kb=3 * 1024 * 1024)
            rc1 = 0
        else:
            rc1, impl, e1 = vlib.run_lines(self.gvh, [], lines, timeout=1800)
        rc2, model, e2 = vlib.run_lines(self.oracle, [], lines, timeout=1800)
        if rc1 != 0 or len(impl) != len(lines):
            bad = lines[min(len(impl), len(lines) - 1)]
            self.ck.violation("gvh-pack crashed or produced %d/%d lines" % (len(impl), len(lines)),
                              {"kind": "crash", "stderr": (e1 if not resilient else "")[-2000:], "line": bad})
        if rc2 != 0 or len(model) != len(lines):
            self.ck.violation("oracle crashed (%d/%d lines)" % (len(model), len(lines)),
                              {"kind": "oracle-crash", "stderr": e2[-2000:]}, no_input=True)
        return impl, model

    def known(self, kid, detail=""):
        k = self.ck.known_match(lambda k: k["id"] == kid)
        if k is not None:
            self.ck.known_finding(k, detail)
            return True
        return False

    def s_violation(self, summary, replay):
        """at most 3 replays per category of failure (category = the summary up to the first ':' or '('), 24 in all"""
        self.s_fail += 1
        cat = re.sub(r"\d+", "N", summary[:150]) if "well-formedness" in summary else re.split(r"[:(]", summary, 1)[0][:60]
        self.s_cat = getattr(self, "s_cat", {})
        self.s_cat[cat] = self.s_cat.get(cat, 0) + 1
        if self.s_cat[cat] <= 3 and len(self.ck.violations) < 24:
            self.ck.violation(summary, replay)

    def im_difference(self, line, impl, model):
        self.im_diff += 1
        if self.first_im is None:
            self.first_im = {"line": line, "impl": impl, "model": model}

    # -------------------------------------------------- corpus
    def corpus(self):
        """corpus/C17/*: '<case line> => <expected fields>' — witnesses of repaired defects, run first."""
        ck = self.ck
        d = os.path.join(vlib.VERIF, "corpus", "C17")
        entries = []
        if os.path.isdir(d):
            for fn in sorted(os.listdir(d)):
                for l in open(os.path.join(d, fn)):
                    l = l.strip()
                    if l and not l.startswith("#") and "=>" in l:
                        a, b = l.split("=>")
                        entries.append((a.strip(), b.strip()))
        if not entries:
            return
        lines = ["c%d %s" % (i, a) for i, (a, b) in enumerate(entries)]
        impl, model = self.both(lines, resilient=True)
        for i, (a, exp) in enumerate(entries):
            if i >= len(impl) or i >= len(model):
                break
            ck.count("corpus")
            ck.case(a, True)
            gi, mo = fields(impl[i]), fields(model[i])
            bad = None
            for tok in exp.split():
                k, want = tok.split(":", 1)
                got = gi.get(k)
                if got is None:
                    bad = (k, want, impl[i][:120])
                elif want == "*":
                    continue
                elif want == "err":
                    if not got.startswith("err:"):
                        bad = (k, want, got)
                elif got != want:
                    bad = (k, want, got)
                if bad:
                    break
            if bad:
                self.s_violation("corpus witness of a repaired defect fails again: %s (field %s: expected %s, got %s)" % (a, bad[0], bad[1], bad[2]),
                                 {"kind": "Go!=S", "engine": "pack", "line": lines[i], "expected": exp, "impl": impl[i], "model": model[i]})
            # Go vs IM on the same line (not for what the model does not cover, e.g. float printing)
            if "unmodelled" in model[i]:
                continue
            same = True
            for k in ("P", "U", "S", "L", "V", "F"):
                if k in gi or k in mo:
                    g = gi.get(k, "?")
                    g = go_class(g) if g.startswith("err:") else g
                    m = norm_model(mo.get(k, "?"))
                    if k == "V" and gi.get("L") != "K":
                        continue
                    if g != m:
                        same = False
            if not same:
                self.im_difference(lines[i], impl[i], model[i])

    # -------------------------------------------------- pack / unpack / packsize
    def pack_cases(self, n):
        ck = self.ck
        rng = ck.rng
        cases = []
        for i in range(n):
            r = i % 10
            if r < 6:
                tokens, values = gen_valid(rng)
                fam = "valid"
            elif r < 8:
                tokens, values = gen_valid(rng, spoil=True)
                fam = "unfit"
            else:
                tokens, values = gen_malformed(rng)
                fam = "malformed"
            cases.append((fam, tokens, values))
        lines = ["p%d R %s %s" % (i, hexs(fmt_of(t)), vals_tok(v)) for i, (f, t, v) in enumerate(cases)]
        impl, model = self.both(lines)
        self.packed = []   # (fmt bytes, packed bytes) of successful packs, for the unpack fuzz
        for i, (fam, tokens, values) in enumerate(cases):
            if i >= len(impl) or i >= len(model):
                break
            self.judge_pack(lines[i], fam, tokens, values, impl[i], model[i])

    def judge_pack(self, line, fam, tokens, values, impl, model):
        ck = self.ck
        gi, mo = fields(impl), fields(model)
        gP, gU, gS = go_class(gi.get("P", "?")), gi.get("U", "?"), go_class(gi.get("S", "?"))
        if gU.startswith("err:"):
            gU = go_class(gU)
        mP, mU, mS = norm_model(mo.get("P", "?")), norm_model(mo.get("U", "?")), norm_model(mo.get("S", "?"))
        ck.count("family:" + fam)
        for t in tokens:
            ck.count("opt:" + (t[3][0] if t[0] == "int" else t[0] if t[0] != "flt" else t[1]))
            if t[0] == "int":
                ck.count("intsize:%d" % t[1])
        ck.count("pack:" + (gP.split(":")[1] if gP.startswith("err:") else "ok"))
        nontrivial = (gP.startswith("ok:") and len(values) > 0)
        if gP.startswith("err:"):
            key = (gP, tuple(sorted(set(tok_text(t)[0] for t in tokens if t[0] != "bad"))))
            if key not in self.err_seen:
                self.err_seen.add(key)
                nontrivial = True
        ck.case(line.split(" ", 1)[1], nontrivial)
        fmtb = fmt_of(tokens)
        if gP.startswith("ok:s"):
            self.packed.append((fmtb, bytes.fromhex(gP[4:]) if gP[4:] != "-" else b""))
        # ---- Go vs S
        ref = ref_pack(tokens, values)
        sfail = None
        if ref[0] == "ok":
            exp_p = "ok:" + val_tok(ref[1])
            exp_u = "ok:" + ",".join([val_tok(v) for v in ref[2]] + ["i%d" % (len(ref[1]) + 1)])
            if gP != exp_p:
                sfail = ("pack", exp_p, gP)
            elif gU != exp_u:
                sfail = ("unpack∘pack", exp_u, gU)
            elif not any(t[0] in ("s", "z") for t in tokens):
                if gS != "ok:i%d" % len(ref[1]):
                    sfail = ("packsize", "ok:i%d" % len(ref[1]), gS)
        elif ref[0] == "err":
            if not gP.startswith("err:"):
                sfail = ("pack must raise an error (%s)" % ref[1], "err", gP)
        if sfail:
            kid = self.classify_pack_finding(tokens, values, ref, gP, gU, gS)
            if kid and self.known(kid):
                ck.count("known:" + kid)
            else:
                self.s_violation("string.%s contradicts the manual: expected %s, got %s" % sfail,
                                 {"kind": "Go!=S", "engine": "pack", "line": line, "format": fmtb.decode("latin-1"),
                                  "values": [repr(v) for v in values], "expected": sfail[1], "impl": impl, "model": model,
                                  "theorems": ["C17_unpack_pack", "C17_int_roundtrip", "C17_uint_roundtrip"]})
        # ---- Go vs IM
        if "EUnmodelled" in mP or "EUnmodelled" in mU:
            ck.count("model:unmodelled-coercion")
            return
        if mP == "err:EOverflow":
            same = gP.startswith("err:")          # documented merge: any error
        else:
            same = (gP == mP and gU == mU)
        if mS == "err:EOverflow":
            same = same and gS.startswith("err:")
        else:
            same = same and gS == mS
        if not same:
            self.im_difference(line, impl, model)
        if self.im_diff <= 12 and not same:
            ck.log("IMDIFF", line, impl, model)
        if len(ck.cov["samples"]) < 4 and nontrivial:
            ck.sample({"format": fmtb.decode("latin-1"), "values": [val_tok(v) for v in values], "impl": impl[:300]})

    def classify_pack_finding(self, tokens, values, ref, gP, gU, gS):
        """Map a Go!=S difference to a known-finding id, narrowly (call site + input predicate)."""
        texts = [tok_text(t) for t in tokens]
        # unsigned 8-byte option with a negative value rejected with "overflow"
        if ref[0] == "ok" and gP == "err:EOutOfBounds":
            vi = 0
            i = 0
            while i < len(tokens):
                t = tokens[i]
                if t[0] == "X":
                    i += 2
                    continue
                if t[0] in ("int", "flt", "s", "z", "c"):
                    v = values[vi] if vi < len(values) else None
                    vi += 1
                    if t[0] == "int" and not t[2] and t[1] == 8 and isinstance(v, int) and v < 0:
                        return "C17-pack-unsigned8-negative"
                    if t[0] == "flt" and t[1] == "f" and isinstance(v, float) and v != v:
                        return "C17-pack-f-nan"
                i += 1
        # X followed by x: pack treats it as a no-op (as the reference does), unpack skips a byte
        for a, b in zip(tokens, tokens[1:]):
            if a[0] == "X" and b[0] == "x":
                return "C17-unpack-X-x"
        # malformed X accepted by pack
        if ref[0] == "err" and ref[1] in ("X before non-alignable", "X at end", "malformed") and not gP.startswith("err:"):
            f = fmt_of(tokens).decode("latin-1")
            if re.search(r"X[<>=!0-9]*[ Xzc]", f) or re.search(r"X[<>=]", f) or re.search(r"X!", f):
                return "C17-pack-X-nonalignable-accepted"
        # c0 with a non-empty string
        if ref[0] == "err" and ref[1] == "string longer than size":
            vi = 0
            i = 0
            while i < len(tokens):
                t = tokens[i]
                if t[0] == "X":
                    i += 2
                    continue
                if t[0] in ("int", "flt", "s", "z", "c"):
                    v = values[vi] if vi < len(values) else None
                    vi += 1
                    if t[0] == "c" and t[1] == 0 and isinstance(v, bytes) and len(v) > 0:
                        return "C17-pack-c0-nonempty"
                i += 1
        return None

    def wf_cases(self, n):
        """pack, unpack and packsize must agree on which formats are well formed (and with the manual)."""
        ck = self.ck
        rng = ck.rng
        lines, meta = [], []
        for i in range(n):
            toks, vals = gen_wf(rng)
            fmtb = fmt_of(toks)
            huge = any(t[0] == "c" and t[1] is not None and 4096 < t[1] <= MAXINT for t in toks)
            lay = ref_layout(toks)
            if not huge:
                lines.append("w%dp R %s %s" % (i, hexs(fmtb), vals_tok(vals))); meta.append(("P", toks, lay, fmtb))
            lines.append("w%ds S %s" % (i, hexs(fmtb))); meta.append(("S", toks, lay, fmtb))
            lines.append("w%du U %s %s 1" % (i, hexs(fmtb), "00" * 96)); meta.append(("U", toks, lay, fmtb))
        impl, model = self.both(lines, resilient=True, per_case_timeout=8)
        for i, (op, toks, lay, fmtb) in enumerate(meta):
            if i >= len(impl) or i >= len(model):
                break
            gi, mo = fields(impl[i]), fields(model[i])
            key = {"P": "P", "S": "S", "U": "U"}[op]
            g = go_class(gi.get(key, "?" + impl[i][:60]))
            m = norm_model(mo.get(key, "?"))
            ck.count("wf:%s:%s" % (op, lay[0] if lay[0] != "err" else "err:" + lay[1]))
            ck.case(lines[i].split(" ", 1)[1], lay[0] != "ok" or op != "U")
            gerr = g.startswith("err:")
            gfmt = gerr and g[4:].split("/")[0] in FORMAT_ERRORS
            bad = None
            if lay[0] == "err":
                if not gerr:
                    bad = "malformed format (%s) accepted by %s" % (lay[1], {"P": "string.pack", "S": "string.packsize", "U": "string.unpack"}[op])
            else:
                if op == "S":
                    want = "ok:i%d" % lay[1] if lay[0] == "ok" else "err:EVariableLength"
                    if g != want:
                        bad = "string.packsize: expected %s, got %s" % (want, g)
                elif gfmt:
                    bad = "well-formed format rejected as malformed by %s (%s)" % ({"P": "string.pack", "U": "string.unpack"}[op], g)
            if bad:
                self.s_violation("pack/unpack/packsize disagree with the manual on well-formedness: " + bad,
                                 {"kind": "Go!=S", "engine": "pack", "line": lines[i], "format": fmtb.decode("latin-1"), "impl": impl[i],
                                  "model": model[i], "manual": lay, "theorems": ["C17_malformed_format_is_error", "C17_packsize_agrees"]})
            # Go vs IM
            if "EUnmodelled" in model[i]:
                continue
            same = gerr if m == "err:EOverflow" else (g == m)
            if op == "P" and same and g.startswith("ok:"):
                gu, mu = gi.get("U", "?"), norm_model(mo.get("U", "?"))
                gu = go_class(gu) if gu.startswith("err:") else gu
                same = gu == mu and go_class(gi.get("S", "?")) == norm_model(mo.get("S", "?")) or (norm_model(mo.get("S", "?")) == "err:EOverflow")
                if lay[0] != "err" and not gu.startswith("ok:"):
                    self.s_violation("string.unpack fails on string.pack's own output: " + gu,
                                     {"kind": "Go!=S", "engine": "pack", "line": lines[i], "format": fmtb.decode("latin-1"), "impl": impl[i]})
            if not same:
                self.im_difference(lines[i], impl[i], model[i])

    def unpack_fuzz(self, n):
        ck = self.ck
        rng = ck.rng
        lines = []
        src = self.packed or [(b"b", b"\x00")]
        for i in range(n):
            fmtb, data = src[rng.below(len(src))]
            r = rng.below(10)
            d = bytearray(data)
            if r < 3 and d:
                d = d[:rng.below(len(d))]
            elif r < 6 and d:
                for _ in range(1 + rng.below(3)):
                    d[rng.below(len(d))] = rng.choice([0, 255, 128, 127, rng.below(256)])
            elif r < 7:
                d += bytes(rng.below(256) for _ in range(rng.below(5)))
            elif r < 8:
                d = bytearray(rng.below(256) for _ in range(rng.below(24)))
            pos = 1
            if rng.chance(1, 4):
                pos = rng.choice([0, 1, 2, 3, len(d), len(d) + 1, len(d) + 2, -1, -2, -len(d) - 1]) if True else 1
            # string.unpack's own handling of the third argument (StringNormPos, "#3 out of string") is part of
            # stringlib's position arithmetic (C19); here only in-range positions are used
            if pos < 0:
                pos = len(d) + pos + 1
            if pos < 1 or pos > len(d) + 1:
                pos = 1
            lines.append("u%d U %s %s %d" % (i, hexs(fmtb), hexs(bytes(d)), pos))
        # cases that make the Go process panic are still run in-process here (the harness recovers);
        # the process-killing behaviour is replayed on the golua entry point by the witness check
        impl, model = self.both(lines, resilient=True)
        for i, line in enumerate(lines):
            if i >= len(impl) or i >= len(model):
                break
            gi, mo = fields(impl[i]), fields(model[i])
            if "U" not in gi:
                gU = "panic" if "GOPANIC" in impl[i] else "died" if ("CRASH" in impl[i] or "HANG" in impl[i]) else "?" + impl[i][:80]
            else:
                gU = go_class(gi["U"])
            mU = norm_model(mo.get("U", "?"))
            ck.count("unpack:" + (gU.split(":")[1] if gU.startswith("err:") else gU.split(":")[0]))
            key = ("U", gU if gU.startswith("err:") else "ok", line.split(" ")[2])
            nontrivial = key not in self.err_seen
            self.err_seen.add(key)
            ck.case(line.split(" ", 1)[1], nontrivial)
            if gU == "panic":
                self.s_violation("string.unpack panics the Go runtime",
                                 {"kind": "Go!=S", "engine": "pack", "line": line, "impl": impl[i], "model": model[i],
                                  "theorems": ["C17_unpack_no_panic"]})
                continue
            same = gU.startswith("err:") if mU == "err:EOverflow" else (gU == mU)
            if not same:
                self.im_difference(line, impl[i], model[i])

    # -------------------------------------------------- %q + load
    def quote_cases(self, maxlen):
        import itertools
        ck = self.ck
        rng = ck.rng
        strs = [b""]
        for n in range(1, maxlen + 1):
            if n <= 2 or (n == 3 and maxlen >= 4):
                strs += [b"".join(t) for t in itertools.product(Q_ALPHA, repeat=n)]
            else:
                # a third of all strings of this length (all of them in the thorough tier at length 3)
                for t in itertools.product(Q_ALPHA, repeat=n):
                    if rng.below(5 if n == 3 else 40) == 0:
                        strs.append(b"".join(t))
        for _ in range(2000):
            strs.append(bytes(rng.below(256) for _ in range(rng.geometric(5, 6))))
            strs.append(b"".join(rng.choice(Q_ALPHA) for _ in range(4 + rng.below(3))))
        lines = ["q%d Q %s %s" % (i, val_tok(s), printable_tab(s)) for i, s in enumerate(strs)]
        impl, model = self.both(lines)
        for i, s in enumerate(strs):
            if i >= len(impl) or i >= len(model):
                break
            gi, mo = fields(impl[i]), fields(model[i])
            ck.count("q:len%d" % min(len(s), 7))
            ck.case(lines[i].split(" ", 1)[1], True)
            lit = bytes.fromhex(gi["Q"]) if gi.get("Q", "-") != "-" else b""
            good = gi.get("L") == "K" and gi.get("V") == val_tok(s)
            # S: the literal must denote s under the manual's rules, and load must give s back
            ref = ref_unescape(lit)
            ck.count("q:" + ("roundtrip" if good else "fails:" + gi.get("L", "?")))
            if not good or ref != s:
                if has_nonprintable_rune(s) and re.search(rb"\\[uU][0-9a-f]{4}", lit) and self.known("C17-q-nonprintable-rune"):
                    ck.count("known:C17-q-nonprintable-rune")
                else:
                    self.s_violation("load('return '..string.format('%%q', s))() does not give s back (s = %r)" % s,
                                     {"kind": "Go!=S", "engine": "pack", "line": lines[i], "literal": lit.decode("latin-1"),
                                      "impl": impl[i], "model": model[i], "manual_reading": repr(ref),
                                      "theorems": ["C17_quote_load_string"]})
            same = gi.get("Q") == mo.get("Q") and gi.get("L") == mo.get("L") and (gi.get("L") != "K" or gi.get("V") == mo.get("V"))
            if not same:
                self.im_difference(lines[i], impl[i], model[i])
        ck.sample({"%q of": "e2808b61", "impl": next((impl[i] for i, s in enumerate(strs) if s == b"\xe2\x80\x8b" and i < len(impl)), None)})

    # -------------------------------------------------- numbers: %q, tostring/tonumber, printf directives
    def number_cases(self, n):
        ck = self.ck
        rng = ck.rng
        ints = [0, 1, -1, 9, 10, -10, 99, 100, 255, 256, MAXINT, MININT, MAXINT - 1, MININT + 1, 2 ** 53, 2 ** 53 + 1, -(2 ** 53) - 1,
                2 ** 31, 2 ** 31 - 1, -(2 ** 31), 2 ** 32, 10 ** 18, -(10 ** 18), 999999999999999999, 1000000000000000000]
        ints += [(1 << k) + d for k in range(1, 63) for d in (-1, 0, 1)] + [-(1 << k) + d for k in range(1, 64) for d in (-1, 0, 1) if -(1 << k) + d >= MININT]
        while len(ints) < n // 3:
            ints.append(rng.next() % (1 << 64) - (1 << 63) if rng.chance(1, 2) else rng.below(100000) - 50000)
        flts = list(FLOATS) + [-x for x in FLOATS] + [100.0, 1e6, 1e5, 123456.0, 1234567.0, 1e21, 1e22, 1e-5, 1e-4, 0.1 + 0.2, 2.0 ** 53, 2.0 ** 63, -2.0 ** 63, 2.0 ** 64]
        while len(flts) < n // 3:
            b = rng.next()
            x = struct.unpack("<d", struct.pack("<Q", b))[0]
            if x == x:
                flts.append(x)
        lines = []
        meta = []
        for v in ints:
            lines.append("n%d Q %s" % (len(lines), val_tok(v))); meta.append(("qi", v))
            lines.append("n%d T %s" % (len(lines), val_tok(v))); meta.append(("ti", v))
        for v in flts + [float("nan")]:
            lines.append("n%d Q %s" % (len(lines), val_tok(v))); meta.append(("qf", v))
            if v == v and v not in (float("inf"), float("-inf")):
                lines.append("n%d T %s" % (len(lines), val_tok(v))); meta.append(("tf", v))
        # integer and string directives against C printf (Python's % operator implements C's rules for these)
        specs = []
        for conv in "diuxXoc":
            for flags in ["", "-", "0", "+", " ", "#", "-0", "+0", "- ", "0 ", "#0", "#-", "+-", "#-0"]:
                for width in ["", "1", "5", "12", "25"]:
                    for prec in ["", ".0", ".3", ".12"]:
                        specs.append("%" + flags + width + prec + conv)
        sspecs = ["%s", "%5s", "%-5s", "%.2s", "%10.3s", "%.0s", "%-8.5s", "%%", "a%sb%sc", "%.1s", "%3s", "%-3s", "%6.1s", "%-6.4s",
                  "%2.5s", "%05s", "%-05s", "%+5s", "% 5s", "%#5s", "%1s", "%12s", "%.3s"]
        for sp in sspecs:
            specs += [sp, sp]
        for k in range(n // 3):
            sp = rng.choice(sspecs) if rng.below(5) == 0 else rng.choice(specs)
            conv = sp[-1]
            if conv in "diuxXo":
                v = rng.choice(ints) if rng.below(6) else rng.choice([0, 0, 1, -1, 7, 8, 255])
            elif conv == "c":
                v = rng.choice([65, 97, 0, 10, 255, 48, 128])
            else:
                v = rng.choice([b"", b"a", b"hello", b"a\x00b", b"\xff\xfe", b"wide string here", "é".encode(), "éa€".encode(), "日本語".encode(),
                                "\U0001f600x".encode(), b"\xc3", b"\xe2\x82", b"a\xffb\xc3\xa9", b"\x80\x80\x80\x80\x80\x80", "ééééééé".encode()])
            args = [] if sp == "%%" else [v, v] if sp == "a%sb%sc" else [v]
            lines.append("n%d F %s %s" % (len(lines), hexs(sp.encode()), vals_tok(args))); meta.append(("f", (sp, args)))
        impl, model = self.both(lines)
        self.c_ref = real_c_printf(ck, meta)
        for i, (kind, v) in enumerate(meta):
            if i >= len(impl) or i >= len(model):
                break
            gi, mo = fields(impl[i]), fields(model[i])
            ck.case(lines[i].split(" ", 1)[1], True)
            ck.count("num:" + kind)
            if kind == "qi":
                ok = gi.get("L") == "K" and gi.get("V") == val_tok(v) and gi.get("T") == "integer"
                if not ok:
                    self.s_violation("load('return '..string.format('%%q', %d))() ~= %d" % (v, v),
                                     {"kind": "Go!=S", "engine": "pack", "line": lines[i], "impl": impl[i], "model": model[i]})
                if gi.get("Q") != mo.get("Q") or (gi.get("V") != mo.get("V")):
                    self.im_difference(lines[i], impl[i], model[i])
            elif kind == "ti":
                ok = gi.get("S") == val_tok(str(v).encode()) and gi.get("N") == val_tok(v)
                if not ok:
                    self.s_violation("tonumber(tostring(%d)) ~= %d or tostring is not the decimal numeral" % (v, v),
                                     {"kind": "Go!=S", "engine": "pack", "line": lines[i], "impl": impl[i], "model": model[i],
                                      "theorems": ["C17_tonumber_tostring_int"]})
                if gi.get("S") != mo.get("S") or gi.get("N") != mo.get("N"):
                    self.im_difference(lines[i], impl[i], model[i])
            elif kind == "qf":
                # property: the loaded value is the SAME float: same subtype (math.type float), same bits (so -0.0 keeps
                # its sign: 1/x distinguishes it), NaN for NaN.  (Round 6: '==' alone let "-0" -> integer 0 and "2" -> 2 pass.)
                got = gi.get("V", "-")
                ok = gi.get("L") == "K" and got == val_tok(v) and (gi.get("T") == "float")
                if not ok:
                    self.s_violation("load('return '..string.format('%%q', %r))() ~= the float" % v,
                                     {"kind": "Go!=S", "engine": "pack", "line": lines[i], "impl": impl[i]})
            elif kind == "tf":
                ok = lua_eq(gi.get("N", "-"), v)
                if not ok:
                    self.s_violation("tonumber(tostring(%r)) ~= the float" % v,
                                     {"kind": "Go!=S", "engine": "pack", "line": lines[i], "impl": impl[i]})
            else:
                sp, args = v
                exp = c_printf(sp, args)
                if exp is None and i in self.c_ref:
                    exp = self.c_ref[i]          # combinations the Python fallback cannot render (e.g. %#o)
                elif exp is not None and i in self.c_ref:
                    # the platform's own printf is the reference where available (the Python rendering is a fallback
                    # and is cross-checked against it: a disagreement is a defect of this check, not of golua)
                    if self.c_ref[i] != exp:
                        ck.count("reference:python-vs-C-printf-disagree")
                        ck.notes.append("c_printf(%r, %r) = %r but C printf gives %r; C used" % (sp, args, exp, self.c_ref[i]))
                    exp = self.c_ref[i]
                got = go_class(gi.get("F", "?"))
                # Go vs IM (FmtModel.go_fmt) and S (FmtModel.c_fmt) vs the C library, for the integer directives
                if "F" in mo:
                    if got != mo["F"]:
                        self.im_difference(lines[i], impl[i], model[i])
                    if mo.get("D") == "1" and i in self.c_ref and mo.get("C") != val_tok(self.c_ref[i]):
                        ck.count("reference:coq-c_fmt-vs-C-printf-disagree")
                        self.im_difference(lines[i], "C printf: " + val_tok(self.c_ref[i]), model[i])
                if exp is None or ("#" in sp and i not in self.c_ref):
                    continue
                ck.count("fmt:" + sp[-1])
                if got != "ok:" + val_tok(exp):
                    kid = None
                    if mo.get("X") == "1" and mo.get("D") == "1":
                        kid = "C17-format-sharp-flag" if "#" in sp else "C17-format-sign-prec0-zero"
                    if kid and self.known(kid):
                        ck.count("known:" + kid)
                    else:
                        self.s_violation("string.format(%r, ...) differs from C printf: expected %r, got %s" % (sp, exp, got),
                                         {"kind": "Go!=S", "engine": "pack", "line": lines[i], "impl": impl[i], "expected": val_tok(exp)})

    def finish_pack(self):
        ck = self.ck
        if self.im_diff and not self.s_fail:
            ck.violation("implementation no longer matches the Coq model Pack/Model.v (Go≈IM/pack): %d differences; "
                         "no property-level failure found" % self.im_diff,
                         dict(self.first_im, kind="Go!=IM", correspondence="Go≈IM/pack",
                              theorems_no_longer_about_this_code=["C17_unpack_pack", "C17_int_roundtrip", "C17_uint_roundtrip",
                                                                  "C17_unpack_no_panic", "C17_malformed_format_is_error",
                                                                  "C17_quote_load_string", "C17_quote_load_int", "C17_tonumber_tostring_int"]),
                         no_input=True)
        elif self.im_diff:
            ck.log("%d Go≠IM differences (first: %s)" % (self.im_diff, self.first_im))


def lua_eq(tok, v):
    """tok: canonical value from the harness; v: python float.  Lua's == between numbers."""
    if v != v:
        return tok == "fnan"
    if tok.startswith("i"):
        n = int(tok[1:])
        return v == n and abs(v) < 2.0 ** 63 + 1 and float(n) == v and int(v) == n
    if tok.startswith("f") and tok != "fnan":
        x = struct.unpack("<d", struct.pack("<Q", int(tok[1:], 16)))[0]
        return x == v
    return False


def real_c_printf(ck, meta):
    """index -> bytes as produced by the C library's printf (gcc-built helper), for the integer/char directives
    whose behaviour C defines; {} if no C compiler is available."""
    src = os.path.join(vlib.VERIF, "lib", "props", "C17.printf.c")
    exe = os.path.join(ck.work, "cprintf")
    try:
        if not os.path.exists(exe) or os.path.getmtime(exe) < os.path.getmtime(src):
            rc, so, se = vlib.sh(["gcc", "-w", "-O0", "-o", exe, src], timeout=120)
            if rc != 0:
                return {}
    except Exception:
        return {}
    idx, lines = [], []
    for i, (kind, v) in enumerate(meta):
        if kind != "f":
            continue
        sp, args = v
        conv = sp[-1]
        if conv not in "diuxXocs" or sp == "%%" or sp == "a%sb%sc" or c_undefined(sp):
            continue
        body = sp[1:-1].replace(" ", "_")
        if conv == "s":
            if b"\x00" in args[0] or len(args[0]) > 30:
                continue
            lines.append("%%%ss b %s" % (body, hexs(args[0])))
        elif conv == "c":
            lines.append("%%%sc c %d" % (body, args[0]))
        elif conv in "di":
            lines.append("%%%slld s %d" % (body, args[0]))
        else:
            lines.append("%%%sll%s u %d" % (body, conv, args[0] % (1 << 64)))
        idx.append(i)
    if not lines:
        return {}
    rc, out, _ = vlib.run_lines(exe, [], lines, timeout=120)
    if rc != 0 or len(out) != len(lines):
        return {}
    res = {}
    for i, o in zip(idx, out):
        if o != "?":
            res[i] = bytes.fromhex(o) if o != "-" else b""
    ck.count("reference:C-printf-cases", len(res))
    return res


def c_undefined(sp):
    """flag combinations for which ISO C leaves the behaviour of the conversion undefined"""
    conv, body = sp[-1], sp[1:-1]
    flags = re.match(r"^[-+ #0]*", body).group(0)
    if conv in "di":
        return "#" in flags
    if conv == "u":
        return any(f in flags for f in "#+ ")
    if conv in "xXo":
        return any(f in flags for f in "+ ")
    if conv == "c":
        return any(f in flags for f in "#+ 0") or "." in body
    if conv == "s":
        return any(f in flags for f in "#+ 0")
    return True


def c_printf(sp, args):
    """C printf for the integer/char/string directives (via Python's % operator, which follows C here);
    None when C leaves it undefined (flag combinations printf does not define for that conversion)."""
    if sp == "%%":
        return b"%"
    conv = sp[-1]
    body = sp[1:-1]
    if conv in "diuxXo" and "." in body:
        # C: "if a precision is given with an integer conversion, the 0 flag is ignored"
        # (Python's % operator does NOT follow C here, so drop the flag before delegating to it)
        m = re.match(r"^([-+ #0]*)(.*)$", body)
        body = m.group(1).replace("0", "") + m.group(2)
    try:
        if conv in "di":
            if "#" in body:
                return None
            return (("%" + body + "d") % args[0]).encode()
        if conv == "u":
            if "#" in body or "+" in body or " " in body:
                return None
            return (("%" + body + "d") % (args[0] % (1 << 64))).encode()
        if conv in "xXo":
            if "+" in body or " " in body or (conv == "o" and "#" in body):
                return None
            return (("%" + body + conv) % (args[0] % (1 << 64))).encode()
        if conv == "c":
            if "0" in body.split(".")[0].lstrip("-+ #")[:1] or "#" in body or "+" in body or " " in body or "." in body:
                return None
            w = body.lstrip("-")
            s = bytes([args[0] % 256])
            n = int(w) if w else 0
            return s.ljust(n) if body.startswith("-") else s.rjust(n)
        if conv == "s":
            out = b""
            parts = sp.split("%s")
            if len(parts) == 3:
                return parts[0].encode() + args[0] + parts[1].encode() + args[1] + parts[2].encode()
            m = re.match(r"%(-?)(\d*)(?:\.(\d+))?s$", sp)
            if not m:
                return None
            s = args[0]
            if b"\x00" in s and (m.group(2) or m.group(3)):
                return None      # the manual: strings with embedded zeros need a plain %s
            if m.group(3) is not None:
                s = s[:int(m.group(3))]
            n = int(m.group(2)) if m.group(2) else 0
            return s.ljust(n) if m.group(1) else s.rjust(n)
    except (ValueError, TypeError):
        return None
    return None


def replay(path, seed):
    r = json.load(open(path))
    ck = vlib.Check("C17", "quick", seed)
    gvh, _ = ck.build_gvh(pkg="./cmd/gvh-pack", name="gvh_pack")
    oracle = ck.build_oracle("pack")
    line = r.get("line")
    if not line:
        print("replay has no input line:", r.get("summary"))
        return 0
    _, a, _ = vlib.run_lines(gvh, [], [line])
    _, b, _ = vlib.run_lines(oracle, [], [line])
    print("input:", line)
    print("impl :", a[0] if a else None)
    print("model:", b[0] if b else None)
    if "expected" in r:
        print("manual:", r["expected"])
    return 0
