# C06 — a memory limit bounds accounted and real allocation.
#
#  proof obligations : coq/theories/Properties/C06.v (Ctx/Model.v: used.mem < M while live, releases never
#                      underflow or panic, conservation over nesting)
#  correspondence    : manager level = C07's (gvh ctx vs oracle/ctx, incl. require/release histories);
#                      program level here: kill monotone in M with a sharp threshold, identical behaviour above it,
#                      used < M, no interception; amplifiers: Go heap growth (runtime.MemStats.HeapSys) caused
#                      by a context limited to M stays below K*M + c and the call ends 'killed' or with an error
import json
import time

from lib import vlib, qprogs
from lib.props.C05 import parse, decode_event, interception, hexs, TERM_RE, AFTER_MARKERS

PROP = ["Properties/C06.v"]
BIG = 1 << 62
K_HEAP = 48          # allowed Go heap bytes per accounted byte (slice doubling, Value = 16 bytes, strings copied by builders)
C_HEAP = 96 << 20    # constant allowance: chunk compilation, fresh runtime, and GC pacing slack of garbage-only loops (HeapSys is noisy)
TRUSTED = [
    "Coq 8.16.1 kernel (coqc); no axioms in the C06 theorems",
    "model Ctx/Model.v tied to the Go manager by the C07 correspondence (gvh ctx vs extracted oracle)",
    "Go harness harness/hx/lua.go (fresh runtime per case; MemStats.HeapSys delta around load+run)",
    "program families lib/qprogs.py; Python comparison in lib/props/C06.py",
    "modelled not verified: which Go allocation is charged where (observed through accounted/real ratios), Go's allocator and slice growth policy (absorbed in K=%d, c=%d MiB)" % (K_HEAP, C_HEAP >> 20),
]


# operations that build a fresh string of about N bytes per call: each result kept alive must show up in the
# accounted memory ("every operation whose allocation depends on program-chosen sizes charges memory")
CHARGE_OPS = [
    ("concat", "x..'!'"),
    ("rep", "string.rep('y',N+i)"),
    ("rep_sep", "string.rep('y',N//2,'z')"),
    ("upper", "x:upper()"),
    ("lower", "X:lower()"),
    ("reverse", "x:reverse()"),
    ("sub", "x:sub(2)"),
    ("format_s", "string.format('%s!',x)"),
    ("format_q", "string.format('%q',x)"),
    ("pack_z", "string.pack('z',x)"),
    ("pack_s4", "string.pack('s4',x)"),
    ("pack_c", "string.pack('c'..(N+8),x)"),
    ("tconcat", "table.concat({x,'!'})"),
    ("gsub", "(x:gsub('x','y'))"),
    ("gsub_grow", "(x:gsub('x','%0%0'))"),
    ("char", "string.char(table.unpack(B))"),
    ("utf8char", "utf8.char(table.unpack(B))"),
    ("tostring_concat", "tostring(i)..x"),
    ("unpack_s", "(string.unpack('s4',P))"),
    ("coroutine", "coroutine.create(function() end)"),
    # argument lists: 1000 values forwarded through `...` into a frame that stays alive (a suspended coroutine)
    ("vararg_frame_suspended", "MK(table.unpack(B))", 6048),
    ("vararg_frame_forwarded", "(function(...) return MK(...) end)(table.unpack(B))", 6048),
]


def charge_audit(ck, gvh):
    N, K = 3000, 24
    pre = ("local N=%d local s=string.rep('x',N) local S=string.rep('X',N) local B={} for j=1,250 do B[j]=65+j%%20 end "
           "local P=string.pack('s4',s) local IN,INU={},{} for i=1,%d do IN[i]=s..i INU[i]=S..i end "
           "local function MK(...) local co=coroutine.wrap(function(...) coroutine.yield() return select('#',...) end) co(...) return co end "
           "local function GROW(k, ...) if k==0 then return MK(...) end return GROW(k-1, 0,0,0,0,0,0,0,0,0,0, ...) end " % (N, K))
    cases = []
    expected = {}
    for entry in CHARGE_OPS:
        name, op = entry[0], entry[1]
        if len(entry) > 2:
            expected[name] = entry[2]
        for k in (0, K):
            src = pre + ("local t={} local K=%d for i=1,K do local x,X=IN[i],INU[i] t[i]=%s end "
                         "emit(K>0 and (type(t[K])=='string' and #t[K] or 2048) or 0)" % (k, op))
            cases.append((name, k, src))
    lines = ["q%d %s cpu=%d mem=%d" % (j, hexs(src), BIG, BIG) for j, (_, _, src) in enumerate(cases)]
    outs = [parse(l) for l in vlib.run_lines_resilient(gvh, ["lua"], lines, per_case_timeout=30)]
    res = {}
    for (name, k, src), o in zip(cases, outs):
        res.setdefault(name, {})[k] = (o, src)
    for name, d in res.items():
        o0, _ = d[0]
        oK, src = d[K]
        ck.case("charge:" + name, True)
        ck.count("charge-audit")
        if o0["status"] != "ok" or oK["status"] != "ok":
            ck.violation("charge audit program for %s did not run: %s" % (name, oK["raw"][:200]), {"kind": "harness", "program": src})
            continue
        outlen = int(oK["trace"][0][1:]) if oK["trace"] and oK["trace"][0].startswith("i") else 0
        if name in expected:
            outlen = expected[name]
        delta = oK["umem"] - o0["umem"]
        want = int(0.9 * K * outlen)
        ck.cov.setdefault("charge_audit", {})[name] = {"result_len": outlen, "accounted_delta": delta, "kept": K}
        if outlen < 100 or delta < want:
            k = ck.known_match(lambda kf: kf.get("match", {}).get("class") == "uncharged-result" and kf["match"].get("op") == name)
            if k:
                ck.known_finding(k)
            else:
                ck.violation("%s: %d results of %d bytes kept alive are accounted as only %d bytes (expected >= %d): the allocation is not charged"
                             % (name, K, outlen, delta, want),
                             {"kind": "Go!=S", "engine": "lua", "program": src, "accounted_with_results": oK["umem"], "accounted_without": o0["umem"],
                              "result_len": outlen})


# ---------------------------------------------------------------------------------------------------
# Pairing audit: "every require/release pairing on every exit path".  The memory counter of golua never goes
# down because of garbage collection; the only decrements are ReleaseMem calls that give back what the same
# operation required earlier (call frames, temporary buffers, the AST and IR of a chunk being loaded).  So the
# counter after a COMPLETED operation is never below the counter before it: a negative difference means that some
# path released more than it required (and the saturating counter would hide it near zero).  Each shape runs
# K times twice; the shapes cover the exit paths of a call frame and of load().
PAIR_SETUP = (
    "local ctx=runtime.context local function mem() return ctx().used.memory end "
    "local u1,u2,u3,u4,u5,u6,u7,u8=1,2,3,4,5,6,7,8 "
    "local function f(flag) local x=1 if flag then return function() return x end end return u1+u2+u3+x end "
    "local function f8(flag) local x,y=1,2 if flag then return function() return x+y end end return u1+u2+u3+u4+u5+u6+u7+u8+x+y end "
    "local function g(a,...) return select('#',...)+a+u1 end "
    "local function h(n) if n==0 then return u1 end return h(n-1) end "
    "local function ht(n) local x=n if n==0 then return u1+u2 end if false then return function() return x end end return ht(n-1) end "
    "local function e() local y=u2 if u1 then error(y) end return function() return y end end "
    "local function et() local y=u2 if u1 then error({}) end return function() return y end end "
    "local mt=setmetatable({},{__index=function(t,k) local z=k if u3 then return u3 end return function() return z end end,"
    "__call=function(self,a) return a+u1 end,__add=function(a,b) local w=u1 if w then return w end return function() return w end end}) "
    "local function cl() local z<close> = setmetatable({},{__close=function() local q=u1 end}) return u1 end "
    "local function clerr() local z<close> = setmetatable({},{__close=function() error('c') end}) return u1 end "
    "local function co1() local c=coroutine.wrap(function(a) local x=a+u1 local b=coroutine.yield(x) if false then return function() return x end end return b+u2 end) c(1) return c(2) end "
    "local function co2() local c=coroutine.create(function() local x=u1 coroutine.yield() return function() return x end end) coroutine.resume(c) return coroutine.close(c) end "
    "local function co3() local c=coroutine.create(function() local x=u1 error('e') return function() return x end end) return coroutine.resume(c) end "
    "local function meth() local o={v=u1} function o:m(a) local s=self if a then return s.v+u2 end return function() return s end end return o:m(1) end "
    "local function va(...) local n=select('#',...) local x=n if n<0 then return function() return x end end return n+u1 end "
    "local function gt() local i=0 ::top:: i=i+1 do local x=i if i>5 then return x+u1 end if false then return function() return x end end end goto top end "
    "local function forin() local s=0 for k,v in next,{1,2,3} do local x=v s=s+x+u1 if false then return function() return x end end end return s end "
    "local SRC_OK='local a,b=1,2 return function() return a+b end' local SRC_SYN='x = = 1' "
    "local SRC_GOTO='goto nolabel '..string.rep(' ',500) local SRC_BRK='break '..string.rep(' ',500) "
    "local SRC_ATTR='local x <const> = 1; x = 2 '..string.rep(' ',500) local SRC_VARARG='local function q() return ... end '..string.rep(' ',500) "
    "local SRC_BIG='return '..string.rep('1+',400)..'1' "
)
PAIR_SHAPES = [
    ("frame-upvalues-and-own-cell", "f(false)"), ("frame-8-upvalues-2-cells", "f8(false)"), ("frame-creates-closure", "f(true)"),
    ("varargs", "g(1,2,3,4)"), ("recursion", "h(10)"), ("recursion-own-cells", "ht(10)"), ("tailcall", "(function(n) return h(n) end)(3)"),
    ("error-through-pcall", "pcall(e)"), ("error-table-through-pcall", "pcall(et)"), ("error-through-xpcall", "xpcall(e,function(m) return m end)"),
    ("index-metamethod", "local _=mt.x"), ("call-metamethod", "mt(3)"), ("arith-metamethod", "local _=mt+1"),
    ("to-be-closed", "cl()"), ("to-be-closed-handler-error", "pcall(clerr)"),
    ("coroutine-yield-resume", "co1()"), ("coroutine-closed-while-suspended", "co2()"), ("coroutine-dies-with-error", "co3()"),
    ("method", "meth()"), ("vararg-frame", "va(1,2,3)"), ("goto-loop", "gt()"), ("for-in", "forin()"),
    ("load-ok", "load(SRC_OK)"), ("load-syntax-error", "load(SRC_SYN)"), ("load-goto-without-label", "load(SRC_GOTO)"),
    ("load-break-outside-loop", "load(SRC_BRK)"), ("load-assign-to-const", "load(SRC_ATTR)"), ("load-vararg-outside", "load(SRC_VARARG)"),
    ("load-long-expression", "load(SRC_BIG)"), ("load-and-call", "load(SRC_OK)()()"),
    ("string-temporaries", "local _=('a'):rep(50):upper():sub(2,10)"), ("format", "local _=string.format('%5d %s %q',1,'x','y')"),
    ("table-concat", "local _=table.concat({'a','b','c'},',')"), ("sort-with-comparator", "table.sort({3,1,2},function(a,b) return a<b end)"),
    ("gsub-function", "local _=('abc'):gsub('%w',function(c) return c..u1 end)"), ("tostring-tonumber", "local _=tonumber(tostring(12.5))"),
    ("pack-unpack", "local _=string.unpack('<i4',string.pack('<i4',7))"), ("select-negative", "local _=select(-1,1,2,3)"),
    ("dump-load", "local _=load(string.dump(f))"),
    # calls of Go functions with fewer arguments than they declare, with exactly as many, and with more
    ("go-call-fewer-args", "local _=math.random(6)"), ("go-call-no-args", "local _=math.random()"), ("go-call-all-args", "local _=math.random(1,6)"),
    ("go-call-type", "local _=type(1)"), ("go-call-rawequal", "local _=rawequal(1,2)"), ("go-call-rawget", "local _=rawget(_ENV,1)"),
    ("go-call-next", "local _=next(_ENV)"), ("go-call-byte", "local _=('abc'):byte(1)"), ("go-call-len", "local _=('abc'):len()"),
    ("go-call-floor", "local _=math.floor(1.5)"), ("go-call-tointeger", "local _=math.tointeger(3.0)"), ("go-call-select", "local _=select('#')"),
    ("go-call-error-missing-arg", "pcall(tostring)"), ("go-call-ipairs-loop", "for i,v in ipairs(_ENV) do end"),
]
# shapes that allocate nothing that outlives the operation: the counter must come back EXACTLY (a positive difference is
# memory required and never released: the context is eventually killed although it holds nothing)
PAIR_BALANCED = {"frame-upvalues-and-own-cell", "frame-8-upvalues-2-cells", "recursion", "recursion-own-cells", "index-metamethod",
                 "call-metamethod", "arith-metamethod", "goto-loop", "go-call-fewer-args", "go-call-no-args", "go-call-all-args", "go-call-type",
                 "go-call-rawequal", "go-call-rawget", "go-call-next", "go-call-byte", "go-call-len", "go-call-floor", "go-call-tointeger",
                 "go-call-select"}


def pairing_audit(ck, gvh, K=60):
    cases = []
    for name, call in PAIR_SHAPES:
        src = (PAIR_SETUP + "local pad=string.rep('x',200000) "
               "local m0=mem() for k=1,%d do %s end local m1=mem() for k=1,%d do %s end local m2=mem() emit(m1-m0,m2-m1)" % (K, call, K, call))
        cases.append((name, src))
    lines = ["p%d %s cpu=%d mem=%d" % (j, hexs(src), BIG, 1 << 40) for j, (_, src) in enumerate(cases)]
    outs = [parse(l) for l in vlib.run_lines_resilient(gvh, ["lua"], lines, per_case_timeout=30)]
    table = {}
    for (name, src), o in zip(cases, outs):
        ck.case("pairing:" + name, True)
        ck.count("pairing-audit")
        tr = (o.get("trace") or [""])[0].split(",")
        if o["status"] != "ok" or len(tr) < 2 or not all(x.startswith("i") for x in tr[:2]):
            ck.violation("pairing audit program for %s did not run: %s" % (name, o["raw"][:300]), {"kind": "harness", "program": src})
            continue
        d1, d2 = int(tr[0][1:]), int(tr[1][1:])
        table[name] = [d1, d2]
        if name in PAIR_BALANCED and d1 >= 0 and d2 >= 0 and (d1 > 0 or d2 > 0):
            k = ck.known_match(lambda kf: kf.get("match", {}).get("class") == "unpaired-require" and kf["match"].get("shape") == name)
            if k:
                ck.known_finding(k)
            else:
                ck.violation("%s: the accounted memory is %d bytes HIGHER after %d completed operations that keep nothing alive "
                             "(memory is required and never released: unpaired require)" % (name, max(d1, d2), K),
                             {"kind": "Go!=S", "engine": "lua", "program": src, "operation": call_of(name), "deltas": [d1, d2],
                              "expected": "both differences = 0 for an operation that allocates nothing outliving it"})
        if d1 < 0 or d2 < 0:
            k = ck.known_match(lambda kf: kf.get("match", {}).get("class") == "unpaired-release" and kf["match"].get("shape") == name)
            if k:
                ck.known_finding(k)
            else:
                ck.violation("%s: the accounted memory is %d bytes LOWER after %d completed operations than before them "
                             "(a path releases more than it required)" % (name, -min(d1, d2), K),
                             {"kind": "Go!=S", "engine": "lua", "program": src, "operation": call_of(name), "deltas": [d1, d2],
                              "expected": "both differences >= 0: ReleaseMem only gives back what the same operation required"})
    ck.cov["pairing_audit"] = table
    # the same under a SOFT-only memory limit: RequireMem counts (trackMem) but ReleaseMem only looks at the hard limit
    soft = []
    for name in ("frame-upvalues-and-own-cell", "recursion", "go-call-all-args"):
        call = call_of(name)
        src = (PAIR_SETUP + "local c=runtime.callcontext({stop={memory=1<<40}},function() local pad=string.rep('x',200000) "
               "local m0=mem() for k=1,%d do %s end local m1=mem() emit(m1-m0) end) emit(c.status)" % (K, call))
        soft.append((name, src))
    outs = [parse(l) for l in vlib.run_lines_resilient(gvh, ["lua"], ["s%d %s cpu=%d" % (j, hexs(src), BIG) for j, (_, src) in enumerate(soft)], per_case_timeout=30)]
    for (name, src), o in zip(soft, outs):
        ck.case("pairing-soft:" + name, True)
        ck.count("pairing-audit-soft-only")
        tr = (o.get("trace") or [""])[0].split(",")
        if o["status"] != "ok" or not tr[0].startswith("i"):
            ck.violation("soft-limit pairing program for %s did not run: %s" % (name, o["raw"][:300]), {"kind": "harness", "program": src})
            continue
        d = int(tr[0][1:])
        table["soft-only:" + name] = [d]
        if d != 0:
            k = ck.known_match(lambda kf: kf.get("match", {}).get("class") == "soft-only-memory-limit-never-released")
            if k:
                ck.known_finding(k)
            else:
                ck.violation("%s under a soft-only memory limit: the accounted memory moved by %d bytes over %d completed operations that keep nothing "
                             "alive (require and release are not paired)" % (name, d, K),
                             {"kind": "Go!=S", "engine": "lua", "program": src, "operation": call, "delta": d})


def call_of(name):
    return dict(PAIR_SHAPES).get(name, "")


# ---------------------------------------------------------------------------------------------------
# the same threshold for a memory limit set INSIDE a limited context, whatever the parent holds: the child's limit is
# min(L, what the parent has left), never "L minus what the parent uses" (C07_child_budget)
NEST_BODIES = [
    "local t={} for i=1,200 do t[i]=('k'):rep(20)..i end emit(#t)",
    "local s='' for i=1,300 do s=s..'xy' end emit(#s)",
    "local t={} for i=1,60 do t[i]={i,i+1,tostring(i)} end emit(#t)",
    "local co=coroutine.wrap(function() for i=1,30 do coroutine.yield(('z'):rep(i)) end end) local n=0 for i=1,30 do n=n+#co() end emit(n)",
    "local function f(n) if n==0 then return 0 end local x={n} return #x+f(n-1) end emit(f(80))",
    "emit(#table.concat({('a'):rep(5000),('b'):rep(5000)}))",
]


def nested_limit_stage(ck, gvh, tier):
    OUTER = 1 << 31
    bodies = NEST_BODIES if tier != "quick" else [NEST_BODIES[(ck.seed + i) % len(NEST_BODIES)] for i in range(3)]

    def src(body, P, L):
        return ("local keep=string.rep('p',%d) local c=runtime.callcontext({kill={memory=%d}},function() %s end) emit('inner',c.status) emit(#keep)" % (P, L, body))

    def status(lines):
        outs = [parse(l) for l in vlib.run_lines_resilient(gvh, ["lua"], lines, per_case_timeout=30)]
        res = []
        for o in outs:
            evs = [e.split(",") for e in o.get("trace", [])]
            inner = [e for e in evs if e and e[0] == "s" + "inner".encode().hex()]
            res.append((bytes.fromhex(inner[-1][1][1:]).decode() if inner and o["status"] == "ok" else o["status"] + "!", o))
        return res

    nruns = 0
    for body in bodies:
        lo, hi = 1, 1 << 26          # lo: killed, hi: done (checked below)
        st = status(["n %s cpu=%d mem=%d" % (hexs(src(body, 0, hi)), BIG, OUTER)])[0][0]
        if st != "done":
            ck.violation("nested memory baseline did not complete: %s" % st, {"kind": "harness", "program": src(body, 0, hi)})
            continue
        while hi - lo > 1:
            mid = (lo + hi) // 2
            st = status(["n %s cpu=%d mem=%d" % (hexs(src(body, 0, mid)), BIG, OUTER)])[0][0]
            nruns += 1
            if st == "done":
                hi = mid
            else:
                lo = mid
        T = hi
        cases = [(P, L) for P in (1000, T - 1, T, T + 1, 5 * T) for L in (T - 1, T)]
        res = status(["n%d %s cpu=%d mem=%d" % (i, hexs(src(body, P, L)), BIG, OUTER) for i, (P, L) in enumerate(cases)])
        for (P, L), (st, o) in zip(cases, res):
            nruns += 1
            ck.case("nested-mem:%s@L=%d,P=%d" % (body, L, P), True)
            ck.count("nested-mem")
            want = "done" if L >= T else "killed"
            if st != want:
                ck.violation("nested memory limit: the inner computation needs a limit of %d when its parent holds nothing; with the parent holding %d bytes "
                             "and an inner limit of %d its status is %s, expected %s" % (T, P, L, st, want),
                             {"kind": "Go!=S", "engine": "lua", "program": src(body, P, L), "limit_mem": OUTER, "inner_threshold_alone": T,
                              "parent_holds": P, "inner_limit": L, "limited": o["raw"][:600],
                              "theorem": "C07_child_budget: the child's limit is min(L, parent's remaining budget)"})
    ck.cov["nested_memory_limit_runs"] = nruns


# ---------------------------------------------------------------------------------------------------
# Retention audit: "the Go heap growth caused by the context is bounded by a constant times M", looked at from the
# other side: a program builds a structure and keeps it alive; the LIVE Go heap (MemStats.HeapAlloc after two
# collections, read by the harness function heapnow()) must not have grown by more than RETENTION_RATIO times what
# the context was charged, plus a slack.  The shapes cover every kind of value a program can keep: strings, tables
# (array, hash, nested), closures, coroutines, call frames with locals, argument lists forwarded through `...`.
RETENTION_RATIO = 14          # measured worst on the unchanged tree: 10.0 (chains of closures / of empty tables: 16 bytes charged per 144-160 held)
# (no shape suspends a coroutine inside pcall: the main thread would then read the counters of the coroutine's context —
#  open finding context-stack-shared-by-coroutines, C07)
RETENTION_SLACK = 1 << 20
RETENTION_SETUP = "local ctx=runtime.context local function mem() return ctx().used.memory end local B={} for j=1,250 do B[j]=j end "
RETENTION_SHAPES = [
    ("vararg-frames", "local hold local function f(d, ...) if d==0 then coroutine.yield() return 0 end return 1+f(d-1, ...) end "
                      "hold=coroutine.wrap(function() return f(400, table.unpack(B)) end) hold()"),
    ("vararg-results", "local hold local function g(d, ...) if d==0 then coroutine.yield() return ... end return (function(...) return select('#',...) end)(g(d-1, ...)) end "
                       "hold=coroutine.wrap(function() return g(300, table.unpack(B)) end) hold()"),
    ("strings", "local t={} for i=1,20000 do t[i]=('s'):rep(40)..i end KEEP=t"),
    ("small-tables", "local t={} for i=1,20000 do t[i]={i,i+1} end KEEP=t"),
    ("hash-tables", "local t={} for i=1,20000 do t['k'..i]=i end KEEP=t"),
    ("closures", "local t={} for i=1,20000 do local a,b=i,i+1 t[i]=function() return a+b end end KEEP=t"),
    ("coroutines", "local t={} for i=1,1500 do local co=coroutine.wrap(function() coroutine.yield() end) co() t[i]=co end KEEP=t"),
    ("deep-recursion", "local hold local function f(d) local a,b,c,e=d,d,d,d if d==0 then coroutine.yield() return 0 end return a+f(d-1) end "
                       "hold=coroutine.wrap(function() return f(20000) end) hold()"),
    ("big-string", "KEEP=('x'):rep(4000000)"),
    ("nested-tables", "local t={} local cur=t for i=1,20000 do cur.n={} cur=cur.n end KEEP=t"),
    ("packed-varargs", "local t={} for i=1,2000 do t[i]=table.pack(table.unpack(B)) end KEEP=t"),
    ("string-keys-and-values", "local t={} for i=1,10000 do t[('key'):rep(5)..i]=('v'):rep(30)..i end KEEP=t"),
    ("upvalue-chains", "local f=function() return 0 end for i=1,20000 do local g=f f=function() return g()+1 end end KEEP=f"),
    ("metatables", "local t={} for i=1,8000 do t[i]=setmetatable({}, {__index=function() return i end}) end KEEP=t"),
    # what nested contexts allocated before they were killed stays reachable from outside
    ("killed-children", "local t={} for i=1,200 do runtime.callcontext({kill={memory=80000}},function() while true do t[#t+1]=('x'):rep(1000)..#t end end) end KEEP=t"),
    ("failed-children", "local t={} for i=1,200 do pcall(function() for j=1,60 do t[#t+1]=('y'):rep(1000)..#t end error('e') end) end KEEP=t"),
    # functions made by load() keep their constants alive
    ("loaded-functions-string-constants", "local src=\"return '\"..('x'):rep(20000)..\"'\" local t={} for i=1,150 do t[i]=load(src) end KEEP=t"),
    ("loaded-functions-many-constants", "local p={} for i=1,400 do p[i]=\"'k\"..i..('y'):rep(40)..\"'\" end local src='return {'..table.concat(p,',')..'}' "
                                        "local t={} for i=1,120 do t[i]=load(src) end KEEP=t"),
    ("loaded-binary-functions", "local f=load(\"return '\"..('x'):rep(20000)..\"'\") local d=string.dump(f) local t={} for i=1,150 do t[i]=load(d,'b','b') end KEEP=t"),
]


def retention_audit(ck, gvh):
    lines = []
    for k, (name, body) in enumerate(RETENTION_SHAPES):
        src = RETENTION_SETUP + "local h0=heapnow() local m0=mem() " + body + " local h1=heapnow() local m1=mem() emit(h1-h0,m1-m0)"
        lines.append("r%d %s cpu=%d mem=%d heap=1" % (k, hexs(src), BIG, 1 << 40))
    outs = [parse(l) for l in vlib.run_lines_resilient(gvh, ["lua"], lines, per_case_timeout=90)]
    table = {}
    for (name, body), o in zip(RETENTION_SHAPES, outs):
        ck.case("retention:" + name, True)
        ck.count("retention-audit")
        tr = (o.get("trace") or [""])[0].split(",")
        if o["status"] != "ok" or len(tr) < 2 or not all(x.startswith("i") for x in tr[:2]):
            ck.violation("retention audit program %s did not run: %s" % (name, o["raw"][:300]), {"kind": "harness", "program": body})
            continue
        heap, acc = int(tr[0][1:]), int(tr[1][1:])
        table[name] = {"live_heap_growth": heap, "accounted": acc, "ratio": round(heap / float(max(acc, 1)), 2)}
        if heap > RETENTION_RATIO * acc + RETENTION_SLACK:
            k = ck.known_match(lambda kf: kf.get("match", {}).get("class") == "retained-memory-not-accounted" and kf["match"].get("shape") == name)
            if k:
                ck.known_finding(k)
            else:
                ck.violation("%s: the program keeps %d bytes of Go heap alive but was charged only %d bytes (ratio %.1f, bound %d): a memory limit M "
                             "does not bound the heap by a constant times M" % (name, heap, acc, heap / float(max(acc, 1)), RETENTION_RATIO),
                             {"kind": "Go!=S", "engine": "lua", "program": RETENTION_SETUP + body, "live_heap_growth": heap, "accounted": acc,
                              "bound": "heap <= %d * accounted + %d" % (RETENTION_RATIO, RETENTION_SLACK)})
    ck.cov["retention_audit"] = table


def run(tier, seed):
    ck = vlib.Check("C06", tier, seed, level="proof")
    ok_obl = ck.obligations(PROP)
    if tier == "thorough":
        ck.coqchk(["GV.Properties.C06"])
    gvh, err = ck.build_gvh()
    if gvh is None:
        ck.violation("harness does not build against /repo", {"kind": "build", "stderr": err[-3000:]}, no_input=True)
        return ck.finish("n/a", TRUSTED, [])
    rng = ck.rng
    nprog = 60 if tier == "quick" else 3000

    progs = []
    corpus = vlib.os.path.join(vlib.VERIF, "corpus", "C06")
    for d in (corpus, vlib.os.path.join(vlib.VERIF, "corpus", "C05")):
        if vlib.os.path.isdir(d):
            for fn in sorted(vlib.os.listdir(d)):
                if fn.endswith(".lua"):
                    progs.append(("corpus:" + fn, open(vlib.os.path.join(d, fn)).read()))
    while len(progs) < nprog:
        fam = qprogs.bodies(rng)
        name, body = rng.choice(fam)
        w = rng.choice([x for x in qprogs.WRAPS if x != "gc_guard"])
        progs.append(("%s/%s" % (w, name), qprogs.wrap(w, body)))

    def runs(cases):
        lines = ["m%d %s cpu=%d mem=%d" % (k, hexs(progs[i][1]), BIG, M) for k, (i, M) in enumerate(cases)]
        return [parse(l) for l in vlib.run_lines_resilient(gvh, ["lua"], lines, per_case_timeout=30)]

    base = runs([(i, BIG) for i in range(len(progs))])

    def same(i, o):
        b = base[i]
        return (o["status"] == b["status"] and o.get("trace") == b["trace"] and o.get("R") == b.get("R") and o.get("E") == b.get("E"))
    # threshold search: smallest M under which the program is not killed (assumes monotonicity, verified below)
    lo = [1] * len(progs)          # killed at lo (or lo = 0: unknown)
    hi = [None] * len(progs)
    alive = [i for i, b in enumerate(base) if b["status"] not in ("CRASH", "HANG")]
    for i, b in enumerate(base):
        if b["status"] in ("CRASH", "HANG"):
            ck.violation("program crashed or hung without a memory limit", {"kind": "crash", "program": progs[i][1], "output": b["raw"][:600]})
    probe = {i: 256 for i in alive}
    for _ in range(40):
        todo = [i for i in alive if hi[i] is None]
        if not todo:
            break
        outs = runs([(i, probe[i]) for i in todo])
        for i, o in zip(todo, outs):
            if not same(i, o):
                lo[i] = probe[i]
                probe[i] *= 4
            else:
                hi[i] = probe[i]
    for _ in range(40):
        todo = [i for i in alive if hi[i] is not None and hi[i] - lo[i] > 1]
        if not todo:
            break
        mids = {i: (lo[i] + hi[i]) // 2 for i in todo}
        outs = runs([(i, mids[i]) for i in todo])
        for i, o in zip(todo, outs):
            if not same(i, o):
                lo[i] = mids[i]
            else:
                hi[i] = mids[i]
    cases = []
    for i in alive:
        if hi[i] is None:
            continue
        th = hi[i]
        Ms = {1, 2, max(1, th // 2), max(1, th - 1), th, th + 1, 2 * th + 1, 1 + rng.below(th), 1 + rng.below(th), th + 1 + rng.below(th + 5)}
        for M in sorted(Ms):
            cases.append((i, M))
    t0 = time.time()
    outs = runs(cases)
    ck.log("%d programs, %d limited runs in %.1fs" % (len(progs), len(cases), time.time() - t0))
    for (i, M), o in zip(cases, outs):
        name, src = progs[i]
        b, th = base[i], hi[i]
        ck.case("%s@%d" % (src, M), True)
        ck.count("M<threshold" if M < th else "M>=threshold")
        ck.count("wrapper:" + name.split("/")[0])
        rep = {"kind": "Go!=S", "engine": "lua", "program": src, "family": name, "limit_mem": M, "threshold": th,
               "baseline": b["raw"][:500], "limited": o["raw"][:500]}
        fail = None
        if o["status"] in ("CRASH", "HANG"):
            fail = "limited run crashed/hung"
        else:
            dev = interception(o["trace"], b["trace"])
            if M < th:
                if o["status"] != "killed":
                    fail = "killed under mem=%d but not under the smaller limit %d (not monotone)" % (lo[i], M)
                elif o["umem"] >= M:
                    fail = "killed context reports used memory %d >= kill %d" % (o["umem"], M)
                elif dev is not None:
                    fail = "after the kill Lua code of the context still ran (event %d: %s)" % (dev[0], dev[1])
            else:
                if o["status"] == "killed":
                    fail = "completes under mem=%d but killed under the larger limit %d (not monotone)" % (th, M)
                elif o["status"] != b["status"] or o["trace"] != b["trace"] or o.get("R") != b.get("R") or o.get("E") != b.get("E"):
                    fail = "limit %d above the threshold %d changed the behaviour" % (M, th)
                elif o["umem"] >= M:
                    fail = "live context reports used memory %d >= kill %d" % (o["umem"], M)
        if fail:
            k = None
            dev = None if o["status"] in ("CRASH", "HANG") else interception(o["trace"], b["trace"])
            if dev is not None and dev[2]:
                k = ck.known_match(lambda kf: kf.get("match", {}).get("class") == "termination-error-returned-to-lua")
            if k:
                ck.known_finding(k)
            else:
                rep["failure"] = fail
                ck.violation("%s: %s" % (name, fail), rep)
    for k in (0, len(cases) // 2, len(cases) - 1):
        if 0 <= k < len(cases):
            i, M = cases[k]
            ck.sample({"program": progs[i][1][:300], "limit_mem": M, "threshold": hi[i], "status": outs[k]["status"], "ctx": outs[k].get("X")})

    charge_audit(ck, gvh)
    pairing_audit(ck, gvh)
    nested_limit_stage(ck, gvh, tier)
    retention_audit(ck, gvh)

    # ------------------------------------------------------------ amplification: charge before allocating
    amp = []
    exps = (12, 24, 33, 40) if tier == "quick" else tuple(range(10, 41, 2))
    limits = (1 << 16, 1 << 20) if tier == "quick" else (1 << 12, 1 << 16, 1 << 20, 1 << 23)
    for name, tmpl in qprogs.amplifiers():
        for e in exps:
            for M in limits:
                amp.append((name, e, M, tmpl % (1 << e)))
    alines = ["a%d %s cpu=%d mem=%d stats=1" % (k, hexs(src), 20000000, M) for k, (_, _, M, src) in enumerate(amp)]
    t0 = time.time()
    # a fresh child every 20 cases: HeapSys growth during a case depends on the collector's target, i.e. on what the
    # PROCESS still holds from earlier cases (abandoned coroutines keep their goroutines), so a garbage-heavy case late
    # in a long-lived process could grow the heap by hundreds of MB without keeping a byte alive
    res = vlib.run_lines_resilient(gvh, ["lua"], alines, per_case_timeout=20, mem_kb=5 * 1024 * 1024, restart_every=20)
    worst = (0.0, None)
    for (name, e, M, src), l in zip(amp, res):
        o = parse(l)
        ck.case("amp:%s@2^%d/M=%d" % (name, e, M), True)
        ck.count("amp:" + o["status"])
        rep = {"kind": "Go!=S", "engine": "lua", "program": src, "limit_mem": M, "limited": o["raw"][:600]}
        if o["status"] in ("HANG", "CRASH"):
            k = ck.known_match(lambda kf: kf.get("match", {}).get("class") == "uncharged-allocation" and kf["match"].get("amplifier") == name)
            if k:
                ck.known_finding(k)
            else:
                ck.violation("library call %s with N=2^%d under mem limit %d: %s (allocation not charged first / work not bounded)" % (name, e, M, o["status"]), rep)
            continue
        alloc = int(o.get("A", "0"))
        ratio = (alloc - C_HEAP) / float(M)
        if ratio > worst[0]:
            worst = (ratio, "%s N=2^%d M=%d alloc=%d" % (name, e, M, alloc))
        if alloc > K_HEAP * M + C_HEAP:
            k = ck.known_match(lambda kf: kf.get("match", {}).get("class") == "uncharged-allocation" and kf["match"].get("amplifier") == name)
            if k:
                ck.known_finding(k)
            else:
                rep["go_heap_allocated"] = alloc
                rep["bound"] = K_HEAP * M + C_HEAP
                ck.violation("library call %s with N=2^%d: Go heap grew by %d bytes under a memory limit of %d (bound %d*M+%d)" % (name, e, alloc, M, K_HEAP, C_HEAP), rep)
        if o["status"] == "killed" and o.get("umem", 0) >= M:
            ck.violation("amplifier %s: used memory >= kill" % name, rep)
    ck.cov["worst_heap_ratio"] = {"(alloc-c)/M": round(worst[0], 2), "case": worst[1]}
    ck.log("amplification: %d cases in %.1fs; worst (alloc-c)/M = %.2f (%s)" % (len(amp), time.time() - t0, worst[0], worst[1]))

    if not ok_obl:
        ck.violation("proof obligations of C06 no longer check: " + str(ck.cov.get("obligation_failure", ""))[:300],
                     {"kind": "proof", "theorem_file": PROP, "detail": ck.cov.get("obligation_failure")},
                     no_input=not any(not v[1] for v in ck.violations))
    ck.cov["programs"] = len(progs)
    return ck.finish(
        rule="program = random body family x wrapper; threshold M* found by bisection, then runs under M in {1,2,M*/2,M*-1,M*,M*+1,2M*+1,3 random}; "
             "library amplifiers with N=2^e under M in {64Ki,1Mi,...} with MemStats.HeapSys measured; distinct by (source, limit)",
        trusted_base=TRUSTED,
        assumptions=["programs do not read their own context counters", "heap bound constants K=%d, c=%d bytes are empirical" % (K_HEAP, C_HEAP)])


def replay(path, seed):
    r = json.load(open(path))
    ck = vlib.Check("C06", "quick", seed)
    gvh, _ = ck.build_gvh()
    src = r["program"]
    lines = ["base %s cpu=%d mem=%d stats=1" % (hexs(src), BIG, BIG), "lim %s cpu=%d mem=%d stats=1" % (hexs(src), BIG, r.get("limit_mem", 100000))]
    for l in vlib.run_lines_resilient(gvh, ["lua"], lines, per_case_timeout=30):
        print(l[:800])
    return 0
