# C16 — numeric for loops iterate exactly the manual's sequence and always terminate.
#
#  proof obligations : coq/theories/Properties/C16.v (Num/ForLoop.v: IM = prepfor/advfor of runtime/luacont.go, S = manual §3.3.5)
#  correspondence    : gvh-num for (real Lua `for` loops on the real runtime: operands as arguments, body assigning to the
#                      loop variable, operands as literals) vs oracle/num for (extracted IM and S), values and their types
#  property-level    : Go vs S on the exhaustive (start, limit, step) lattice (the lattice is the search)
import json
import os

from lib import vlib
from lib.props import C02 as N

PROP = ["Properties/C16.v"]
TRUSTED = [
    "Coq 8.16.1 kernel (coqc); vm_compute only in Example/_refuted witnesses",
    "axioms: none of our own; C16 theorems about integer loops are closed under the global context; those mentioning float limits depend on "
    "the Coq standard library's classical reals through Flocq (Classical_Prop.classic, ClassicalDedekindReals.sig_not_dec, sig_forall_dec, "
    "FunctionalExtensionality.functional_extensionality_dep)",
    "extraction: ExtrOcamlBasic only; oracle/common/proto.ml + oracle/num/driver.ml glue; OCaml 4.13.1",
    "Go harness harness/cmd/gvh-num/main.go (engine `for`), Python generator/diff lib/props/C16.py",
    "modelled not verified: the compiler emits the loop shape prepfor; jump; copy; body; advfor; jump (checked by the `assign` mode: "
    "assigning to the loop variable in the body does not change the sequence); float addition is IEEE (compared bit-for-bit with Flocq)",
]
CAP = 12
M63 = 1 << 63


def lattice():
    ints = [0, 1, -1, 2, -2, 3, -3, 5, 10, (1 << 53) - 1, 1 << 53, (1 << 53) + 1, (1 << 53) + 2, -((1 << 53) + 1), -(1 << 53), -(1 << 53) + 1,
            M63 - 1, M63 - 2, M63 - 3, -M63, -M63 + 1, -M63 + 2, -M63 + 3, M63 - 512, M63 - 513, 1 << 62, -(1 << 62)]
    floats = [0.0, -0.0, 0.5, 1.0, -1.0, 1.5, 2.5, -2.5, 3.0, 0.1, 2.0 ** 53 - 1, 2.0 ** 53, 2.0 ** 53 + 2, 2.0 ** 53 + 4, -2.0 ** 53, -(2.0 ** 53) - 2, -(2.0 ** 53) + 1, 2.0 ** 63, -2.0 ** 63, 2.0 ** 63 + 2048,
              -(2.0 ** 63 + 2048), 2.0 ** 63 - 1024, float("inf"), float("-inf"), float("nan"), 1e308, 5e-324, 2.0 ** 64]
    return [N.I(n) for n in ints] + [N.F(x) for x in floats]


LAT = lattice()
P63 = "F43e0000000000000"


def is_nan(v):
    return v == "Fnan"


def known_class(a, b, c, go, im, s):
    """Narrow defect classes (Go must equal the IM, i.e. behave exactly as modelled)."""
    if go != im:
        return None
    step = c if c is not None else "I1"
    int_loop = N.is_int(a) and N.is_int(step)
    if is_nan(b):
        return "C16-nan-limit"
    INF, NINF = "F7ff0000000000000", "Ffff0000000000000"
    if is_nan(step) or is_nan(a) or (a, step) in ((INF, NINF), (NINF, INF)):
        return "C16-nan-value"
    if int_loop and b == P63 and N.val_int(step) < 0 and N.val_int(a) >= M63 - 512:
        return "C16-limit-2p63-negative-step"
    if not int_loop and N.is_int(b) and abs(N.val_int(b)) > (1 << 53) and not is_nan(a) and not is_nan(step):
        return "C16-float-loop-integer-limit-not-converted"
    return None


def parse_out(line):
    parts = line.split(" ")
    return parts[0], " ".join(parts[1:])


# numeric strings (and non-numbers) as control values -----------------------------------------------
STRS = {"1": 1, "3": 3, " 2 ": 2, "0x10": 16, "-1": -1, "10": 10, "1.5": 1.5, "1e1": 10.0, "0.5": 0.5,
        # zero in every spelling (a zero step must be rejected also when it is a string)
        "0": 0, "0.0": 0.0, "0x0": 0, "-0": 0, " 0e0 ": 0.0, "-0.0": -0.0}
# strings that only occur in corpus/C16/strfor.txt
STRS_CORPUS = {"9007199254740993": 9007199254740993}
BAD = ["abc", "", "1x"]


def sval(t):
    return "S" + (t.encode().hex() or "-")


def check_strings(ck, gvh, oracle):
    nums = ["I1", "I3", "I10", "I-1", "F3fe0000000000000", "F4004000000000000"]
    ops = [("s", t) for t in STRS] + [("n", v) for v in nums]
    cases = []
    for a in ops:
        for b in ops:
            for c in ops:
                if "s" in (a[0], b[0], c[0]):
                    cases.append((a, b, c))
    # former witnesses (corpus/C16/strfor.txt: three operands, a string operand written as its text in double quotes)
    for f in N.read_corpus("C16", "strfor.txt"):
        tr = tuple(("s", t[1:-1].replace("_", " ")) if t.startswith('"') else ("n", t) for t in f[:3])
        for o in tr:
            if o[0] == "s" and o[1] not in STRS:
                STRS[o[1]] = STRS_CORPUS[o[1]]
        cases.insert(0, tr)
    bad = [("b", t) for t in BAD] + [("b", None)]
    for x in bad:
        for pos in range(3):
            tr = [("n", "I1"), ("n", "I3"), ("n", "I1")]
            tr[pos] = x
            cases.append(tuple(tr))

    def go_tok(o):
        if o[0] == "n":
            return o[1]
        if o[1] is None:
            return "N"
        return sval(o[1])

    def num_of(o, as_float):
        """the number the operand denotes, as golua sees it (as_float False) or converted to float"""
        if o[0] == "n":
            v = o[1]
            if as_float and N.is_int(v):
                return N.F(float(N.val_int(v)))
            return v
        x = STRS[o[1]]
        if isinstance(x, int) and not as_float:
            return N.I(x)
        return N.F(float(x))
    glines, alines, blines, metas = [], [], [], []
    for i, (a, b, c) in enumerate(cases):
        glines.append("q%d %s %s %s %d plain" % (i, go_tok(a), go_tok(b), go_tok(c), CAP))
        if "b" in (a[0], b[0], c[0]):
            alines.append("q%d I1 I1 I1 %d plain" % (i, CAP))
            blines.append("q%d I1 I1 I1 %d plain" % (i, CAP))
            continue
        # manual: integer loop only if start and step ARE integers (not strings)
        manual_int = a[0] == "n" and c[0] == "n" and N.is_int(a[1]) and N.is_int(c[1])
        # golua (after the repair of prepfor): a string start or step makes a float loop -- the IM view equals the manual's
        im_int = manual_int
        alines.append("q%d %s %s %s %d plain" % (i, num_of(a, not im_int), num_of(b, False), num_of(c, not im_int), CAP))
        blines.append("q%d %s %s %s %d plain" % (i, num_of(a, not manual_int), num_of(b, False), num_of(c, not manual_int), CAP))
    _, impl, _ = vlib.run_lines(gvh, ["for"], glines, timeout=600)
    _, ma, _ = vlib.run_lines(oracle, ["for"], alines, timeout=600)
    _, mb, _ = vlib.run_lines(oracle, ["for"], blines, timeout=600)
    if len(impl) != len(cases) or len(ma) != 2 * len(cases) or len(mb) != 2 * len(cases):
        ck.violation("for/strings: harness or oracle crashed", {"kind": "crash"}, no_input=True)
        return
    nbad = 0
    for i, (a, b, c) in enumerate(cases):
        go = parse_out(impl[i])[1]
        ck.case("strfor " + glines[i].split(" ", 1)[1], True)
        if "b" in (a[0], b[0], c[0]):
            ck.count("strfor:non-number")
            want = "Eforinit" if a[0] == "b" else "Eforlimit" if b[0] == "b" else "Eforstep"
            if not go.startswith(want):
                nbad += 1
                ck.violation("for with a non-number %s: implementation gives [%s], expected error %s" % (glines[i], go, want),
                             {"kind": "Go!=S", "engine": "num", "mode": "for", "line": glines[i].split(" ", 1)[1], "impl": go, "theorems": ["C16_non_number_error"]})
            continue
        ck.count("strfor:numeric-string")
        im = parse_out(ma[2 * i])[1][2:]
        s_ = parse_out(mb[2 * i + 1])[1][2:]
        if go != s_:
            denotes_int = lambda o: (o[0] == "n" and N.is_int(o[1])) or (o[0] == "s" and isinstance(STRS[o[1]], int))
            k = None
            if go == im and (a[0] == "s" or c[0] == "s") and denotes_int(a) and denotes_int(c):
                k = ck.known_match(lambda k: k["id"] == "C16-string-start-step-integer-loop")
            if k is not None:
                ck.known_finding(k)
            else:
                nbad += 1
                if nbad <= 3:
                    ck.violation("for %s: implementation gives [%s], the manual's definition [%s]" % (glines[i].split(" ", 1)[1], go, s_),
                                 {"kind": "Go!=S", "engine": "num", "mode": "for", "line": glines[i].split(" ", 1)[1], "impl": go, "model_IM": im, "model_S": s_,
                                  "theorems": ["C16_string_operand_partial"]})
    ck.cov["for_string_cases"] = len(cases)
    ck.cov["for_string_Go!=S"] = nbad


# whole programs: control expressions given as variables, bodies that assign to them --------------------------------
def hxv(tok):
    """our value token -> hx canonical value"""
    if tok[0] == "I":
        return "i%d" % N.val_int(tok)
    if tok[0] == "F":
        return "fnan" if tok == "Fnan" else "f" + tok[1:]
    if tok[0] == "S":
        return "s" + (tok[1:] if tok != "S-" else "-")
    raise ValueError(tok)


def tname(tok):
    return "s" + {"I": b"integer", "F": b"float", "S": b"string"}[tok[0]].hex()


PROG_STRS = {"1": 1, "3": 3, "2": 2}


def prog_num(tok, as_float):
    """the number a control value denotes (strings converted); as_float: converted to float (float loop)"""
    if tok[0] == "S":
        x = PROG_STRS[bytes.fromhex(tok[1:]).decode()]
        return N.F(float(x)) if as_float else N.I(x)
    if tok[0] == "I" and as_float:
        return N.F(float(N.val_int(tok)))
    return tok


def manual_triple(a, b, c):
    """(start, limit, step) as the manual's loop sees them: a string start/step (or a float one) makes a float loop"""
    int_loop = a[0] == "I" and c[0] == "I"
    return (prog_num(a, not int_loop), prog_num(b, False), prog_num(c, not int_loop))


PCAP = 8
KINDS = ["local", "upvalue", "global", "field", "param", "mixed"]
BODIES = ["none", "set_limit", "set_step", "set_start", "set_i", "set_all"]
SET = {"S": "I64", "L": "I2", "T": "I4"}      # what the body assigns (100, 2, 4)


def build_program(kind, body):
    names = {"local": ("S", "L", "T"), "upvalue": ("S", "L", "T"), "param": ("S", "L", "T"),
             "global": ("GS", "GL", "GT"), "field": ("t.s", "t.l", "t.t"), "mixed": ("S", "GL", "t.t")}[kind]
    S, L, T = names
    asg = []
    if body in ("set_limit", "set_all"):
        asg.append("%s = 2" % L)
    if body in ("set_step", "set_all"):
        asg.append("%s = 4" % T)
    if body in ("set_start", "set_all"):
        asg.append("%s = 100" % S)
    if body in ("set_i", "set_all"):
        asg.append("i = i * 3; i = nil")
    loop = ("local n = 0\nfor i = %s, %s, %s do\n  emit(i)\n  n = n + 1\n  %s\n  if n >= %d then break end\nend\n" % (S, L, T, "; ".join(asg), PCAP))
    after = "emit('after', %s, math.type(%s) or type(%s), %s, math.type(%s) or type(%s), %s, math.type(%s) or type(%s))\n" % (S, S, S, L, L, L, T, T, T)
    if kind == "local":
        return "local va, vb, vc = ...\nlocal S, L, T = va, vb, vc\n" + loop + after
    if kind == "upvalue":
        return "local va, vb, vc = ...\nlocal S, L, T = va, vb, vc\nlocal function run()\n" + loop + "end\nrun()\n" + after
    if kind == "param":
        return "local function run(S, L, T)\n" + loop + after + "end\nrun(...)\n"
    if kind == "global":
        return "GS, GL, GT = ...\n" + loop + after
    if kind == "field":
        return "local va, vb, vc = ...\nlocal t = {s = va, l = vb, t = vc}\n" + loop + after
    return "local va, vb, vc = ...\nlocal S = va\nGL = vb\nlocal t = {t = vc}\n" + loop + after


def build_nested(kind):
    head = "local va, vb = ...\nlocal n = vb\n"
    core = "for i = va, n do emit(i) for j = va, n do emit(j) end end\nfor k = 4, n, -1 do emit(k) end\n"
    after = "emit('after', n, math.type(n) or type(n))\n"
    if kind == "upvalue":
        return head + "local function run()\n" + core + "end\nrun()\n" + after
    return head + core + after


def build_closure(which):
    if which == "capture_after":
        return ("local a, b, c = ...\nlocal fs = {}\nfor i = a, b, c do\n  fs[#fs + 1] = function() return i end\n  if #fs >= %d then break end\nend\n"
                "for k = 1, #fs do emit(fs[k]()) end\n" % PCAP)
    if which == "ctrl_order_start":
        # round 8 (seeded change C16-m10 was missed): the three control expressions are evaluated once, IN ORDER, and the
        # progression starts from e1's value at that moment: later control expressions that reassign the variable e1 (or e2)
        # was read from must not matter
        return ("local a, b, c = ...\nlocal S, L, T = a, b, c\nlocal function lim() local l = L; S = 1000; return l end\n"
                "local function stp() local t = T; S = 2000; L = -5; return t end\nlocal n = 0\n"
                "for i = S, lim(), stp() do\n  emit(i)\n  n = n + 1\n  if n >= %d then break end\nend\n" % PCAP)
    if which == "ctrl_order_limit":
        return ("local a, b, c = ...\nlocal S, L, T = a, b, c\nlocal function stp() local t = T; L = -5; S = 2000; return t end\nlocal n = 0\n"
                "for i = S, L, stp() do\n  emit(i)\n  n = n + 1\n  if n >= %d then break end\nend\n" % PCAP)
    if which == "stale_setter":
        return ("local a, b, c = ...\nlocal bump\nlocal gets = {}\nlocal n = 0\nfor i = a, b, c do\n  if bump then bump() end\n  emit(i)\n"
                "  bump = function() i = i + 100 end\n  gets[#gets + 1] = function() return i end\n  n = n + 1\n  if n >= %d then break end\nend\n"
                "for k = 1, #gets do emit(gets[k]()) end\n" % PCAP)
    return ("local a, b = ...\nlocal fs = {}\nfor i = a, b do\n  for j = a, b do\n    fs[#fs + 1] = function() return i, j end\n  end\nend\n"
            "for k = 1, #fs do emit(fs[k]()) end\n")


def plus100(v):
    """hx value + 100 as Lua computes it (small values only)"""
    if v[0] == "i":
        return "i%d" % (int(v[1:]) + 100)
    return hxv(N.F(N.val_float("F" + v[1:]) + 100.0))


def check_programs(ck, gvh, oracle):
    starts = ["I1", N.F(0.5), "S31"]
    limits = ["I5", "I3", N.F(2.5), N.F(4.0), "S33", N.F(2.0 ** 63)]
    steps = ["I1", "I2", N.F(0.5), "S31", "I-1"]
    progs = []      # (kind of program, source, args, descriptor)
    for kind in KINDS:
        for body in BODIES:
            src = build_program(kind, body)
            for a in starts:
                for b in limits:
                    for c in steps:
                        progs.append(("single", src, (a, b, c), (kind, body)))
    for kind in ("local", "upvalue"):
        src = build_nested(kind)
        for a in ("I1", N.F(0.5), "I2"):
            for b in ("I3", N.F(2.5), "S33", "I5", N.F(3.0)):
                progs.append(("nested", src, (a, b), (kind, "nested")))
    # closures capturing the loop variable: every iteration has its own variable
    for which in ("capture_after", "stale_setter", "ctrl_order_start", "ctrl_order_limit"):
        src = build_closure(which)
        for a in starts:
            for b in limits:
                for c in steps:
                    progs.append((which, src, (a, b, c), ("closure", which)))
    src = build_closure("nested_capture")
    for a in ("I1", N.F(0.5), "I2"):
        for b in ("I3", N.F(2.5), "S33", N.F(3.0)):
            progs.append(("nested_capture", src, (a, b), ("closure", "nested_capture")))
    # oracle: the manual's sequence for every numeric triple needed
    need = {}
    for what, src, args, _ in progs:
        if what in ("single", "capture_after", "stale_setter", "ctrl_order_start", "ctrl_order_limit"):
            need[manual_triple(*args)] = None
        elif what == "nested_capture":
            need[manual_triple(args[0], args[1], "I1")] = None
        else:
            need[manual_triple(args[0], args[1], "I1")] = None
            need[manual_triple("I4", args[1], "I-1")] = None
    keys = list(need)
    olines = ["p%d %s %s %s %d plain" % (i, k[0], k[1], k[2], PCAP) for i, k in enumerate(keys)]
    _, mo, _ = vlib.run_lines(oracle, ["for"], olines, timeout=600)
    if len(mo) != 2 * len(keys):
        ck.violation("for/programs: oracle crashed", {"kind": "oracle-crash"}, no_input=True)
        return
    for i, k in enumerate(keys):
        st, _, tr = parse_out(mo[2 * i + 1])[1][2:].partition(" T:")
        need[k] = (st, [] if tr == "-" else [hxv(v) for v in tr.split(";")])
    glines = []
    for i, (what, src, args, _) in enumerate(progs):
        glines.append("g%d %s args=%s" % (i, src.encode().hex(), ",".join(hxv(a) for a in args)))
    rc, impl, err = vlib.run_lines(gvh, ["prog"], glines, timeout=900)
    if rc != 0 or len(impl) != len(progs):
        ck.violation("gvh-num prog crashed or produced %d/%d lines" % (len(impl), len(progs)), {"kind": "crash", "stderr": err[-1500:]})
        return
    after_tag = "s" + b"after".hex()
    nbad = 0
    rep = {}
    for i, (what, src, args, desc) in enumerate(progs):
        f = impl[i].split(" ")
        status, trace = f[1], f[2][2:]
        ck.case("prog %s %s %s" % (desc[0], desc[1], ",".join(args)), True)
        ck.count("prog:kind:" + desc[0])
        ck.count("prog:body:" + desc[1])
        if what == "single":
            a, b, c = args
            st, seq = need[manual_triple(a, b, c)]
            if st.startswith("E"):
                want_status, want = "error", None
            else:
                want_status = "ok"
                ran = len(seq) > 0
                body = desc[1]
                fin = {"S": a, "L": b, "T": c}
                if ran:
                    if body in ("set_limit", "set_all"):
                        fin["L"] = SET["L"]
                    if body in ("set_step", "set_all"):
                        fin["T"] = SET["T"]
                    if body in ("set_start", "set_all"):
                        fin["S"] = SET["S"]
                ev = seq + [",".join([after_tag] + [x for k in ("S", "L", "T") for x in (hxv(fin[k]), tname(fin[k]))])]
                want = ";".join(ev)
        elif what in ("capture_after", "stale_setter", "ctrl_order_start", "ctrl_order_limit"):
            st, seq = need[manual_triple(*args)]
            if st.startswith("E"):
                want_status, want = "error", None
            elif what in ("capture_after", "ctrl_order_start", "ctrl_order_limit"):
                want_status, want = "ok", ";".join(seq)
            else:
                later = [plus100(v) for v in seq[:-1]] + seq[-1:]
                want_status, want = "ok", ";".join(seq + later)
        elif what == "nested_capture":
            st, seq = need[manual_triple(args[0], args[1], "I1")]
            want_status, want = "ok", ";".join("%s,%s" % (x, y) for x in seq for y in seq)
        else:
            a, b = args
            st1, seq = need[manual_triple(a, b, "I1")]
            st2, down = need[manual_triple("I4", b, "I-1")]
            ev = []
            for v in seq:
                ev.append(v)
                ev += seq
            ev += down
            ev.append(",".join([after_tag, hxv(b), tname(b)]))
            want_status, want = "ok", ";".join(ev)
        if want == "":
            want = "-"
        ok = (status == want_status) and (want is None or trace == want)
        if not ok:
            nbad += 1
            key = desc[0] + ":" + desc[1]
            if rep.setdefault(key, 0) < 1 and len(rep) <= 6:
                rep[key] += 1
                ck.violation("for loop program (%s variables, body %s, values %s): implementation gives [%s %s], the manual's loop on private copies of the three values gives [%s %s]"
                             % (desc[0], desc[1], ",".join(args), status, trace[:200], want_status, (want or "")[:200]),
                             {"kind": "Go!=S", "engine": "num", "mode": "prog", "source": src, "args": list(args), "impl": impl[i][:600], "expected_trace": want,
                              "theorems": ["C16_expressions_evaluated_once", "C16_body_assignment_harmless", "C16_control_registers_private"]})
    ck.sample({"program": progs[7][1], "args": list(progs[7][2]), "impl": impl[7][:200]})
    ck.cov["for_program_cases"] = len(progs)
    ck.cov["for_program_Go!=S"] = nbad


def run(tier, seed):
    ck = vlib.Check("C16", tier, seed, level="proof")
    # VERIF_NUM_OVERLAY / VERIF_NUM_TAG: mutation experiments only (go build -overlay, separate binary name)
    gvh, err = ck.build_gvh(pkg="./cmd/gvh-num", name="gvh_num" + os.environ.get("VERIF_NUM_TAG", ""),
                            overlay=os.environ.get("VERIF_NUM_OVERLAY"))
    if gvh is None:
        ck.violation("harness does not build against /repo", {"kind": "build", "stderr": err[-3000:]}, no_input=True)
        return ck.finish("n/a", TRUSTED, [])
    oracle = N.cached_oracle(ck)
    if oracle is None:
        ck.violation("oracle (extracted model) does not build", {"kind": "build"}, no_input=True)
        return ck.finish("n/a", TRUSTED, [])
    obl = N.Obligations(ck, PROP)
    obl.start()
    cases = []
    for f in N.read_corpus("C16", "for.txt"):
        cases.append((f[0], f[1], f[2] if f[2] != "-" else None, f[3] if len(f) > 3 else "plain"))
    ck.cov["corpus_for"] = len(cases)
    for a in LAT:
        for b in LAT:
            for c in LAT:
                cases.append((a, b, c, "plain"))
            cases.append((a, b, None, "plain"))
    nlat = len(cases)
    # the same triples with a body that assigns to the loop variable, and with literal operands (sampled)
    for i in range(nlat):
        a, b, c, _ = cases[i]
        if c is None:
            continue
        if i % 5 == 0 or tier != "quick":
            cases.append((a, b, c, "assign"))
        if i % 11 == 0 or tier != "quick":
            cases.append((a, b, c, "lit"))
    nrand = 5000 if tier == "quick" else 300000
    for _ in range(nrand):
        a, b, c = N.rand_num(ck.rng), N.rand_num(ck.rng), N.rand_num(ck.rng)
        if ck.rng.chance(1, 2):
            c = ck.rng.choice(["I1", "I-1", "I2", "I-3", "F3ff0000000000000", "Fbfe0000000000000", "I7fffffffffffffff", "I-8000000000000000"])
        if ck.rng.chance(1, 3) and N.is_int(a):
            # limit close to start
            b = N.I(max(-M63, min(M63 - 1, N.val_int(a) + ck.rng.below(41) - 20)))
        cases.append((a, b, c, "plain"))
    ck.log("for: %d lattice values, %d lattice triples, %d cases in all" % (len(LAT), nlat, len(cases)))
    lines = ["t%d %s %s %s %d %s" % (i, a, b, c if c is not None else "-", CAP, m) for i, (a, b, c, m) in enumerate(cases)]
    (rc, impl, err), (mrc, model, merr) = N.run_both(gvh, oracle, "for", lines)
    if rc != 0 or len(impl) != len(lines):
        ck.violation("gvh-num for crashed or produced %d/%d lines" % (len(impl), len(lines)),
                     {"kind": "crash", "stderr": err[-2000:], "last_line": lines[min(len(impl), len(lines) - 1)]})
        return ck.finish("n/a", TRUSTED, [])
    if mrc != 0 or len(model) != 2 * len(lines):
        ck.violation("oracle crashed (%d/%d lines)" % (len(model), 2 * len(lines)), {"kind": "oracle-crash", "stderr": merr[-2000:]}, no_input=True)
        return ck.finish("n/a", TRUSTED, [])
    n_s = n_im = 0
    im_first = None
    reported = {}
    for i, (a, b, c, mode) in enumerate(cases):
        gid, go = parse_out(impl[i])
        _, im = parse_out(model[2 * i])
        _, s = parse_out(model[2 * i + 1])
        im, s = im[2:], s[2:]
        canon = "%s %s %s %s" % (a, b, c, mode)
        step = c if c is not None else "I1"
        loopkind = "int" if (N.is_int(a) and N.is_int(step)) else "float"
        ck.count("loop:" + loopkind)
        ck.count("mode:" + mode)
        ck.count("limit:" + N.kind(b))
        st = go.split(" ")[0]
        ck.count("outcome:" + (st if not st.startswith("Eother") else "Eother"))
        niter = 0 if go.endswith("T:-") else go.count(";") + 1
        ck.count("iterations:%s" % ("0" if niter == 0 else "1" if niter == 1 else "2-%d" % (CAP - 1) if niter < CAP else "cap"))
        ck.case(canon, niter > 0 or st != "done")
        if go != s:
            kid = known_class(a, b, c, go, im, s)
            k = ck.known_match(lambda k: k["id"] == kid) if kid else None
            if k is not None:
                ck.known_finding(k)
            else:
                n_s += 1
                key = "S:" + loopkind + ":" + mode
                if reported.setdefault(key, 0) < 2:
                    reported[key] += 1
                    ck.violation("for i = %s, %s, %s (%s): implementation gives [%s], the manual's definition [%s]" % (a, b, c, mode, go, s),
                                 {"kind": "Go!=S", "engine": "num", "mode": "for", "line": lines[i].split(" ", 1)[1], "impl": go, "model_IM": im, "model_S": s,
                                  "theorems": ["C16_int_loop_sequence", "Num/ForLoop.v for_s"]})
        if go != im:
            n_im += 1
            if im_first is None:
                im_first = (lines[i], go, im)
    for i in (5, nlat // 2 + 17, len(cases) - 1):
        ck.sample({"case(start limit step cap mode)": lines[i].split(" ", 1)[1], "impl": impl[i].split(" ", 1)[1], "S": model[2 * i + 1].split(" ", 1)[1]})
    if n_im and not n_s:
        ck.violation("implementation no longer matches the Coq model Num/ForLoop.v (Go≈IM/num for) on %d cases; no property-level failure found" % n_im,
                     {"kind": "Go!=IM", "correspondence": "Go≈IM/num for", "line": im_first[0], "impl": im_first[1], "model": im_first[2], "differences": n_im,
                      "theorems_no_longer_about_this_code": ["C16_int_loop_sequence", "C16_int_loop_terminates_within_count", "C16_int_loop_never_wraps"]},
                     no_input=True)
    check_strings(ck, gvh, oracle)
    check_programs(ck, gvh, oracle)
    obl.join()
    ok_obl = obl.ok
    if not ok_obl:
        ck.violation("proof obligations of C16 no longer check: " + str(ck.cov.get("obligation_failure", ""))[:300],
                     {"kind": "proof", "theorem_file": PROP, "detail": ck.cov.get("obligation_failure")}, no_input=True)
    ck.cov["for_Go!=S"] = n_s
    ck.cov["for_Go!=IM"] = n_im
    ck.cov["exhaustive"] = False
    ck.cov["lattice_values"] = len(LAT)
    return ck.finish(
        rule="every (start, limit, step) triple (and every (start, limit) pair with the default step) over a lattice of %d numbers (ints around 0, ±2^53+1, "
             "min/maxinteger and neighbours, 2^63-512/513; floats ±0, fractions, ±2^53, ±2^63 and neighbours, 2^64, ±inf, NaN, max, denormal) run as a real Lua "
             "for loop capped at %d iterations, recording each value with its type; a fifth of the triples again with a body that assigns to the loop variable, "
             "an eleventh with the operands as literals; + random triples; non-trivial = at least one iteration or an error; distinct by (start, limit, step, mode)" % (len(LAT), CAP),
        trusted_base=TRUSTED,
        assumptions=["iteration capped at %d (the theorems cover the unbounded loop)" % CAP,
                     "numeric strings / non-numbers as loop operands: a separate family of %d triples (check_strings)" % ck.cov.get("for_string_cases", 0),
                     "whole programs with the control expressions given as locals / upvalues / parameters / globals / table fields, bodies assigning to them and to "
                     "the loop variable, the variables read back after the loop, nested loops sharing a limit local: %d programs (check_programs)" % ck.cov.get("for_program_cases", 0)])


def replay(path, seed):
    r = json.load(open(path))
    ck = vlib.Check("C16", "quick", seed)
    gvh, _ = ck.build_gvh(pkg="./cmd/gvh-num", name="gvh_num")
    oracle = N.cached_oracle(ck)
    if r.get("mode") == "prog":
        line = "r %s args=%s" % (r["source"].encode().hex(), ",".join(hxv(a) for a in r["args"]))
        _, a, _ = vlib.run_lines(gvh, ["prog"], [line])
        print(r["source"])
        print("impl    :", a[0] if a else None)
        print("expected:", r.get("expected_trace"))
        return 0
    line = "r " + r["line"]
    _, a, _ = vlib.run_lines(gvh, ["for"], [line])
    _, b, _ = vlib.run_lines(oracle, ["for"], [line])
    print("impl :", a[0] if a else None)
    for l in b:
        print("model:", l)
    return 0
