# C12lit — parts (b) literal denotations and (c) equivalent renderings of C12 (see C12.py).


def check_literals(ck, gvh, oracle, tier, st):
    pass


def check_renderings(ck, gvh, tier, st):
    pass
