# C12lit — parts (b) literal denotations and (c) equivalent renderings of C12 (see C12.py).
#
# (b) every literal spelling is evaluated on the real runtime through  return <literal>  (gvh-front lua =
#     hx.RunLuaCase: load + call) and compared with its denotation by the manual (§3.1), computed here
#     independently (python int/float/float.fromhex are exact / correctly rounded) and, for integer numerals,
#     also by the extracted Coq model Front/Lex.v (S = manual, IM = ast.NewNumber).
# (c) programs rendered in equivalent spellings must give identical results and traces.
import json
import os
import re
import struct

from lib import vlib

TWO63 = 1 << 63
TWO64 = 1 << 64


def fbits(x):
    if x != x:
        return "fnan"
    return "f%016x" % struct.unpack("<Q", struct.pack("<d", x))[0]


def hexsrc(b):
    if isinstance(b, str):
        b = b.encode("latin-1")
    return b.hex() if b else "-"


# ----------------------------------------------------------------------------- numerals
def ref_number(text):
    """the manual's denotation of a numeral, as canonical value"""
    t = text.lower()
    if t.startswith("0x"):
        body = t[2:]
        if "." in body or "p" in body:
            try:
                return fbits(float.fromhex(text))
            except OverflowError:
                return fbits(float("inf"))
        n = int(body, 16) % TWO64
        return "i%d" % (n - TWO64 if n >= TWO63 else n)
    if "." in t or "e" in t:
        return fbits(float(text))
    n = int(text)
    if n < TWO63:
        return "i%d" % n
    try:
        return fbits(float(n))
    except OverflowError:
        return fbits(float("inf"))


def gen_numerals(rng, n):
    out = []
    for v in [0, 1, 7, 10, 1 << 31, (1 << 53) - 1, (1 << 53) + 1, TWO63 - 2, TWO63 - 1, TWO63, TWO63 + 1, TWO63 + 2,
              TWO63 + 1024, TWO63 + 1025, TWO64 - 2, TWO64 - 1, TWO64, TWO64 + 1, TWO64 + 2, 10 ** 19, 10 ** 20,
              123456789012345678901234567890, 10 ** 308, 2 * 10 ** 308, 10 ** 400, 9223372036854775807, 9223372036854775808,
              18446744073709551615, 18446744073709551616, 9999999999999999999, 12345678901234567890]:
        out.append(("dec-int", "%d" % v))
        out.append(("dec-int", "00%d" % v))
    for h in ["0", "ff", "7fffffffffffffff", "8000000000000000", "ffffffffffffffff", "10000000000000000", "1ffffffffffffffff",
              "123456789abcdef01", "fffffffffffffffffff", "abcdef0123456789abcd", "00000000000000000001", "FFFFFFFFFFFFFFFFF0"]:
        out.append(("hex-int", "0x" + h))
        out.append(("hex-int", "0X" + h.upper()))
    for f in ["3.", ".5", "3.14", "1e10", "1E+10", "1e-5", "0.1e1", "1e400", "1e-400", "5e-324", "2.5e-324", "1.7976931348623157e308",
              "1.7976931348623159e308", "0.000", "9007199254740993.0", "9223372036854775808.0", "1e1", "1.e1", ".1e1", "0e0",
              "123456789012345678901234567890.5", "4.9406564584124654e-324", "2.2250738585072011e-308", "0.1", "0.3", "1e23"]:
        out.append(("dec-float", f))
    for f in ["0x.8", "0x1p4", "0xA.8p0", "0x1P-1", "0x.1p-1080", "0x1p1024", "0x1p1023", "0xffffffffffffffffff.0", "0x1.fffffffffffff8p0",
              "0x1.fffffffffffff7p0", "0x10p-4", "0x.0p0", "0x1p-1074", "0x1p-1075", "0x1.8p-1074", "0xa.", "0X.Ap+2", "0x1.0000000000000800000001p0",
              "0x1.00000000000008p0", "0x123456789abcdef012345p-20"]:
        out.append(("hex-float", f))
    while len(out) < n:
        k = rng.below(5)
        if k == 0:
            nd = 1 + rng.below(24)
            out.append(("dec-int", "".join(str(rng.below(10)) for _ in range(nd))))
        elif k == 1:
            # around the boundaries
            base = rng.choice([TWO63, TWO64, 1 << 53, 10 ** 19])
            out.append(("dec-int", "%d" % (base + rng.below(4096) - 2048)))
        elif k == 2:
            nd = 1 + rng.below(22)
            out.append(("hex-int", rng.choice(["0x", "0X"]) + "".join(rng.choice("0123456789abcdefABCDEF") for _ in range(nd))))
        elif k == 3:
            a = "".join(str(rng.below(10)) for _ in range(rng.below(20)))
            b = "".join(str(rng.below(10)) for _ in range(rng.below(20)))
            if not a and not b:
                a = "7"
            t = a + "." + b if rng.chance(2, 3) else (a or b)
            if rng.chance(1, 2) or "." not in t:
                t += rng.choice("eE") + rng.choice(["", "+", "-"]) + str(rng.below(330))
            out.append(("dec-float", t))
        else:
            a = "".join(rng.choice("0123456789abcdefABCDEF") for _ in range(rng.below(18)))
            b = "".join(rng.choice("0123456789abcdefABCDEF") for _ in range(rng.below(18)))
            if not a and not b:
                a = "1"
            t = "0x" + (a + "." + b if rng.chance(2, 3) else (a or b))
            if rng.chance(2, 3) or "." not in t:
                t += rng.choice("pP") + rng.choice(["", "+", "-"]) + str(rng.below(1100))
            out.append(("hex-float", t))
    return out


# ----------------------------------------------------------------------------- strings
def utf8_ext(c):
    """Lua's extended UTF-8 (up to 2^31)"""
    if c < 0x80:
        return bytes([c])
    out = []
    mfb = 0x3f
    while True:
        out.append(0x80 | (c & 0x3f))
        c >>= 6
        mfb >>= 1
        if c <= mfb:
            break
    out.append(((~mfb << 1) & 0xff) | c)
    return bytes(reversed(out))


SIMPLE = {"a": 7, "b": 8, "f": 12, "n": 10, "r": 13, "t": 9, "v": 11, "\\": 92, '"': 34, "'": 39}


def gen_short_string(rng):
    """returns (kind, source bytes of the literal, denoted bytes)"""
    q = rng.choice(['"', "'"])
    src = bytearray(q.encode())
    val = bytearray()
    kinds = set()
    npieces = rng.below(7)
    prev_open_decimal = False
    prev_z = False
    for _ in range(npieces):
        k = rng.below(12)
        if k < 3:
            c = rng.choice("abz XYZ09_-[]{}#%=")
            if (prev_open_decimal and c.isdigit()) or (prev_z and c == " "):
                c = "x"
            src += c.encode()
            val += c.encode()
            prev_open_decimal = False
        elif k == 3:
            c = rng.choice(list(SIMPLE))
            src += b"\\" + c.encode()
            val.append(SIMPLE[c])
            kinds.add("simple")
            prev_open_decimal = False
        elif k == 4:
            nl = rng.choice(["\n", "\r", "\r\n", "\n\r"])
            src += b"\\" + nl.encode()
            val.append(10)
            kinds.add("line-continuation")
            prev_open_decimal = False
        elif k == 5:
            b = rng.below(256)
            src += ("\\x%02x" % b if rng.chance(1, 2) else "\\x%02X" % b).encode()
            val.append(b)
            kinds.add("hex")
            prev_open_decimal = False
        elif k == 6:
            b = rng.choice([0, 7, 9, 10, 65, 99, 100, 199, 200, 255, rng.below(256)])
            nd = rng.choice([0, 3, 3])
            s = ("%03d" % b) if nd == 3 else ("%d" % b)
            src += b"\\" + s.encode()
            val.append(b)
            kinds.add("decimal")
            prev_open_decimal = len(s) < 3
        elif k == 7:
            ws = "".join(rng.choice([" ", "\t", "\n", "\r\n", "\r", "\f", "\v"]) for _ in range(rng.below(4)))
            src += b"\\z" + ws.encode()
            kinds.add("z")
            prev_open_decimal = False
            prev_z = True
            continue
        elif k == 8:
            c = rng.choice([0, 0x41, 0x7f, 0x80, 0x7ff, 0x800, 0xffff, 0x10000, 0x10ffff, 0x110000, 0x1fffff, 0x200000, 0x3ffffff,
                            0x4000000, 0x7fffffff, rng.below(1 << 31)])
            src += ("\\u{%s%x}" % ("0" * rng.below(3), c)).encode()
            val += utf8_ext(c)
            kinds.add("unicode")
            prev_open_decimal = False
        elif k == 9:
            b = 0x80 + rng.below(0x80)
            src.append(b)
            val.append(b)
            kinds.add("raw-high-byte")
            prev_open_decimal = False
        elif k == 10:
            other = "'" if q == '"' else '"'
            src += other.encode()
            val += other.encode()
            prev_open_decimal = False
        else:
            src += b"--"
            val += b"--"
            prev_open_decimal = False
        prev_z = False
    src += q.encode()
    return "short:" + ("+".join(sorted(kinds)) or "plain"), bytes(src), bytes(val)


LONG_CONTENTS = ["", "]", "]=", "]]", "\n", "\n\n", "\r\nx", "\rx", "\n\rx", "x\r\ny", "x\n\ry\rz", "a]=]b", "a]==]b", "[[", "[=[", "\\n\\65",
                 "--", "x", "]]]", "=", "\r", "\r\n", "\n\r\n", "a\n", "\"'"]


def normalize_nl(s):
    return re.sub(r"\r\n|\n\r|\r|\n", "\n", s)


def gen_long_strings(rng, n):
    out = []
    for level in range(4):
        for c in LONG_CONTENTS:
            close = "]" + "=" * level + "]"
            if close in c or (c + "]").endswith(close) and False:
                continue
            # content ending in ']' followed by the closing bracket could close early:  ]  + ]=] is fine, ']' + ']]' closes at the first ]]
            if (c + close).find(close) != len(c):
                continue
            src = "[" + "=" * level + "[" + c + close
            v = normalize_nl(c)
            if v.startswith("\n"):
                v = v[1:]
            out.append(("long:level%d%s" % (level, ":empty" if c == "" else ""), src.encode("latin-1"), v.encode("latin-1")))
    return out


def lua_result(line):
    f = line.split(" ")
    status = f[1]
    ret = next((x[2:] for x in f if x.startswith("R:")), "-")
    err = next((x[2:] for x in f if x.startswith("E:")), "-")
    msg = bytes.fromhex(err).decode("latin-1") if err not in ("-", "") and re.match(r"^[0-9a-f]+$", err) else ""
    return status, ret, msg


def check_literals(ck, gvh, oracle, tier, st):
    rng = ck.rng.fork()
    cases = []
    nnum = 1500 if tier == "quick" else 40000
    for kind, text in gen_numerals(rng, nnum):
        cases.append({"kind": kind, "src": text.encode(), "want": ref_number(text), "text": text})
    for c in gen_long_strings(rng, 0):
        cases.append({"kind": c[0], "src": c[1], "want": "s" + (c[2].hex() or "-")})
    nstr = 2000 if tier == "quick" else 60000
    for _ in range(nstr):
        k, s, v = gen_short_string(rng)
        cases.append({"kind": k, "src": s, "want": "s" + (v.hex() or "-")})
    lines = []
    for i, c in enumerate(cases):
        pre = rng.choice([b"return ", b"return\n", b"return --[[x]] ", b"return(", b"return "])
        post = b")" if pre.endswith(b"(") else rng.choice([b"", b"\n", b" ", b";", b" --e"])
        c["chunk"] = pre + c["src"] + post
        lines.append("l%d %s chunk=chunk" % (i, hexsrc(c["chunk"])))
    from lib.props import C12 as A
    out = A.lua_batched(gvh, lines)
    # the Coq model of integer numerals (S and IM) on the same spellings
    ol, oidx = [], []
    for i, c in enumerate(cases):
        if c["kind"] in ("dec-int", "hex-int"):
            t = c["text"].lower()
            ol.append("n%d N %s %s" % (i, "hex" if t.startswith("0x") else "dec", t[2:] if t.startswith("0x") else t))
            oidx.append(i)
    rc, oo, oe = vlib.run_lines(oracle, [], ol, timeout=600)
    if rc != 0 or len(oo) != len(ol):
        ck.violation("oracle crashed on numerals (%d/%d)" % (len(oo), len(ol)), {"kind": "oracle-crash", "stderr": oe[-1500:]}, no_input=True)
        oo = []
    model = {}
    for i, l in zip(oidx, oo):
        f = l.split(" ")
        model[i] = (f[1], f[2])   # S, IM  each  i<dec> | F<dec nat to be converted to float>
    # the Coq model of string denotations (LexStr.unescape / long_denot) on the same spellings
    sl, sidx = [], []
    for i, c in enumerate(cases):
        if c["kind"].startswith("short"):
            body = normalize_nl(c["src"][1:-1].decode("latin-1")).encode("latin-1")
            sl.append("s%d S %s" % (i, body.hex() or "-"))
            sidx.append(i)
        elif c["kind"].startswith("long"):
            sl.append("s%d L %s" % (i, c["src"].hex()))
            sidx.append(i)
    rc, so, se = vlib.run_lines(oracle, [], sl, timeout=600)
    smodel = {}
    if rc != 0 or len(so) != len(sl):
        ck.violation("oracle crashed on string literals (%d/%d)" % (len(so), len(sl)), {"kind": "oracle-crash", "stderr": se[-1500:]}, no_input=True)
    else:
        for i, l in zip(sidx, so):
            smodel[i] = l.split(" ")[1]
    for i, c in enumerate(cases):
        status, ret, msg = lua_result(out[i])
        ck.count("b:" + c["kind"].split("+")[0])
        ck.case(c["chunk"].hex(), status == "ok")
        got = ret if status == "ok" else status + ":" + msg[:80]
        rep = {"engine": "front", "mode": "lua", "source_hex": hexsrc(c["chunk"]), "source": c["chunk"].decode("latin-1"),
               "literal": c["src"].decode("latin-1"), "expected": c["want"], "got": got}
        if i in model:
            s_den, im_den = [x if x[0] == "i" else ref_number(x[1:]) for x in model[i]]
            rep["model_S"], rep["model_IM"] = s_den, im_den
            if s_den != c["want"]:
                ck.violation("Lex.v S-model disagrees with the python reference on numeral " + c["text"], dict(rep, kind="model-self"), no_input=True)
                continue
        if i in smodel:
            rep["model_S"] = smodel[i]
            if smodel[i] != c["want"]:
                ck.violation("LexStr.v disagrees with the python reference on " + c["src"].decode("latin-1")[:60].encode("unicode_escape").decode(),
                             dict(rep, kind="model-self"), no_input=True)
                continue
        if got == c["want"]:
            if i in model and im_den != got:
                if c["kind"] == "dec-int" and TWO63 <= int(c["text"]) < TWO64:
                    # the recorded defect C12-decimal-overflow-integer no longer shows: ast/number.go was repaired
                    # (by the `num` agent); Lex.go_dec is then stale on exactly this class — noted, not a violation
                    if not any("go_dec" in n for n in ck.notes):
                        ck.notes.append("C12-decimal-overflow-integer no longer reproduces: Lex.go_dec (IM of ast.NewNumber) is stale on [2^63,2^64); "
                                        "replace go_dec by s_dec and the _partial/_refuted pair by the full theorem")
                    continue
                st["go_ne_im"] += 1
                st["first_im"] = st["first_im"] or rep
            continue
        kf = None
        lit = c["src"].decode("latin-1")
        if c["kind"].startswith("long") and re.match(r"^\[(=*)\[\]\1\]$", lit) and "index out of range" in msg:
            kf = "C12-empty-long-string"
        elif c["kind"] == "dec-int" and TWO63 <= int(lit) < TWO64 and got == "i%d" % (int(lit) - TWO64):
            kf = "C12-decimal-overflow-integer"
            if i in model and im_den != got:
                st["go_ne_im"] += 1
                st["first_im"] = st["first_im"] or rep
        k = ck.known_match(lambda k_: k_["id"] == kf) if kf else None
        if k is not None:
            ck.known_finding(k)
            continue
        st["go_ne_s"] += 1
        if st["go_ne_s"] <= 8:
            rep["kind"] = "Go!=S"
            rep["theorems"] = ["C12_numeral_denotation" if i in model else "(literal denotation)"]
            ck.violation("literal %s denotes %s by the manual, golua gives %s" % (lit[:60].encode("unicode_escape").decode(), c["want"][:40], got[:60]), rep)
    for i in (0, 3, len(cases) // 2, len(cases) - 1):
        ck.sample({"kind": cases[i]["kind"], "literal": cases[i]["src"].decode("latin-1")[:100], "denotes": cases[i]["want"][:100]})
    ck.log("(b) %d literal spellings" % len(cases))
    check_invalid_literals(ck, gvh, st)


INVALID = ['"\\400"', '"\\256"', '"\\xZ1"', '"\\x1"', '"\\u{80000000}"', '"\\u{}"', '"\\u{12"', '"\\q"', '"\\8x"[0]' if False else '"\\xg0"',
           '"abc', "'abc\"", '"a\nb"', "[[abc", "[==[abc]=]", "0x", "0xg", "1e", "1e+", "0x1p", "3..2", "1.2.3", "0x.p1", "12a", "0x1pz", "1ee1",
           ".e1" if False else "1e1.5"]


def check_invalid_literals(ck, gvh, st):
    lines = ["i%d %s chunk=chunk" % (i, hexsrc("return " + s)) for i, s in enumerate(INVALID)]
    out = vlib.run_lines_resilient(gvh, ["lua"], lines, per_case_timeout=30)
    for s, l in zip(INVALID, out):
        status, ret, msg = lua_result(l)
        ck.count("b:invalid-literal")
        ck.case("invalid:" + s, True)
        if status == "compile_error" and not msg.startswith("chunk:") and "escape sequence out of range" in msg:
            k = ck.known_match(lambda k_: k_["id"] == "C12-escape-range-error-no-line")
            if k is not None:
                ck.known_finding(k)
                continue
        if status != "compile_error" or not re.match(r"^chunk:\d+:", msg):
            st["go_ne_s"] += 1
            ck.violation("malformed literal %r is not rejected with a positioned syntax error: %s %s" % (s, status, (ret + " " + msg)[:80]),
                         {"kind": "Go!=S", "engine": "front", "mode": "lua", "source_hex": hexsrc("return " + s), "source": "return " + s,
                          "expected": "compile_error chunk:<line>:…", "got": l[:400]})


# ----------------------------------------------------------------------------- (c) equivalent renderings
PROGRAMS = [
    # (renderings of one program, args)
    (["return 1+2*3, (1+2)*3, 2^3^2, -2^2, 1 ..2 ..3",
      "return (1+(2*3)), ((1+2)*3), (2^(3^2)), (-(2^2)), (1 ..(2 ..3))",
      "return --[[c]] 1 +\n2 --x\n* 3 , ( 1 + 2 )\r\n* 3 ,2 ^ 3 ^ 2,- 2 ^ 2, 0x1 .. 0X2 .. 3;"], ""),
    (["local t = {10,20,30; x=1, ['y']=2} emit(#t, t.x, t['y'], t[2]) return t.x+t.y",
      "local t={ 10 , 20 , 30 , x = 1 ; [\"y\"] = 2 , }\nemit( # t , t [ 'x' ] , t.y , ( t ) [ 2 ] )\nreturn ( t [ [[x]] ] ) + ( t [ [=[y]=] ] )"], ""),
    (["local function f(...) return ... end emit(f(1,2,3)) emit((f(1,2,3))) emit({f(1,2,3)}, #{f(1,2,3)}, #{(f(1,2,3))}) return f(1,2), (f(1,2))",
      "local function f ( ... )\nreturn ...\nend;emit ( f ( 1 , 2 , 3 ) ) ; emit ( ( f ( 1 , 2 , 3 ) ) ) emit ( { f ( 1 , 2 , 3 ) } , # { f ( 1 , 2 , 3 ) } , # { ( f ( 1 , 2 , 3 ) ) } ) return f ( 0x1 , 2 ) , ( ( f ( 1 , 2 ) ) )"], ""),
    (["local s = 'a\\tb\\65\\x41\\u{41}\\z   c' emit(s, #s) return s == \"a\\9bAAAc\"",
      "local s = \"a\\tb\\065\\x41\\u{0041}\\z\n\n  c\" emit( s , # s ) return s == [[a\tbAAAc]]"], ""),
    (["local a, b = 7, 3 return a // b, a % b, a / b, a & b, a | b, a ~ b, ~a, a << b, a >> 1, a < b, a <= b, a ~= b, not a == b, a .. b",
      "local a , b = 0x7 , 03 return ( a // b ) , ( a % b ) , ( a / b ) , ( a & b ) , ( a | b ) , ( a ~ b ) , ( ~ a ) , ( a << b ) , ( a >> 1 ) , ( a < b ) , ( a <= b ) , ( a ~= b ) , ( ( not a ) == b ) , ( a .. b )"], ""),
    (["local t = setmetatable({}, {__index = function(_, k) return k .. '!' end, __call = function(self, x) return x end}) emit(t.x, t'lit', t{1}[1], ('ab'):rep(2)) return t.a.b",
      "local t = setmetatable ( { } , { __index = function ( _ , k ) return k .. \"!\" end ; __call = function ( self , x ) return x end , } ) emit ( t [ 'x' ] , t ( [[lit]] ) , ( t ( { 1 } ) ) [ 1 ] , ( \"ab\" ) : rep ( 2 ) ) return ( t [ \"a\" ] ) [ 'b' ]"], ""),
    (["for i = 1, 3 do if i == 2 then goto cont end emit(i) ::cont:: end local n = 0 while n < 2 do n = n + 1 end repeat n = n - 1 until n == 0 return n",
      "for i=1,3 do\n if i==2 then\n  goto cont\n end\n emit(i)\n ::cont::\nend\nlocal n=0;\nwhile n<2 do n=n+1 end;\nrepeat n=n-1 until n==0;\nreturn n;"], ""),
]


def check_renderings(ck, gvh, tier, st):
    lines = []
    for pi, (rends, _) in enumerate(PROGRAMS):
        for ri, src in enumerate(rends):
            lines.append("p%d_%d %s chunk=chunk" % (pi, ri, hexsrc(src)))
    # witnesses of repaired / recorded findings (corpus/C12/*.jsonl): replayed on every run
    wit = []
    cdir = os.path.join(vlib.VERIF, "corpus", "C12")
    if os.path.isdir(cdir):
        for fn in sorted(os.listdir(cdir)):
            if fn.endswith(".jsonl"):
                for l in open(os.path.join(cdir, fn)):
                    if l.strip():
                        wit.append(json.loads(l))
    for wi, w in enumerate(wit):
        lines.append("w%d %s chunk=chunk args=%s" % (wi, hexsrc(w["src"]), w.get("args", "-")))
    out = vlib.run_lines_resilient(gvh, ["lua"], lines, per_case_timeout=30)
    res = {l.split(" ")[0]: l for l in out}
    for pi, (rends, _) in enumerate(PROGRAMS):
        base = None
        for ri, src in enumerate(rends):
            l = res.get("p%d_%d" % (pi, ri), "")
            f = l.split(" ")
            obs = " ".join(x for x in f[1:] if x[:2] in ("T:", "R:") or x in ("ok", "error", "compile_error", "gopanic"))
            ck.count("c:rendering")
            ck.case(src, f[1:2] == ["ok"])
            if f[1:2] != ["ok"] or (base is not None and obs != base):
                st["go_ne_s"] += 1
                ck.violation("equivalent renderings of one program behave differently (or do not run)",
                             {"kind": "Go!=S", "engine": "front", "mode": "lua", "source_hex": hexsrc(src), "source": src,
                              "expected": base or "ok", "got": l[:600], "first_rendering": rends[0]})
            if base is None:
                base = obs
    for wi, w in enumerate(wit):
        l = res.get("w%d" % wi, "")
        status, ret, msg = lua_result(l)
        ck.count("c:finding-witness")
        ck.case("witness:" + w["src"], True)
        want_status, want = w["expect"].split(" ", 1)
        if want.startswith("R:"):
            good = status == want_status and ret == want[2:]
        else:
            good = status == want_status and msg.startswith(want[2:])
        if good:
            continue
        k = ck.known_match(lambda k_: k_["id"] == w["id"])
        if k is not None:
            ck.known_finding(k)
        else:
            st["go_ne_s"] += 1
            ck.violation("corpus witness of %s fails again: %r" % (w["id"], w["src"][:60]),
                         {"kind": "Go!=S", "engine": "front", "mode": "lua", "source_hex": hexsrc(w["src"]), "source": w["src"],
                          "expected": w["expect"], "got": l[:400], "finding": w["id"]})
    ck.log("(c) %d renderings" % (len(lines)))
