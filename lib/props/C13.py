# C13 — string.dump followed by load reproduces the function; dumping is deterministic and stable.
#
#  proof obligations : coq/theories/Properties/C13.v (models Marshal/Model.v, Marshal/ModelRefactor.v)
#  correspondence    : gvh-marshal (real string.dump/load/UnmarshalConst/RefactorCodeConsts via hook VerifCodeDump)
#                      vs oracle/marshal (extracted model)
#  property-level    : independent Python decoder of the dump format, predicates on the reloaded code, behaviour f vs load(dump f)
#
# Generator of Lua chunks for C13 (string.dump / load round trip).
#
# A chunk defines global functions F1..Fn that are *closed* (no free local
# variables: they use parameters, their own locals, nested functions and
# globals only), registers every closure it creates (closed or not) with the
# host function reg(f), and leaves the closed ones in the global table FS.
# The shapes aimed at: nested functions (several levels, capturing enclosing
# locals), constants of every type (large/small integers, floats incl. -0.0,
# inf, nan via expressions, denormals, short and long strings with NULs and
# high bytes), varargs, upvalue mutation, to-be-closed variables, runtime
# errors at known lines, many constants shared between functions in different
# orders (so that the per-function renumbering is not the identity).

INT_POOL = [0, 1, -1, 2, 7, 255, 256, 32767, 32768, -32768, -32769, 65535, 65536, 1 << 31, (1 << 31) - 1, -(1 << 31),
            (1 << 53) + 1, (1 << 62), (1 << 63) - 1, -(1 << 63) + 1, 1000003, 123456789012, -987654321]
FLT_POOL = ["0.5", "1.5", "0.1", "1e300", "1e-320", "9007199254740992.0", "3.0", "2.5e-7", "1e15", "123456.789",
            "0x1p-1074", "0x1.fffffffffffffp1023", "4.9e-324",
            # round 8 (seeded change C13-m10 was missed): literals that overflow to +inf are legitimate float constants
            "1e999", "0x1p2000", "1e309"]
FLT_EXPR = ["(-0.0)", "(1/0)", "(-1/0)", "(0/0)", "(0.0)", "(2^53)", "math.pi", "math.huge", "(-math.huge)"]


def lua_str(b):
    out = ['"']
    for c in b:
        if c in (34, 92) or c < 32 or c > 126:
            out.append("\\%03d" % c)
        else:
            out.append(chr(c))
    out.append('"')
    return "".join(out)


class ChunkGen:
    def __init__(self, rng, size=1.0, hist=None):
        self.r = rng
        self.size = size
        self.lines = []
        self.uid = 0
        self.hist = hist if hist is not None else {}
        r = rng
        # the pool of non-inlined constants of this chunk, shared by all its functions
        self.ints = [r.choice(INT_POOL) for _ in range(3)] + [r.below(1 << 40) + 70000 for _ in range(3)]
        self.flts = [r.choice(FLT_POOL) for _ in range(3)]
        self.strs = [self.rand_str() for _ in range(4)]
        self.nfun = 0
        self.closed = []
        self.ro = set()

    def h(self, k):
        self.hist[k] = self.hist.get(k, 0) + 1

    def rand_str(self):
        r = self.r
        k = r.below(20)
        if k == 0:
            n = r.choice([1000, 1000, 5000, 5000, 5000, 70000]) if r.chance(1, 3) else 300
            self.h("str:long%d" % n)
        elif k < 4:
            n = r.below(3)
            self.h("str:short")
        else:
            n = 3 + r.geometric(12, 200)
            self.h("str:mid")
        kind = r.below(4)
        if kind == 0:
            bs = bytes(r.below(256) for _ in range(n))
            self.h("str:binary")
        elif kind == 1:
            bs = bytes(r.choice([0, 0, 1, 255, 65, 10, 13, 34, 92]) for _ in range(n))
            self.h("str:nuls")
        else:
            bs = bytes(97 + r.below(26) for _ in range(n))
        return lua_str(bs)

    def fresh(self, p):
        self.uid += 1
        return "%s%d" % (p, self.uid)

    def emit_line(self, ind, s):
        self.lines.append("  " * ind + s)

    # ---------------------------------------------------------------- expressions
    def const(self):
        r = self.r
        k = r.below(12)
        if k < 3:
            self.h("k:int-pool")
            return str(r.choice(self.ints))
        if k < 5:
            self.h("k:float-pool")
            return r.choice(self.flts)
        if k < 8:
            self.h("k:string-pool")
            return r.choice(self.strs)
        if k == 8:
            self.h("k:float-expr")
            return r.choice(FLT_EXPR)
        if k == 9:
            self.h("k:small-int")
            return str(r.below(200) - 100)
        if k == 10:
            self.h("k:fresh")
            return r.choice([str(r.choice(INT_POOL)), r.choice(FLT_POOL), self.rand_str()])
        self.h("k:nil-bool")
        return r.choice(["nil", "true", "false"])

    def num(self, sc, d=0):
        r = self.r
        k = r.below(10 if d < 3 else 4)
        if k < 2:
            return r.choice([str(r.choice(self.ints)), r.choice(self.flts), str(r.below(50)), r.choice(FLT_EXPR)])
        if k < 4 and sc:
            return "(tonumber(%s) or %d)" % (r.choice(sc), r.below(9))
        if k < 4:
            return str(r.below(1000))
        if k < 8:
            op = r.choice(["+", "-", "*", "/", "//", "%", "+", "-", "*"])
            return "(%s %s %s)" % (self.num(sc, d + 1), op, self.num(sc, d + 1))
        if k == 8:
            return "(#%s)" % self.strx(sc, d + 1)
        return "(math.tointeger(%s) or %d) %s %d" % (self.num(sc, d + 1), r.below(5), r.choice(["&", "|", "~", "<<", ">>"]), r.below(70))

    def strx(self, sc, d=0):
        r = self.r
        k = r.below(6 if d < 3 else 2)
        if k < 2:
            return r.choice(self.strs)
        if k == 2 and sc:
            v = r.choice(sc)
            return "tostring(tonumber(%s) or type(%s))" % (v, v)   # never the address of a table/function
        if k == 3:
            return "(%s .. %s)" % (self.strx(sc, d + 1), self.strx(sc, d + 1))
        if k == 4:
            return "(%s):sub(%d, %d)" % (self.strx(sc, d + 1), r.below(5), r.below(9))
        return "(%s):rep(%d)" % (r.choice(self.strs[:2] + ['"ab"']), r.below(3))

    def expr(self, sc, d=0):
        r = self.r
        k = r.below(10)
        if k < 3:
            return self.const()
        if k < 5 and sc:
            return r.choice(sc)
        if k < 7:
            return self.num(sc, d + 1)
        if k == 7:
            return self.strx(sc, d + 1)
        if k == 8:
            return "(%s %s %s)" % (self.expr(sc, d + 2) if d < 2 else self.const(), r.choice(["==", "~=", "and", "or"]),
                                   self.expr(sc, d + 2) if d < 2 else self.const())
        return "math.type(%s)" % (r.choice(sc) if sc else self.const())

    def cond(self, sc):
        r = self.r
        k = r.below(5)
        if k == 0 and sc:
            return r.choice(sc)
        if k == 1 and sc:
            return "type(%s) == %s" % (r.choice(sc), r.choice(['"number"', '"string"', '"nil"']))
        if k == 2:
            return "%s %s %s" % (self.num(sc, 2), r.choice(["<", "<=", ">", "==", "~="]), self.num(sc, 2))
        if k == 3 and sc:
            return "not %s" % r.choice(sc)
        return "%s == %s" % (self.expr(sc, 2), self.const())

    # ---------------------------------------------------------------- statements
    def block(self, ind, sc, depth, vararg, budget):
        """emit a block; sc = visible local names (a copy is extended); returns nothing"""
        r = self.r
        sc = list(sc)
        n = 1 + r.geometric(max(1, int(3 * self.size)), 10)
        for _ in range(n):
            if budget[0] <= 0:
                break
            budget[0] -= 1
            k = r.below(26)
            if k < 4:
                v = self.fresh("v")
                self.emit_line(ind, "local %s = %s" % (v, self.expr(sc)))
                sc.append(v)
                self.h("st:local")
            elif k < 7:
                self.emit_line(ind, "emit(%s)" % ", ".join(self.expr(sc) for _ in range(1 + r.below(3))))
                self.h("st:emit")
            elif k < 9 and depth < 3:
                self.emit_line(ind, "if %s then" % self.cond(sc))
                self.block(ind + 1, sc, depth + 1, vararg, budget)
                if r.chance(1, 2):
                    self.emit_line(ind, "else")
                    self.block(ind + 1, sc, depth + 1, vararg, budget)
                self.emit_line(ind, "end")
                self.h("st:if")
            elif k == 9 and depth < 3:
                i = self.fresh("i")
                step = r.choice(["", "", ", 2", ", 0.5", ", -1"])
                a, b = (r.below(4), r.below(5)) if step != ", -1" else (r.below(5), r.below(3))
                self.emit_line(ind, "for %s = %d, %d%s do" % (i, a, b, step))
                self.block(ind + 1, sc + [i], depth + 1, vararg, budget)
                self.emit_line(ind, "end")
                self.h("st:for")
            elif k == 10 and depth < 3:
                # nested function capturing enclosing locals, registered and called
                hname = self.fresh("h")
                ps = [self.fresh("p") for _ in range(r.below(3))]
                va = r.chance(1, 4)
                self.emit_line(ind, "local function %s(%s)" % (hname, ", ".join(ps + (["..."] if va else []))))
                self.block(ind + 1, sc + ps, depth + 1, va, budget)
                self.emit_line(ind + 1, "return %s" % ", ".join(self.expr(sc + ps) for _ in range(r.below(3))))
                self.emit_line(ind, "end")
                self.emit_line(ind, "reg(%s)" % hname)
                v = self.fresh("v")
                self.emit_line(ind, "local %s = %s(%s)" % (v, hname, ", ".join(self.expr(sc) for _ in range(r.below(4)))))
                sc.append(v)
                self.h("st:nested-function" + (":vararg" if va else ""))
            elif k == 11 and vararg:
                c = r.below(4)
                v = self.fresh("v")
                if c == 0:
                    self.emit_line(ind, 'local %s = select("#", ...)' % v)
                elif c == 1:
                    self.emit_line(ind, "local %s = {...}" % v)
                    self.emit_line(ind, "emit(#%s, %s[1], %s[#%s])" % (v, v, v, v))
                elif c == 2:
                    self.emit_line(ind, "local %s = (...)" % v)
                    self.emit_line(ind, "emit(...)")
                else:
                    self.emit_line(ind, "local %s = select(2, ...)" % v)
                sc.append(v)
                self.h("st:vararg-use")
            elif k == 12:
                c = r.below(5)
                if c == 0:
                    self.emit_line(ind, "if %s then error(%s) end" % (self.cond(sc), r.choice(self.strs[:3] + ['"boom"'])))
                elif c == 1:
                    self.emit_line(ind, "if %s then error({code = %s}) end" % (self.cond(sc), self.const()))
                elif c == 2:
                    self.emit_line(ind, "if %s then local z = nil + %s end" % (self.cond(sc), self.const()))
                elif c == 3:
                    self.emit_line(ind, "if %s then local z = (%s)() end" % (self.cond(sc), self.const()))
                else:
                    self.emit_line(ind, "if %s then error(%s, %d) end" % (self.cond(sc), self.strx(sc), r.below(3)))
                self.h("st:error-site")
            elif k == 13:
                t = self.fresh("t")
                self.emit_line(ind, "local %s = {%s, k = %s, [%s] = %s}" % (t, self.expr(sc), self.expr(sc), r.choice(self.strs + [str(x) for x in self.ints]), self.expr(sc)))
                self.emit_line(ind, "emit(%s.k, #%s, %s[1])" % (t, t, t))
                sc.append(t)
                self.h("st:table")
            elif k == 14 and depth < 3:
                c = self.fresh("c")
                self.emit_line(ind, "local %s = 0" % c)
                self.emit_line(ind, "while %s < %d do" % (c, r.below(4)))
                self.emit_line(ind + 1, "%s = %s + 1" % (c, c))
                self.emit_line(ind + 1, "emit(%s)" % c)
                self.block(ind + 1, sc, depth + 1, vararg, budget)   # the counter is not assignable inside
                self.emit_line(ind, "end")
                self.h("st:while")
            elif k == 15:
                g = "G%d" % r.below(4)
                if r.chance(1, 2):
                    self.emit_line(ind, "%s = %s" % (g, self.expr(sc)))
                else:
                    self.emit_line(ind, "emit(%s)" % g)
                self.h("st:global")
            elif k == 16 and depth < 3:
                # counter closure: upvalue mutation, returned function
                c = self.fresh("n")
                f = self.fresh("k")
                self.emit_line(ind, "local %s = %s" % (c, self.num(sc, 2)))
                self.emit_line(ind, "local %s = function(d) %s = %s + (tonumber(d) or 1); return %s end" % (f, c, c, c))
                self.emit_line(ind, "reg(%s)" % f)
                self.emit_line(ind, "emit(%s(2), %s(%s))" % (f, f, self.const()))
                sc += [c, f]
                self.h("st:counter-closure")
            elif k in (22, 23) and depth < 3:
                sc = self.captured_constants(ind, sc)
            elif k in (24, 25) and depth < 2:
                self.deep_error(ind, sc)
            elif k == 17 and depth < 3:
                x = self.fresh("x")
                self.emit_line(ind, "do")
                self.emit_line(ind + 1, "local %s <close> = setmetatable({}, {__close = function(o, e) emit(%s, e) end})" % (x, self.const()))
                self.block(ind + 1, sc, depth + 1, vararg, budget)
                self.emit_line(ind, "end")
                self.h("st:tbc")
            elif k == 18 and self.closed:
                self.emit_line(ind, "emit(pcall(%s))" % ", ".join([r.choice(self.closed)] + [self.expr(sc) for _ in range(r.below(3))]))
                self.h("st:call-global-function")
            elif k == 19:
                v = self.fresh("v")
                self.emit_line(ind, "local %s <const> = %s" % (v, self.const()))
                sc.append(v)
                self.ro.add(v)
                self.h("st:const-local")
            elif k == 20 and depth < 3:
                c = self.fresh("c")
                self.emit_line(ind, "local %s = %d" % (c, r.below(3)))
                self.emit_line(ind, "repeat")
                self.emit_line(ind + 1, "%s = %s + 1" % (c, c))
                self.emit_line(ind + 1, "if %s then break end" % self.cond(sc + [c]))
                self.emit_line(ind, "until %s > %d" % (c, r.below(4)))
                self.h("st:repeat")
            else:
                rw = [x for x in sc if x not in self.ro]
                if rw:
                    self.emit_line(ind, "%s = %s" % (r.choice(rw), self.expr(sc)))
                    self.h("st:assign")
        return sc

    def pool_const(self):
        r = self.r
        return r.choice([r.choice(self.strs), r.choice(self.flts), str(r.choice([x for x in self.ints if abs(x) > 40000] or [70001])),
                         self.rand_str(), str(r.below(1 << 40) + 70000), r.choice(FLT_POOL)])

    def captured_constants(self, ind, sc):
        """locals that live in CELLS (captured by inner closures) and are initialised directly from a pooled
        constant, from a function expression, or are a recursive `local function`: the constant / closure
        load has a cell register as destination"""
        r = self.r
        sc = list(sc)
        cs = [self.fresh("c") for _ in range(1 + r.below(3))]
        for c in cs:
            self.emit_line(ind, "local %s = %s" % (c, self.pool_const()))
        g = self.fresh("g")
        shape = r.below(4)
        if shape == 0:
            # recursive local function: the closure itself is loaded into a cell
            self.emit_line(ind, "local function %s(k) if (tonumber(k) or 0) <= 0 then return %s end return %s(k - 1) end" % (g, ", ".join(cs), g))
            self.emit_line(ind, "reg(%s)" % g)
            self.emit_line(ind, "emit(%s(%d))" % (g, r.below(3)))
        elif shape == 1:
            # function expression stored in a captured local, then called through another closure
            u = self.fresh("u")
            self.emit_line(ind, "local %s = function(x) return x, %s end" % (g, ", ".join(cs)))
            self.emit_line(ind, "local %s = function(...) return %s(...) end" % (u, g))
            self.emit_line(ind, "reg(%s, %s)" % (g, u))
            self.emit_line(ind, "emit(%s(%s))" % (u, self.const()))
            sc.append(u)
        elif shape == 2:
            # captured and mutated: the constant initialises the cell, the closure overwrites it with another constant
            self.emit_line(ind, "local %s = function() local old = %s; %s = %s; return old end" % (g, cs[0], cs[0], self.pool_const()))
            self.emit_line(ind, "reg(%s)" % g)
            self.emit_line(ind, "emit(%s(), %s(), %s)" % (g, g, ", ".join(cs)))
        else:
            # two levels: the constants are captured through an intermediate function
            self.emit_line(ind, "local function %s() return function() return %s end end" % (g, ", ".join(cs)))
            self.emit_line(ind, "reg(%s)" % g)
            self.emit_line(ind, "emit(%s()())" % g)
        self.h("st:captured-constants:shape%d" % shape)
        return sc + cs + [g]

    def deep_error(self, ind, sc):
        """an error raised (or a runtime fault) inside a function nested at least two levels below the
        enclosing function, called under pcall: message, chunk name and line must survive dump/load"""
        r = self.r
        a, b, c = self.fresh("d"), self.fresh("d"), self.fresh("d")
        kind = r.below(5)
        fault = ['error(%s)' % r.choice(self.strs[:3] + ['"deep"']),
                 'error("lvl2", 2)',
                 'local z = nil + r',
                 'local z = (r)()',
                 'error(%s .. tostring(tonumber(r) or type(r)))' % r.choice(self.strs[:2] + ['"e:"'])][kind]
        depth3 = r.chance(1, 2)
        self.emit_line(ind, "local function %s(p)" % a)
        self.emit_line(ind + 1, "local function %s(q)" % b)
        if depth3:
            self.emit_line(ind + 2, "local function %s(r)" % c)
            self.emit_line(ind + 3, fault)
            self.emit_line(ind + 3, "return r")
            self.emit_line(ind + 2, "end")
            self.emit_line(ind + 2, "reg(%s)" % c)
            self.emit_line(ind + 2, "return %s(q)" % c)
        else:
            self.emit_line(ind + 2, "local r = q")
            self.emit_line(ind + 2, fault)
            self.emit_line(ind + 2, "return r")
        self.emit_line(ind + 1, "end")
        self.emit_line(ind + 1, "reg(%s)" % b)
        self.emit_line(ind + 1, "return %s(p)" % b)
        self.emit_line(ind, "end")
        self.emit_line(ind, "reg(%s)" % a)
        self.emit_line(ind, "emit(pcall(%s, %s))" % (a, self.expr(sc)))
        self.h("st:deep-error:depth%d:kind%d" % (3 if depth3 else 2, kind))

    def ret(self, ind, sc, vararg):
        r = self.r
        k = r.below(8)
        if k == 0 and vararg:
            self.emit_line(ind, "return %s, ..." % self.expr(sc))
        elif k == 1:
            v = r.choice(sc) if sc else "7"
            self.emit_line(ind, "return function(x, ...) return x, %s, %s end" % (v, self.expr(sc)))
            self.h("ret:closure")
        elif k == 2:
            pass
        else:
            self.emit_line(ind, "return %s" % ", ".join(self.expr(sc) for _ in range(1 + r.below(3))))

    def closed_function(self):
        r = self.r
        self.nfun += 1
        name = "F%d" % self.nfun
        ps = [self.fresh("a") for _ in range(r.below(4))]
        va = r.chance(1, 3)
        self.emit_line(0, "function %s(%s)" % (name, ", ".join(ps + (["..."] if va else []))))
        budget = [int(4 + 10 * self.size)]
        sc = self.block(1, ps, 0, va, budget)
        if r.chance(1, 3):
            sc = self.captured_constants(1, sc)
        if r.chance(1, 3):
            self.deep_error(1, sc)
        self.ret(1, sc, va)
        self.emit_line(0, "end")
        self.emit_line(0, "reg(%s)" % name)
        self.closed.append(name)
        self.h("fn:closed" + (":vararg" if va else "") + ":%dparams" % len(ps))

    def many_constants_function(self, n):
        r = self.r
        self.nfun += 1
        name = "F%d" % self.nfun
        ks = []
        for i in range(n):
            c = r.below(3)
            ks.append(str(100000 + 7 * i) if c == 0 else ("%d.25" % (i + 3)) if c == 1 else '"const-%d"' % i)
        order = list(range(n))
        for i in range(n - 1, 0, -1):
            j = r.below(i + 1)
            order[i], order[j] = order[j], order[i]
        self.emit_line(0, "function %s(a)" % name)
        self.emit_line(1, "local t = {}")
        for i in order:
            self.emit_line(1, "t[#t + 1] = %s" % ks[i])
        for i in order[: n // 3]:
            self.emit_line(1, "t[#t + 1] = %s" % ks[(i * 5) % n])
        self.emit_line(1, "if a then return t[tonumber(a) or 1] end")
        self.emit_line(1, "return #t, t[1], t[#t]")
        self.emit_line(0, "end")
        self.emit_line(0, "reg(%s)" % name)
        self.closed.append(name)
        # a second function using the same constants in another order
        self.nfun += 1
        name2 = "F%d" % self.nfun
        self.emit_line(0, "function %s(a)" % name2)
        self.emit_line(1, "local s = 0")
        for i in reversed(order[: n // 2]):
            self.emit_line(1, "emit(%s)" % ks[i]) if i % 17 == 0 else self.emit_line(1, "s = s + #tostring(%s)" % ks[i])
        self.emit_line(1, "return s")
        self.emit_line(0, "end")
        self.emit_line(0, "reg(%s)" % name2)
        self.closed.append(name2)
        self.h("fn:many-constants:%d" % n)

    def chunk(self):
        r = self.r
        # top-level locals: free variables of the non-closed functions
        tl = []
        for _ in range(r.below(3)):
            v = self.fresh("U")
            self.emit_line(0, "local %s = %s" % (v, self.const()))
            tl.append(v)
        nf = 1 + r.below(max(2, int(4 * self.size)))
        for i in range(nf):
            if r.chance(1, 12):
                self.many_constants_function(r.choice([40, 40, 300, 300, 700]))
            else:
                self.closed_function()
            if tl and r.chance(1, 3):
                ln = self.fresh("L")
                self.emit_line(0, "local function %s(x, y) %s = %s; return x, %s, %s end" % (ln, tl[0], self.expr(["x", "y"] + tl), r.choice(tl), self.const()))
                self.emit_line(0, "reg(%s)" % ln)
                self.h("fn:with-free-locals")
        self.emit_line(0, "FS = {%s}" % ", ".join(self.closed))
        return "\n".join(self.lines) + "\n"


ARG_TUPLES = [
    "", "1", "2, 3.5", '"str", 10', "nil, true", '-7, "x", 1.5, false', "1099511627776, 0.0", '"12", "0x10", 3',
    "{}, 1", "0/0, 1/0", '"", nil, nil', "3, 2, 1, 0, -1",
]


PRELUDE_REG = "REG = {}; reg = function(...) for _, f in ipairs({...}) do REG[#REG + 1] = f end end "   # same line 1 as PRELUDE

SEQ_DRIVER = """
-- dump histories: the strip argument as a dimension, dumps of related functions interleaved (some stripped and
-- thrown away), then the first dump of every function must still be what string.dump gives, and the upvalue names of
-- the function and of its reloaded image must be unchanged
local fs, seen = {}, {}
local function add(f) if type(f) == "function" and not seen[f] and #fs < 40 then seen[f] = true; fs[#fs + 1] = f end end
for _, f in ipairs(FS) do add(f) end
for _, f in ipairs(FS) do pcall(f, 1, 2) end
for _, f in ipairs(REG) do add(f) end
local function names(f)
  local t = {}
  for k = 1, 300 do local n = debug.getupvalue(f, k); if n == nil then break end; t[#t + 1] = tostring(n) end
  return table.concat(t, ",")
end
local d0, n0 = {}, {}
for i, f in ipairs(fs) do d0[i] = string.dump(f); n0[i] = names(f) end
for i, f in ipairs(fs) do
  emit("strip-arg", i, string.dump(f, true) == d0[i], string.dump(f, false) == d0[i], string.dump(f, nil) == d0[i],
       string.dump(f, "x") == d0[i], string.dump(f, 0) == d0[i], string.dump(f, {}) == d0[i], string.dump(f) == d0[i])
end
for round = 1, 2 do
  for j = #fs, 1, -1 do string.dump(fs[j], (j + round) % 2 == 0) end
  for i, f in ipairs(fs) do
    local g = load(d0[i], "x", "b")
    emit("stable", round, i, string.dump(f) == d0[i], names(f) == n0[i], g ~= nil and names(g) == n0[i],
         g ~= nil and string.dump(g) == d0[i], g ~= nil and string.dump(g, true) == d0[i], n0[i])
  end
end
emit("functions", #fs)
"""

PRELUDE = "reg = function() end "   # the lua engine has no reg(); same line 1 in both variants


def driver(variant, nargs):
    """Lua appended to a chunk: calls every closed function (directly, or its dump/load image) on
    the argument tuples; the results (and the results of calling returned functions) are emitted."""
    x = ("local function X(f) return f end" if variant == "direct"
         else 'local function X(f) return assert(load(string.dump(f), "reloaded", "b")) end')
    return x + """
local function show(i, j, ok, r1, ...)
  emit(i, j, ok, r1, ...)
  if type(r1) == "function" then emit("inner", pcall(r1, 10, "z", j)) end
  if type(r1) == "table" then emit("tbl", r1.code, r1.k, #r1) end
end
local ARGS = { %s }
for i = 1, #FS do
  local g = X(FS[i])
  for j = 1, #ARGS do
    show(i, j, pcall(g, table.unpack(ARGS[j], 1, ARGS[j].n)))
  end
end
""" % ", ".join("table.pack(%s)" % a for a in ARG_TUPLES[:nargs])


# ====================================================================== the check
import json
import struct
import time

from lib import vlib

PROP = ["Properties/C13.v"]
LIM = 1 << 26          # model: memory one allocation can get (>= 48 * stream length + 66048 for every stream used here)
SURE_FATAL = 1 << 36   # a make() above 64 GiB certainly kills the process (ulimit -v 4 GiB in the runner)
TRUSTED = [
    "Coq 8.16.1 kernel (coqc); vm_compute only in Example/refuted witnesses",
    "no axioms (Print Assumptions: closed under the global context for every C13 theorem)",
    "extraction: ExtrOcamlBasic only, no Extract Constant; positive/N/Z kept as Coq datatypes",
    "oracle/common/proto.ml + oracle/marshal/driver.ml (text protocol glue incl. the token parser for exported codes), OCaml 4.13.1",
    "Go harness harness/cmd/gvh-marshal/main.go, hx.RunLuaCase, hook runtime/verif_code.go (read-only export of *Code); Python generator/diff/decoder in lib/props/C13.py",
    "modelled not verified: encoding/binary little-endian Read/Write, bytes.Buffer.Read (short read without error), io.ReadFull error choice, "
    "Go's makeslice (panic above 2^48 bytes or negative, fatal out-of-memory above what the process can get: the model takes that amount as the parameter lim), "
    "the compiler that produced the code (the model starts from the exported *Code), the VM that runs it (behaviour is compared Go-vs-Go: f against load(string.dump(f)))",
]
THEOREMS_IM = ["C13_unmarshal_alloc_bounded", "C13_unmarshal_marshal", "C13_marshal_injective", "C13_unmarshal_total_no_panic", "C13_load_no_panic",
               "C13_refactor_preserves_lookup", "C13_refactor_idempotent", "C13_refactor_wf",
               "C13_dump_load_dump_stable", "C13_compiled_dump_is_fixed_point", "C13_marshal_charge",
               "C13_unmarshal_consumes_prefix", "C13_unmarshal_total_within_input", "C13_unmarshal_threshold_independent"]


def hx(b):
    return b.hex() if b else "-"


# ---------------------------------------------------------------- independent decoder of the dump format (S side)
class Short(Exception):
    pass


def dec_dump(b):
    """Decode string.dump output as the format is documented in marshal.go; returns (tree, length_field_offsets).
    tree: ('I',n) ('F',bits) ('S',bytes) ('C',src,name,ops,lines,consts,uc,rc,cc,upnames)"""
    if b[:3] != bytes([6, 0, 4]):
        raise Short("prefix")
    offs = []
    pos = [3]

    def rd(n):
        if pos[0] + n > len(b):
            raise Short("eof")
        s = b[pos[0]:pos[0] + n]
        pos[0] += n
        return s

    def i64(kind):
        offs.append((pos[0], kind))
        return struct.unpack("<q", rd(8))[0]

    def string():
        n = i64("strlen")
        if n < 0:
            raise Short("neg")
        return rd(n)

    def const():
        offs.append((pos[0], "type"))
        tp = rd(1)[0]
        if tp == 1:
            return ("I", struct.unpack("<q", rd(8))[0])
        if tp == 2:
            return ("F", struct.unpack("<Q", rd(8))[0])
        if tp == 4:
            return ("S", string())
        if tp == 5:
            src, nm = string(), string()
            n = i64("nops")
            if n < 0:
                raise Short("neg")
            ops = list(struct.unpack("<%dI" % n, rd(4 * n)))
            n = i64("nlines")
            if n < 0:
                raise Short("neg")
            lines = list(struct.unpack("<%di" % n, rd(4 * n)))
            n = i64("nconsts")
            if n < 0:
                raise Short("neg")
            ks = [const() for _ in range(n)]
            offs.append((pos[0], "counts"))
            uc, rc, cc = struct.unpack("<3h", rd(6))
            n = i64("nup")
            if n < 0:
                raise Short("neg")
            ups = [string() for _ in range(n)]
            return ("C", src, nm, ops, lines, ks, uc, rc, cc, ups)
        raise Short("type")

    t = const()
    if pos[0] != len(b):
        raise Short("trailing")
    return t, offs


def hz(n):
    return "-%x" % -n if n < 0 else "%x" % n


def tree_text(t):
    out = []

    def go(t):
        if t[0] == "I":
            out.append("I" + hz(t[1]))
        elif t[0] == "F":
            out.append("F%x" % t[1])
        elif t[0] == "S":
            out.append("S" + hx(t[1]))
        else:
            _, src, nm, ops, lines, ks, uc, rc, cc, ups = t
            out.extend(["C", hx(src), hx(nm), "%x" % len(ops)])
            out.extend("%x" % o for o in ops)
            out.append("%x" % len(lines))
            out.extend(hz(l) for l in lines)
            out.append("%x" % len(ks))
            for k in ks:
                go(k)
            out.extend([hz(uc), hz(rc), hz(cc), "%x" % len(ups)])
            out.extend(hx(u) for u in ups)
    go(t)
    return ",".join(out)


def parse_unit(s):
    """unit export -> list of entries ('I',..)/('F',..)/('S',..)/('C',src,name,ops,lines,None,uc,rc,cc,ups)/('X',)"""
    tk = s.split(",")
    assert tk[0] == "U"
    p = [1]

    def nx():
        p[0] += 1
        return tk[p[0] - 1]

    def num():
        t = nx()
        return -int(t[1:], 16) if t[0] == "-" else int(t, 16)

    def bs():
        t = nx()
        return b"" if t == "-" else bytes.fromhex(t)
    n = num()
    ents = []
    for _ in range(n):
        t = nx()
        if t[0] == "I":
            ents.append(("I", -int(t[2:], 16) if t[1] == "-" else int(t[1:], 16)))
        elif t[0] == "F":
            ents.append(("F", int(t[1:], 16)))
        elif t[0] == "S":
            ents.append(("S", b"" if t[1:] == "-" else bytes.fromhex(t[1:])))
        elif t[0] == "C":
            src, nm = bs(), bs()
            ops = [num() for _ in range(num())]
            lines = [num() for _ in range(num())]
            uc, rc, cc = num(), num(), num()
            ups = [bs() for _ in range(num())]
            ents.append(("C", src, nm, ops, lines, None, uc, rc, cc, ups))
        else:
            ents.append(("X",))
    return ents


def loads_k(op):
    return (op >> 28) == 6 and ((op >> 24) & 3) in (1, 2)


def is_closure_k(op):
    return (op >> 28) == 6 and ((op >> 24) & 3) == 2


def spec_check(unit, idx, tree, depth=0):
    """Property-level predicates on the Go output, independent of the Coq model: the reloaded
    code `tree` against the compiled code unit[idx].  Returns list of failure strings."""
    fails = []
    u = unit[idx]
    if u[0] != "C" or tree[0] != "C":
        return ["not a code"]
    for nm, a, b in (("source", u[1], tree[1]), ("name", u[2], tree[2]), ("lines", u[4], tree[4]), ("upvalue count", u[6], tree[6]),
                     ("register count", u[7], tree[7]), ("cell count", u[8], tree[8]), ("upvalue names", u[9], tree[9])):
        if a != b:
            fails.append("%s differs after dump/load (%r vs %r)" % (nm, a if nm != "lines" else "..", b if nm != "lines" else ".."))
    uo, to, ks = u[3], tree[3], tree[5]
    if len(uo) != len(to):
        return fails + ["number of opcodes differs"]
    nxt = 0
    for i, (a, b) in enumerate(zip(uo, to)):
        if not loads_k(a):
            if a != b:
                fails.append("opcode %d changed (%08x -> %08x)" % (i, a, b))
            continue
        if (a >> 16) != (b >> 16):
            fails.append("opcode %d: non-index bits changed" % i)
            continue
        n, m = a & 0xFFFF, b & 0xFFFF
        if m > nxt or m >= len(ks):
            fails.append("opcode %d: constant index %d not in first-use order (next fresh index %d, %d constants)" % (i, m, nxt, len(ks)))
            continue
        if m == nxt:
            nxt += 1
        if n >= len(unit):
            fails.append("opcode %d: original constant index out of range" % i)
            continue
        src_k, dst_k = unit[n], ks[m]
        if is_closure_k(a):
            if src_k[0] != "C" or dst_k[0] != "C":
                fails.append("opcode %d: closure constant is not a code" % i)
            elif depth < 400:
                fails += ["in nested function %r: %s" % (dst_k[2], f) for f in spec_check(unit, n, dst_k, depth + 1)][:3]
        elif src_k[0] == "C" or src_k != dst_k:
            fails.append("opcode %d loads constant %r before the dump and %r after load" % (i, src_k[:2], dst_k[:2]))
    if nxt != len(ks):
        fails.append("%d constants in the reloaded code but only %d are used" % (len(ks), nxt))
    return fails


# ---------------------------------------------------------------- stages

# ====================================================================== size strata
# The round-trip property quantifies over ALL functions, so besides the random small chunks every run
# contains one compiled function per size stratum and synthetic valid dumps at sizes on both sides of
# every integer constant declared in runtime/marshal.go (read from the source that is being built, so a
# changed or added threshold moves / adds test points).
import re as _re
import sys as _sys
_sys.setrecursionlimit(20000)


def source_thresholds():
    """integer constants declared in runtime/marshal.go (the overlaid file when VERIF_OVERLAY is set)"""
    path = vlib.os.path.join(vlib.REPO, "runtime", "marshal.go")
    ov = vlib.os.environ.get("VERIF_OVERLAY")
    if ov and vlib.os.path.exists(ov):
        try:
            path = json.load(open(ov)).get("Replace", {}).get(path, path)
        except Exception:
            pass
    out = {}
    try:
        src = open(path).read()
    except OSError:
        return out
    src = _re.sub(r"//.*", "", src)
    for m in _re.finditer(r"(?m)^\s*(?:const\s+)?([A-Za-z_]\w*)\s*(?:u?int\d*\s*)?=\s*([0-9xXa-fA-F_ <>+*()\-]+)\s*$", src):
        inside_const = src.rfind("const", 0, m.start()) > max(src.rfind("\n)", 0, m.start()), src.rfind("func ", 0, m.start()))
        if not (m.group(0).lstrip().startswith("const") or inside_const):
            continue
        try:
            v = eval(m.group(2).replace("_", ""), {"__builtins__": {}}, {})
        except Exception:
            continue
        if isinstance(v, int) and 2 <= v <= 1 << 40:
            out[m.group(1)] = v
    return out


def around(t):
    return [x for x in (t - 1, t, t + 1) if x >= 0]


def enc_dump(t):
    """encoder of the documented dump format (inverse of dec_dump), for synthetic valid dumps"""
    out = bytearray([6, 0, 4])

    def s8(b):
        out.extend(struct.pack("<q", len(b)))
        out.extend(b)

    def go(t):
        if t[0] == "I":
            out.append(1)
            out.extend(struct.pack("<q", t[1]))
        elif t[0] == "F":
            out.append(2)
            out.extend(struct.pack("<Q", t[1]))
        elif t[0] == "S":
            out.append(4)
            s8(t[1])
        else:
            _, src, nm, ops, lines, ks, uc, rc, cc, ups = t
            out.append(5)
            s8(src)
            s8(nm)
            out.extend(struct.pack("<q", len(ops)))
            out.extend(struct.pack("<%dI" % len(ops), *ops))
            out.extend(struct.pack("<q", len(lines)))
            out.extend(struct.pack("<%di" % len(lines), *lines))
            out.extend(struct.pack("<q", len(ks)))
            for k in ks:
                go(k)
            out.extend(struct.pack("<3hq", uc, rc, cc, len(ups)))
            for u in ups:
                s8(u)
    go(t)
    return bytes(out)


def leaf(i=0, nops=2):
    return ("C", b"s", b"f%d" % i, [0x48000000 + (j & 0xFF) for j in range(nops)], [1] * nops, [], 0, 1, 0, [])


def synthetic_strata(thresholds, quick):
    """(description, dump bytes) of valid dumps built by hand: sizes around every threshold and the fixed strata"""
    out = []
    sizes = set()
    for t in thresholds.values():
        sizes.update(around(t))          # bytes of a string / items of an array
        sizes.update(around(t // 4))     # items of 4-byte arrays whose byte size is around t
    for n in sorted(sizes):
        if n <= 300000:
            out.append(("string-bytes=%d" % n, enc_dump(("C", b"s", b"m", [0], [1], [("S", bytes((i * 7 + 3) & 0xFF for i in range(n)))], 0, 1, 0, []))))
        if n <= 140000:
            ops = [(0x48000000 + i) & 0xFFFFFFFF for i in range(n)]
            out.append(("code-items=%d" % n, enc_dump(("C", b"s", b"m", ops, [1], [], 0, 1, 0, []))))
            out.append(("line-items=%d" % n, enc_dump(("C", b"s", b"m", [0], [(i % 1000) - 3 for i in range(n)], [], 0, 1, 0, []))))
    counts = set([1, 10, 199, 200, 201, 1000])
    depths = set([1, 2, 10, 30, 59, 60, 61])
    for t in thresholds.values():
        if t <= 5000:
            counts.update(around(t))
        if t <= 1500:
            depths.update(around(t))
    for n in sorted(counts):
        if n >= 1:
            out.append(("sibling-functions=%d" % n, enc_dump(("C", b"s", b"m", [0], [1], [leaf(i) for i in range(n)], 0, 1, 0, []))))
            out.append(("upvalue-names=%d" % n, enc_dump(("C", b"s", b"m", [0], [1], [], 0, 1, 0, [b"u%d" % i for i in range(n)]))))
            out.append(("scalar-constants=%d" % n, enc_dump(("C", b"s", b"m", [0], [1], [("I", i * 1000003) if i % 2 else ("F", i) for i in range(n)], 0, 1, 0, []))))
    for d in sorted(depths):
        t = leaf(0)
        for lvl in range(d):
            t = ("C", b"s", b"d%d" % lvl, [0], [1], [t, ("I", lvl)], 0, 1, 0, [])
        out.append(("nesting-depth=%d" % d, enc_dump(t)))
    # siblings at several levels: 3 levels of 12 functions each (1884 function constants in total)
    t = leaf(0)
    for lvl in range(3 if quick else 4):
        t = ("C", b"s", b"w%d" % lvl, [0], [1], [t] * 12, 0, 1, 0, [])
    out.append(("function-tree-12^%d" % (3 if quick else 4), enc_dump(t)))
    return out


def strata_chunks(thresholds, quick=False):
    """(stratum, Lua chunk) compiled functions, one per size stratum; every chunk leaves closed functions in FS"""
    out = []
    t = thresholds.get("maxEagerRead", 1 << 16)
    # 3 opcodes per 'x = x + k' statement (measured; the histogram in evidence shows what was reached)
    for name, nstat in ([("opcodes-above-%d-bytes" % t, t // 4 // 3 + 400)] if quick else
                        [("opcodes-below-%d-bytes" % t, max(10, t // 4 // 3 - 300)), ("opcodes-above-%d-bytes" % t, t // 4 // 3 + 400),
                         ("opcodes-near-compiler-limit", 10500)]):
        body = ["function F1(a)", "  local x = tonumber(a) or 0"]
        body += ["  x = x + %d" % (i % 90 + 1) for i in range(nstat)]
        body += ["  if x > 1e9 then error('big') end", "  return x", "end", "reg(F1)", "FS = {F1}", ""]
        out.append((name, "\n".join(body)))
    # string constants around the threshold, in one function; and a constant table of more than t bytes in total
    lits = ['"%s"' % ("abcdefghij" * (n // 10 + 1))[:n] for n in around(t)]
    out.append(("string-constants-around-%d" % t,
                "function F1(a)\n  local p, q, r = %s\n  return #p, #q, #r, p:sub(-3), (tonumber(a) or 0) + #q\nend\nreg(F1)\nFS = {F1}\n" % ",\n    ".join(lits)))
    many = ["  t[#t + 1] = \"%s-%04d\"" % ("k" * 236, i) for i in range(t // 240 + 40)]
    out.append(("constant-table-above-%d-bytes" % t, "function F1(a)\n  local t = {}\n" + "\n".join(many) +
                "\n  return #t, t[tonumber(a) or 1], t[#t]\nend\nreg(F1)\nFS = {F1}\n"))
    # number of function constants (siblings) in one function
    for k in ((10, 201, 1000) if quick else (1, 10, 199, 200, 201, 1000)):
        body = ["function F1(i, x)", "  local M = {}"]
        body += ["  function M.f%d(y) return (tonumber(y) or 0) + %d end" % (j, j) for j in range(1, k + 1)]
        body += ["  local f = M['f' .. tostring(math.tointeger(tonumber(i) or 1) or 1)] or M.f1", "  return f(x), f(%d)" % k, "end", "reg(F1)", "FS = {F1}", ""]
        out.append(("sibling-functions-%d" % k, "\n".join(body)))
    # nesting depth
    for d in ((10, 60) if quick else (1, 10, 30, 60)):
        src = "return x + %d, (...)" % d
        for lvl in range(d):
            src = "return (function(...) local v%d = %d; %s end)(v%d, ...)" % (lvl, lvl, src, lvl) if lvl else "return (function(...) local v0 = 0; %s end)(...)" % src
        out.append(("nesting-depth-%d" % d, "function F1(x, ...)\n  x = tonumber(x) or 0\n  %s\nend\nreg(F1)\nFS = {F1}\n" % src))
    # closures created in loops (fresh upvalue per iteration), kept and called after the loop
    out.append(("closures-in-loops", """function F1(n, k)
  n = math.min(tonumber(n) or 3, 20)
  local fs = {}
  for i = 1, n do
    local c = i * 1000003
    fs[#fs + 1] = function(y) c = c + 1; return i, c, y end
    for j = 1, 2 do
      fs[#fs + 1] = function() return i * 10 + j, "loop-constant-string" end
    end
  end
  local w = 0
  while w < 3 do
    w = w + 1
    local captured = w * 2.5
    fs[#fs + 1] = function() captured = captured + 0.25; return captured end
  end
  local out = {}
  for _, f in ipairs(fs) do out[#out + 1] = select(2, f(k)) or 0 end
  emit(#fs, out[1], out[2], out[#out])
  return fs[1](k)
end
reg(F1)
FS = {F1}
"""))
    return out


def parse_chunk_line(line):
    f = line.split(" ")
    if len(f) < 2 or f[1] != "ok":
        return None
    unit = f[2][2:]
    parts = []
    for p in " ".join(f[3:]).split("|"):
        idx, d1, tree, d2, nup, env = p[2:].split(";")
        parts.append({"idx": -int(idx[1:], 16) if idx[0] == "-" else int(idx, 16), "d1": d1, "tree": tree, "d2": d2, "nup": int(nup, 16),
                      "env": -int(env[1:], 16) if env[0] == "-" else int(env, 16)})
    return unit, parts


def lua_result_key(line):
    """outcome of a lua-engine line: status, trace, results, error, output (not the id, context usage, allocation, wall time)"""
    f = line.split(" ")
    return " ".join(f[1:2] + [x for x in f[2:] if x[:2] in ("T:", "R:", "E:", "O:")])


def mutations(rng, d, offs, nrand):
    """(kind, bytes) malformed variants of the valid dump d"""
    out = [("valid", d)]
    n = len(d)
    cut_points = set([0, 1, 2, 3, 4, n - 1, n - 2] + [o for o, _ in offs] + [o + 8 for o, k in offs if k != "type" and k != "counts"] + [o + 3 for o, _ in offs])
    for c in sorted(cut_points):
        if 0 <= c < n:
            out.append(("trunc", d[:c]))
    for _ in range(nrand):
        c = rng.below(n)
        out.append(("trunc", d[:c]))
    for _ in range(nrand):
        p = rng.below(n)
        b = bytearray(d)
        b[p] ^= 1 << rng.below(8)
        out.append(("flip", bytes(b)))
    lens = [o for o, k in offs if k in ("strlen", "nops", "nlines", "nconsts", "nup")]
    specials = [-1, -(1 << 63), (1 << 63) - 1, 1 << 40, 1 << 46, (1 << 46) + 1, 1 << 31, 1 << 62, 1 << 20, (1 << 18) + 1, 44000, 70000, 0, 1, 2, 3]
    for o in lens:
        if rng.chance(1, 2) or len(lens) < 12:
            v = rng.choice(specials)
            b = bytearray(d)
            b[o:o + 8] = struct.pack("<q", v)
            out.append(("len=%s" % ("2^%d" % (v.bit_length() - 1) if v > 1 << 16 and v & (v - 1) == 0 else str(v)), bytes(b)))
            b = bytearray(d)
            b[o + rng.below(8)] ^= 1 << rng.below(8)
            out.append(("lenflip", bytes(b)))
    for o, k in offs:
        if k == "type" and rng.chance(1, 3):
            b = bytearray(d)
            b[o] = rng.choice([0, 3, 6, 7, 255, 1, 2, 4, 5])
            out.append(("type", bytes(b)))
    return out


LOAD_MSG = {"eof": b"EOF", "ueof": b"unexpected EOF", "type": b"Invalid value type", "prefix": b"Invalid marshal prefix",
            "len": b"Invalid length", "code": b"Invalid code"}


def predict_load(data, model_line):
    """what load(data, name, "b") must emit, from the model's verdict (load_binary) on the same bytes"""
    fn = "s" + b"function".hex() + ",n"
    if data[:3] != bytes([6, 0, 4]):
        return "s" + b"nil".hex() + ",s" + b"attempt to load a text chunk".hex()
    f = model_line.split(" ")
    if f[1] == "fun":
        return fn
    if f[1] == "notfun":
        return "s" + b"nil".hex() + ",s" + b"Expected function to load".hex()
    if f[1] == "err":
        return "s" + b"nil".hex() + ",s" + LOAD_MSG[f[2]].hex()
    return None


def run_oracle(oracle, lines):
    """the extracted model recurses as deep as its lists are long: lift the stack limit"""
    return vlib.run_lines("sh", ["-c", 'ulimit -s unlimited 2>/dev/null || ulimit -s 1000000; exec "$0"', oracle], lines, timeout=3000)


def run_batches(binary, args, lines, batch=100, max_crashes=6):
    """resilient run in batches; once max_crashes children have died the rest is not executed
    (each death costs a process and possibly gigabytes): '<id> SKIPPED'"""
    out, crashes = [], 0
    for i in range(0, len(lines), batch):
        if crashes >= max_crashes:
            out += [l.split(" ", 1)[0] + " SKIPPED" for l in lines[i:]]
            break
        res = vlib.run_lines_resilient(binary, args, lines[i:i + batch], per_case_timeout=60)
        crashes += sum(1 for r in res if r.split(" ")[1:2] in (["CRASH"], ["HANG"]))
        out += res
    return out


def run(tier, seed):
    ck = vlib.Check("C13", tier, seed, level="proof")
    ok_obl = ck.obligations(PROP, clean=False)
    gvh, err = ck.build_gvh(pkg="./cmd/gvh-marshal", name="gvh_marshal")   # honours VERIF_OVERLAY (mutation experiments)
    if gvh is None:
        ck.violation("harness does not build against /repo", {"kind": "build", "stderr": err[-3000:]}, no_input=True)
        return ck.finish("n/a", TRUSTED, [])
    oracle = ck.build_oracle("marshal")
    if oracle is None:
        ck.violation("oracle (extracted model) does not build", {"kind": "build"}, no_input=True)
        return ck.finish("n/a", TRUSTED, [])
    quick = tier == "quick"
    rng = ck.rng
    s_fail = 0     # Go != S (property-level) failures
    im_diffs = []  # Go != IM differences

    # ------------------------------------------------ stage A: chunks, structural
    hist = {}
    chunks = []
    corpus = vlib.os.path.join(vlib.VERIF, "corpus", "C13")
    if vlib.os.path.isdir(corpus):
        for fn in sorted(vlib.os.listdir(corpus)):
            if fn.endswith(".lua"):
                chunks.append(open(vlib.os.path.join(corpus, fn)).read())
    ncorpus = len(chunks)
    thresholds = source_thresholds()
    ck.cov["source_thresholds"] = thresholds
    strata_of = {}
    for name, src in strata_chunks(thresholds, quick):
        strata_of[len(chunks)] = name
        chunks.append(src)
    nstrata = len(strata_of)
    nchunks = 100 if quick else 1200
    for i in range(nchunks):
        g = ChunkGen(rng.fork(), size=(0.5 if i % 3 == 0 else 1.0 if i % 3 == 1 else 2.0), hist=hist)
        chunks.append(g.chunk())
    lines = ["c%d chunk %s" % (i, src.encode().hex()) for i, src in enumerate(chunks)]
    rc, impl, e1 = vlib.run_lines(gvh, ["marshal"], lines, timeout=3000)
    ck.log("stage A: Go side done")
    if rc != 0 or len(impl) != len(lines):
        ck.violation("gvh-marshal crashed or produced %d/%d lines" % (len(impl), len(lines)),
                     {"kind": "crash", "stderr": e1[-2000:], "chunk": chunks[min(len(impl), len(chunks) - 1)]})
        s_fail += 1
    olines, ometa = [], []
    closures = []   # (chunk index, part)
    good_chunks = []
    for i, l in enumerate(impl):
        pc = parse_chunk_line(l)
        if pc is None:
            f = l.split(" ")
            stage = f[2] if len(f) > 2 else "?"
            msg = bytes.fromhex(f[3]).decode("utf-8", "replace") if len(f) > 3 and f[3] != "-" else ""
            ck.count("chunk:fail:" + stage)
            if stage in ("dump", "load", "dump2", "gopanic", "unit"):
                s_fail += 1
                if s_fail <= 3:
                    ck.violation("string.dump / load failed on a compiled function: %s: %s" % (stage, msg[:200]),
                                 {"kind": "Go!=S", "engine": "marshal", "chunk": chunks[i], "impl": l[:2000]})
            elif stage == "compile":
                ck.notes.append("generated chunk did not compile: " + msg[:200])
            continue
        ck.count("chunk:ok")
        good_chunks.append(i)
        unit, parts = pc
        olines.append("U%d unit %s" % (i, unit))
        for j, p in enumerate(parts):
            if i in strata_of and j != 1:
                continue          # a stratum chunk is only a wrapper around its function F1
            cid = "%d.%d" % (i, j)
            closures.append((i, j, unit, p))
            olines.append("u%s dumpu %s" % (cid, hz(p["idx"])))
            olines.append("t%s dumpt %s" % (cid, p["tree"]))
            olines.append("m%s unm %x 0 %s" % (cid, LIM, p["d1"]))
    rc2, model, e2 = run_oracle(oracle, olines)
    ck.log("stage A: model side done (%d lines, %d MB)" % (len(olines), sum(len(x) for x in olines) >> 20))
    if rc2 != 0 or len(model) != len(olines) + 0:
        ck.violation("oracle crashed (%d/%d lines)" % (len(model), len(olines)), {"kind": "oracle-crash", "stderr": e2[-2000:]}, no_input=True)
    unit_cache = {}
    dumps = []
    model = [l for l in model if not (l.startswith("U") and l.endswith(" ok"))]
    for n, (i, j, unit, p) in enumerate(closures):
        if 3 * n + 2 >= len(model):
            break
        d1 = bytes.fromhex(p["d1"]) if p["d1"] != "-" else b""
        nontriv = True
        ck.case(p["d1"], nontriv)
        ck.count("closure:upvalues:%d" % min(p["nup"], 4))
        ck.count("closure:dump-bytes:<2^%d" % max(6, len(d1).bit_length()))
        fails = []
        # S-level, on Go output only
        if p["d2"] != p["d1"]:
            fails.append("dump(load(dump f)) differs from dump f")
        try:
            tree, offs = dec_dump(d1)
            if p["nup"] != tree[6]:
                fails.append("load() built a closure with %d upvalue cells for a code with UpvalueCount %d" % (p["nup"], tree[6]))
            if p["nup"] > 0 and p["env"] != 0:
                fails.append("the first upvalue of the reloaded closure is not the global environment (_ENV found at cell %d)" % p["env"])
            if tree_text(tree) != p["tree"]:
                fails.append("the code load() built differs from the independent decoding of the dump")
            if i not in unit_cache:
                unit_cache = {i: parse_unit(unit)}
            if p["idx"] < 0:
                fails.append("closure's code is not part of its unit")
            else:
                fails += spec_check(unit_cache[i], p["idx"], tree)
            def _shape(t):
                subs = [_shape(k) for k in t[5] if k[0] == "C"]
                nf = 1 + sum(x[0] for x in subs)
                dp = 1 + max([x[1] for x in subs] or [0])
                mo = max([len(t[3])] + [x[2] for x in subs])
                mc = max([len(k[1]) for k in t[5] if k[0] == "S"] + [x[3] for x in subs] + [0])
                return nf, dp, mo, mc
            nfun, ndep, maxops, maxstr = _shape(tree)
            nops = len(tree[3])
            bucket = lambda v, bs: next(("<=%d" % b for b in bs if v <= b), ">%d" % bs[-1])
            ck.count("size:opcodes-of-function:" + bucket(nops, [16, 128, 1024, 4096, 16383, 16384, 32767]))
            ck.count("size:code-bytes-vs-maxEagerRead:" + ("above" if 4 * nops > thresholds.get("maxEagerRead", 1 << 16) else "at-or-below"))
            ck.count("size:functions-in-dump:" + bucket(nfun, [1, 2, 5, 11, 50, 199, 200, 201, 202, 1001]))
            ck.count("size:nesting-depth-of-dump:" + bucket(ndep, [1, 2, 3, 5, 11, 31, 61]))
            ck.count("size:longest-string-constant:" + bucket(maxstr, [0, 16, 256, 4096, 65535, 65536, 65537]))
            ck.count("size:constants-bytes-of-function:" + bucket(sum(len(k[1]) for k in tree[5] if k[0] == "S") + 9 * len(tree[5]), [256, 4096, 65536]))
            mx = ck.cov.setdefault("size_maxima", {"opcodes": 0, "functions_in_one_dump": 0, "nesting_depth": 0, "string_constant_bytes": 0, "dump_bytes": 0, "constants_of_one_function": 0})
            mx["opcodes"] = max(mx["opcodes"], nops)
            mx["functions_in_one_dump"] = max(mx["functions_in_one_dump"], nfun)
            mx["nesting_depth"] = max(mx["nesting_depth"], ndep)
            mx["string_constant_bytes"] = max(mx["string_constant_bytes"], maxstr)
            mx["dump_bytes"] = max(mx["dump_bytes"], len(d1))
            mx["constants_of_one_function"] = max(mx["constants_of_one_function"], len(tree[5]))
            if i in strata_of and j == 1:
                ck.count("stratum:" + strata_of[i])
                ck.cov.setdefault("strata", {})[strata_of[i]] = {"opcodes": nops, "functions": nfun, "depth": ndep, "longest_string": maxstr, "dump_bytes": len(d1)}
            nk = len(tree[5])
            ck.count("closure:consts:%s" % ("0" if nk == 0 else "1-9" if nk < 10 else "10-99" if nk < 100 else "100+"))
            nest = sum(1 for k in tree[5] if k[0] == "C")
            ck.count("closure:nested-codes:%s" % ("0" if nest == 0 else "1-2" if nest < 3 else "3+"))
            for k in tree[5]:
                ck.count("const:" + {"I": "int", "F": "float", "S": "string", "C": "code"}[k[0]])
                if k[0] == "F" and (k[1] >> 52) & 0x7FF in (0, 0x7FF):
                    ck.count("const:float-special-or-denormal")
                if k[0] == "S" and b"\0" in k[1]:
                    ck.count("const:string-with-NUL")
            ncell = sum(1 for o in tree[3] if loads_k(o) and (o >> 26) & 1)
            if ncell:
                ck.count("closure:with-K-load-into-cell-register")
                ck.count("ops:K-load-into-cell-register", ncell)
                ck.count("ops:closure-load-into-cell-register", sum(1 for o in tree[3] if is_closure_k(o) and (o >> 26) & 1))
            u = unit_cache[i][p["idx"]] if p["idx"] >= 0 else None
            if u and any(loads_k(a) and (a & 0xFFFF) != (b & 0xFFFF) for a, b in zip(u[3], tree[3])):
                ck.count("closure:renumbered")
            dumps.append((d1, offs))
        except Short as ex:
            fails.append("string.dump output is not a well-formed dump (%s)" % ex)
        except Exception as ex:   # decoder trouble is a finding about the bytes, not a crash of the check
            fails.append("string.dump output could not be decoded (%r)" % ex)
        if fails:
            s_fail += 1
            if s_fail <= 3:
                ck.violation("string.dump/load round trip broken: " + fails[0],
                             {"kind": "Go!=S", "engine": "marshal", "chunk": chunks[i], "closure": j, "failed_predicates": fails[:10],
                              "dump": p["d1"][:4000], "theorems": ["C13_dump_load_dump_stable", "C13_refactor_preserves_lookup"]})
        # IM-level
        mu, mt, mm = model[3 * n].split(" "), model[3 * n + 1].split(" "), model[3 * n + 2].split(" ")
        if mm[-1].startswith("A"):
            mm.pop()
        d = None
        if mu[1] != "ok" or mu[2] != p["d1"]:
            d = "bytes of string.dump differ from marshal(refactor_unit(export f))"
        elif mu[3] != p["tree"]:
            d = "export(load(dump f)) differs from refactor_unit(export f)"
        elif mt[1] != "ok" or mt[2] != p["d2"] or mt[3] != p["tree"]:
            d = "dump of the reloaded function differs from marshal(refactor(export(load ..)))"
        elif mm[1] != "val" or mm[2] != p["tree"] or mm[4] != p["d1"]:
            d = "model unmarshal of the dump differs from the code Go loaded"
        if d:
            im_diffs.append((d, i, j, (model[3 * n] + " / " + model[3 * n + 1])[:600]))
    ck.log("stage A: %d chunks (%d ok), %d closures, S failures %d, IM differences %d" % (len(chunks), len(good_chunks), len(closures), s_fail, len(im_diffs)))
    st = ck.cov.get("strata", {})
    t_eager = thresholds.get("maxEagerRead", 1 << 16)
    missing = [n for n in strata_of.values() if n not in st]
    if not any(4 * v["opcodes"] > t_eager for v in st.values()) or not any(v["functions"] >= 1001 for v in st.values()) or \
            not any(v["depth"] >= 60 for v in st.values()) or not any(v["longest_string"] > t_eager for v in st.values()):
        missing.append("a size stratum is not reached (opcodes above the eager-read threshold / 1000 sibling functions / depth 60 / string above the threshold)")
    if missing and s_fail == 0:
        ck.violation("size strata of the generator not reached: " + "; ".join(missing)[:300], {"kind": "generator", "strata": st, "missing": missing}, no_input=True)
    for k, v in hist.items():
        ck.count("gen:" + k, v)
    if closures:
        i, j, unit, p = closures[len(closures) // 2]
        ck.sample({"chunk": chunks[i][:1500], "closure": j, "dump": p["d1"][:300], "reloaded_code": p["tree"][:300]})

    # ------------------------------------------------ stage B: behaviour of f vs load(string.dump(f))
    nb = min(len(good_chunks), 100 if quick else 1000)
    blines = []
    for n, i in enumerate(good_chunks[:nb]):
        lim = " cpu=20000000 mem=400000000" if n % 3 == 0 else ""
        nargs = 6 if quick else len(ARG_TUPLES)
        blines.append("d%d %s%s" % (i, (PRELUDE + chunks[i] + driver("direct", nargs)).encode().hex(), lim))
        blines.append("r%d %s%s" % (i, (PRELUDE + chunks[i] + driver("reload", nargs)).encode().hex(), lim))
    bout = vlib.run_lines_resilient(gvh, ["lua"], blines, per_case_timeout=60)
    beh_diff = 0
    for n in range(0, len(bout) - 1, 2):
        a, b = bout[n], bout[n + 1]
        i = good_chunks[n // 2]
        ka, kb = lua_result_key(a), lua_result_key(b)
        st = a.split(" ")[1] if " " in a else "?"
        ck.count("behaviour:status:" + st)
        tr = [x for x in a.split(" ") if x.startswith("T:")]
        nev = tr[0].count(";") + 1 if tr and tr[0] != "T:-" else 0
        ck.count("behaviour:calls-with-error", tr[0].count(",b0,") if tr else 0)
        ck.count("behaviour:events", nev)
        ck.count("behaviour:error-values-naming-the-chunk", tr[0].count("s" + b"chunk:".hex()) if tr else 0)
        ck.case("beh:" + chunks[i], nev > 0)
        if ka != kb:
            beh_diff += 1
            s_fail += 1
            if beh_diff <= 3:
                ta, tb = (tr[0].split(";") if tr else []), ([x for x in b.split(" ") if x.startswith("T:")] or ["T:-"])[0].split(";")
                k = next((q for q in range(min(len(ta), len(tb))) if ta[q] != tb[q]), min(len(ta), len(tb)))
                ck.violation("load(string.dump(f)) behaves differently from f (event %d differs)" % k,
                             {"kind": "Go!=S", "engine": "lua", "chunk": chunks[i], "driver_direct": driver("direct", 6), "driver_reload": driver("reload", 6),
                              "first_differing_event": {"direct": ta[k] if k < len(ta) else None, "reload": tb[k] if k < len(tb) else None},
                              "direct": a[:1500], "reload": b[:1500]})
    ck.log("stage B: %d chunks run twice, behaviour differences %d" % (len(bout) // 2, beh_diff))
    nok = ck.cov["distribution"].get("behaviour:status:ok", 0)
    if bout and nok * 2 < len(bout) // 2:
        ck.violation("behaviour stage is vacuous: only %d of %d driver runs completed" % (nok, len(bout) // 2),
                     {"kind": "generator", "sample": bout[0][:600]}, no_input=True)
    if bout:
        ck.sample({"behaviour_direct": bout[0][:600]})

    # ------------------------------------------------ stage B2: dump histories (strip argument, interleaved dumps)
    nseq = min(len(good_chunks), 60 if quick else 600)
    slines = ["q%d %s" % (i, (PRELUDE_REG + chunks[i] + SEQ_DRIVER).encode().hex()) for i in good_chunks[:nseq]]
    sout = vlib.run_lines_resilient(gvh, ["lua"], slines, per_case_timeout=120)
    LABELS = {"strip-arg": ["string.dump(f, true) differs from string.dump(f) (strip is documented as ignored)", "string.dump(f, false) differs from string.dump(f)",
                            "string.dump(f, nil) differs", "string.dump(f, 'x') differs", "string.dump(f, 0) differs", "string.dump(f, {}) differs",
                            "two successive string.dump(f) differ"],
              "stable": ["string.dump(f) changed after dumps of related functions (dumping is not deterministic)",
                         "debug.getupvalue names of f changed after dumps of related functions",
                         "upvalue names of load(string.dump(f)) differ from those of f",
                         "string.dump(load(d)) differs from the first dump d of f", "string.dump(load(d), true) differs from d"]}
    seq_fail = 0
    for n, o in enumerate(sout):
        i = good_chunks[n]
        f = o.split(" ")
        ck.case("seq:" + chunks[i], True)
        ck.count("sequences:status:" + (f[1] if len(f) > 1 else "?"))
        tr = ([x for x in f if x.startswith("T:")] or ["T:-"])[0][2:]
        bad = None
        if len(f) < 2 or f[1] != "ok":
            bad = "the dump-history driver did not complete: " + (f[1] if len(f) > 1 else "?")
        else:
            for ev in tr.split(";"):
                v = ev.split(",")
                tag = bytes.fromhex(v[0][1:]).decode("latin-1") if v and v[0].startswith("s") and v[0] != "s-" else ""
                if tag in LABELS:
                    ck.count("sequences:" + tag + "-events")
                    flags = [x for x in v[1:] if x in ("b0", "b1")]
                    for k, x in enumerate(flags):
                        if x == "b0" and bad is None:
                            bad = LABELS[tag][k] if k < len(LABELS[tag]) else tag + " predicate %d" % k
                            ck.count("sequences:failed:" + tag + ":%d" % k)
                elif tag == "functions":
                    ck.count("sequences:functions-dumped", int(v[1][1:]) if len(v) > 1 and v[1].startswith("i") else 0)
        if bad:
            seq_fail += 1
            s_fail += 1
            if seq_fail <= 3:
                ck.violation("dump history: " + bad, {"kind": "Go!=S", "engine": "lua", "chunk": chunks[i], "driver_sequence": SEQ_DRIVER, "impl": o[:1500],
                                                       "theorems": ["C13_dump_deterministic_injective", "C13_dump_load_dump_stable"]})
    ck.log("stage B2: %d dump histories, failures %d" % (len(sout), seq_fail))

    # ------------------------------------------------ stage C: malformed streams
    dumps.sort(key=lambda x: len(x[0]))
    picks = []
    if dumps:
        small = [d for d in dumps if len(d[0]) <= 700]
        npick = 12 if quick else 200
        for _ in range(npick):
            picks.append(rng.choice(small if small and rng.chance(4, 5) else dumps[: max(1, len(dumps) * 9 // 10)]))
    muts = []
    seen = set()
    for d, offs in picks:
        for kind, m in mutations(rng, d, offs, 6 if quick else 20):
            if m not in seen and len(m) < 20000:
                seen.add(m)
                muts.append((kind, m))
    # synthetic valid dumps at the size strata and on both sides of every threshold of marshal.go
    syn = []
    for name, d in synthetic_strata(thresholds, quick):
        if quick and len(d) > 200000 and not name.endswith("=%d" % (thresholds.get("maxEagerRead", 1 << 16) + 1)):
            continue      # quick: of the 4-byte arrays with about maxEagerRead ITEMS (4x the threshold in bytes) only one
        syn.append(("size:" + name, d))
        ck.count("synthetic:" + name.split("=")[0])
        if len(d) <= 100000:
            syn.append(("size:" + name + ":exact-budget", d))
            syn.append(("size:" + name + ":truncated", d[:-1]))
    muts = syn + muts
    # corpus: minimised past failures (one hex stream per line), run first forever
    cs = vlib.os.path.join(vlib.VERIF, "corpus", "C13", "streams.txt")
    if vlib.os.path.exists(cs):
        pre = []
        for l in open(cs):
            l = l.split("#")[0].strip()
            if l:
                pre.append(("corpus", bytes.fromhex(l)))
        muts = pre + muts
    # exhaustive truncation + every single-bit flip of the smallest dump
    if dumps:
        d0 = dumps[0][0]
        for c in range(len(d0)):
            if d0[:c] not in seen:
                seen.add(d0[:c])
                muts.append(("trunc-all", d0[:c]))
        if not quick or len(d0) < 200:
            for p in range(len(d0)):
                for bit in range(8):
                    b = bytearray(d0)
                    b[p] ^= 1 << bit
                    if bytes(b) not in seen:
                        seen.add(bytes(b))
                        muts.append(("flip-all", bytes(b)))
    budgets = [0, 0, 0, 1, 9, 12, 33, 100, 1000, 1 << 40]
    ulines, mlines, llines = [], [], []
    for n, (kind, m) in enumerate(muts):
        bud = 0 if n % 2 == 0 else rng.choice(budgets + [len(m), max(0, len(m) - 3), len(m) + 1])
        if kind.startswith("size:"):
            bud = len(m) - 3 if kind.endswith(":exact-budget") else 0
        ulines.append("x%d unm %x %s" % (n, bud, hx(m)))
        mlines.append("x%d unm %x %x %s" % (n, LIM, bud, hx(m)))
        src = 'local f, e = load(%s, "m", "b"); emit(type(f), e)' % lua_str(m) if bud == 0 else "emit('skipped')"
        llines.append("l%d %s" % (n, src.encode().hex()))
    t0 = time.time()
    rcm, mout, em = run_oracle(oracle, mlines)
    # (for the large size-strata streams the load verdict follows from the unmarshal verdict: no second pass of the model)
    _, lmod, _ = run_oracle(oracle, ["y%d load %x 0 %s" % (n, LIM, hx(m) if not (kind.startswith("size:") and len(m) > 20000) else "-") for n, (kind, m) in enumerate(muts)])
    for n, (kind, m) in enumerate(muts):
        if kind.startswith("size:") and len(m) > 20000 and n < len(lmod) and n < len(mout):
            f = mout[n].split(" ")
            lmod[n] = "y%d %s" % (n, ("fun 0" if f[2].startswith("C,") else "notfun") if f[1] == "val" else "notfun" if f[1] == "nil" else "err " + f[2] if f[1] == "err" else f[1])
    if len(lmod) != len(muts):
        ck.violation("oracle crashed on malformed streams (load)", {"kind": "oracle-crash"}, no_input=True)
        lmod += ["y fuel"] * (len(muts) - len(lmod))
    if rcm != 0 or len(mout) != len(mlines):
        ck.violation("oracle crashed on malformed streams (%d/%d lines)" % (len(mout), len(mlines)), {"kind": "oracle-crash", "stderr": em[-2000:]}, no_input=True)
    # Streams on which the model predicts a fatal allocation cost a process each (and, in the gray zone,
    # gigabytes of real memory): all of them are the recorded finding, so only a sample is executed.
    keep, nfatal, ngray = [], 0, 0
    for n in range(min(len(muts), len(mout))):
        f = mout[n].split(" ")
        if f[1] == "fatal":
            req = int(f[2], 16)
            if req > SURE_FATAL:
                nfatal += 1
                if nfatal > (4 if quick else 60):
                    ck.count("malformed:predicted-fatal-not-executed")
                    continue
            else:
                ngray += 1
                if quick or req > (1 << 27) or ngray > 40:
                    ck.count("malformed:gray-zone-not-executed")
                    continue
        keep.append(n)
    muts = [muts[n] for n in keep]
    mout = [mout[n] for n in keep]
    lmod = [lmod[n] for n in keep]
    ulines = [ulines[n] for n in keep]
    llines = [llines[n] for n in keep]
    uout = run_batches(gvh, ["marshal"], ulines)
    lout = run_batches(gvh, ["lua"], llines)
    ck.log("stage C: %d malformed streams, %.1fs" % (len(muts), time.time() - t0))
    known_make = ck.known_match(lambda k: k.get("id") == "C13-unmarshal-make-before-budget")
    known_upv = ck.known_match(lambda k: k.get("id") == "C13-load-negative-upvalue-count")
    mal_fail = 0
    for n, (kind, m) in enumerate(muts):
        if n >= len(mout) or n >= len(uout) or n >= len(lout):
            break
        mo, uo, lo = mout[n].split(" "), uout[n].split(" "), lout[n].split(" ")
        m_al = int(mo.pop()[1:], 16) if mo[-1].startswith("A") else None
        g_al = int(uo.pop()[1:], 16) if uo[-1].startswith("A") and uo[1] in ("val", "nil", "err") else None
        if uo[1] == "SKIPPED" or lo[1] == "SKIPPED":
            ck.count("malformed:not-executed-after-repeated-crashes")
            continue
        ck.case("mal:" + m.hex(), True)
        ck.count("malformed:kind:" + kind.split("=")[0])
        ck.count("malformed:model:" + mo[1] + (":" + mo[2] if mo[1] == "err" else ""))

        def crash_is_oom(o):
            return len(o) > 3 and o[1] == "CRASH" and b"out of memory" in bytes.fromhex(o[3] if o[3] != "-" else "")
        if mo[1] == "fatal":
            req = int(mo[2], 16)
            for what, o in (("UnmarshalConst", uo), ("load", lo)):
                if what == "load" and ulines[n].split(" ")[2] != "0":
                    continue
                if crash_is_oom(o):
                    if known_make:
                        ck.known_finding(known_make)
                        ck.count("malformed:known-oom-crash")
                    else:
                        mal_fail += 1
                        s_fail += 1
                        if mal_fail <= 3:
                            ck.violation("%s of a %d-byte stream kills the process: make(%d bytes) before any length/budget check" % (what, len(m), req),
                                         {"kind": "Go!=S", "engine": "marshal", "stream": m.hex(), "impl": " ".join(o)[:600], "model": mout[n]})
                elif o[1] in ("CRASH", "HANG", "gopanic"):
                    mal_fail += 1
                    s_fail += 1
                    if mal_fail <= 3:
                        ck.violation("%s of a malformed stream: %s" % (what, o[1]), {"kind": "Go!=S", "engine": "marshal", "stream": m.hex(), "impl": " ".join(o)[:900]})
                elif req > SURE_FATAL:
                    im_diffs.append(("model predicts a fatal allocation of %d bytes but %s survived" % (req, what), None, None, m.hex()[:300] + " -> " + " ".join(o)[:200]))
                else:
                    ck.count("malformed:gray-zone-allocation-survived")
            continue
        # C06 clause "loading charges before allocating": measured Go allocation of the call against
        # the proved bound 48 * used + 163 (C13_unmarshal_alloc_bounded) and against the model's total
        bud_n = int(ulines[n].split(" ")[2], 16)
        if g_al is not None and bud_n != 0 and uo[1] in ("val", "nil", "err"):
            used_n = int(uo[3] if uo[1] in ("val", "err") else uo[2], 16)
            ck.count("alloc:measured-calls")
            ck.count("alloc:bytes-per-budget-unit:<=%d" % (1 if g_al <= used_n else 4 if g_al <= 4 * used_n else 16 if g_al <= 16 * used_n else 48 if g_al <= 48 * used_n else 999))
            if g_al > 48 * used_n + 163 + 256:
                mal_fail += 1
                s_fail += 1
                if mal_fail <= 3:
                    ck.violation("UnmarshalConst allocated %d bytes for a used budget of %d (bound 48*used+163): loading allocates before it charges" % (g_al, used_n),
                                 {"kind": "Go!=S", "engine": "marshal", "stream": m.hex(), "budget": "%x" % bud_n, "impl": uout[n][:600], "theorem": "C13_unmarshal_alloc_bounded"})
            elif m_al is not None and g_al > m_al + 256:
                im_diffs.append(("UnmarshalConst allocated %d bytes, the model's accumulated allocation is %d" % (g_al, m_al), None, None, ulines[n][:6000]))
        # the model predicts an ordinary outcome
        if uo[1] in ("CRASH", "HANG", "gopanic"):
            mal_fail += 1
            s_fail += 1
            if mal_fail <= 3:
                ck.violation("UnmarshalConst of a malformed stream: %s" % uo[1], {"kind": "Go!=S", "engine": "marshal", "stream": m.hex(), "budget": ulines[n].split(" ")[2], "impl": uout[n][:900], "model": mout[n][:300]})
        elif uo[1:] != mo[1:]:
            im_diffs.append(("UnmarshalConst result differs from the model on a malformed stream (%s)" % kind, None, None, ulines[n][:6000] + " -> go: " + uout[n][:200] + " model: " + mout[n][:200]))
        if ulines[n].split(" ")[2] != "0":
            pass   # load() runs with an unlimited budget: only the budget-0 verdict of the model speaks about it
        elif lmod[n].split(" ")[1] == "gopanic":
            # the model: NewClosure makes a slice of UpvalueCount < 0 cells
            msg = bytes.fromhex(([x for x in lo if x.startswith("E:")] or ["E:"])[0][2:].replace("-", "")) if lo[1] == "gopanic" else b""
            if lo[1] == "gopanic" and b"makeslice" in msg and known_upv:
                ck.known_finding(known_upv)
                ck.count("malformed:known-negative-upvalue-count-panic")
            elif lo[1] in ("gopanic", "CRASH", "HANG"):
                mal_fail += 1
                s_fail += 1
                if mal_fail <= 3:
                    ck.violation('load(s, "m", "b") of a malformed stream: Go panic (%s)' % msg.decode("latin-1")[:100],
                                 {"kind": "Go!=S", "engine": "lua", "stream": m.hex(), "lua": bytes.fromhex(llines[n].split(" ")[1]).decode("latin-1")[:3000], "impl": lout[n][:900]})
            else:
                im_diffs.append(("the model predicts a Go panic in NewClosure (negative upvalue count) but load() returned normally", None, None, m.hex()[:300] + " -> " + lout[n][:200]))
        elif lo[1] != "ok":
            mal_fail += 1
            s_fail += 1
            if mal_fail <= 3:
                ck.violation('load(s, "m", "b") of a malformed stream does not end in an ordinary result: %s' % lo[1],
                             {"kind": "Go!=S", "engine": "lua", "stream": m.hex(), "lua": bytes.fromhex(llines[n].split(" ")[1]).decode("latin-1")[:3000], "impl": lout[n][:900]})
        else:
            want = predict_load(m, lmod[n])
            got = ([x for x in lo if x.startswith("T:")] or ["T:?"])[0][2:]
            if want is not None and got != want:
                im_diffs.append(("load() result differs from what the model predicts (%s)" % kind, None, None, m.hex()[:300] + " -> go: " + got + " want: " + want))
            ck.count("malformed:load:" + ("function" if got.startswith("s" + b"function".hex()) else "nil+message"))
    # the witnesses of the two repaired defects, through load(), outside and inside a limited context
    wit = bytes([6, 0, 4, 5]) + bytes(16) + struct.pack("<q", 1 << 40)
    wit2 = bytes([6, 0, 4, 5]) + bytes(40) + bytes([0xFF, 0xFF, 0, 0, 0, 0]) + bytes(8)
    wl = []
    for n, w in enumerate((wit, wit2)):
        wsrc = 'local f, e = load(%s, "w", "b"); emit(type(f), e)' % lua_str(w)
        wl += ["w%d %s" % (n, wsrc.encode().hex()), "v%d %s cpu=100000 mem=100000" % (n, wsrc.encode().hex())]
    for o in vlib.run_lines_resilient(gvh, ["lua"], wl, per_case_timeout=60):
        f = o.split(" ")
        ck.case("witness:" + f[0], True)
        if f[1] not in ("ok", "killed"):
            s_fail += 1
            k = known_make if f[0][1] == "0" else known_upv
            if k and f[1] in ("CRASH", "gopanic"):
                ck.known_finding(k)
                s_fail -= 1
            else:
                ck.violation("load of a corrupt binary chunk (corpus witness %s) takes the host down: %s" % (f[0], f[1]),
                             {"kind": "Go!=S", "engine": "lua", "lua": bytes.fromhex(wl[0].split(" ")[1]).decode("latin-1") if f[0][1] == "0" else bytes.fromhex(wl[2].split(" ")[1]).decode("latin-1"),
                              "impl": o[:900], "theorem": "C13_unmarshal_total_no_panic / C13_load_no_panic"})

    # ------------------------------------------------ classification of Go != IM
    if im_diffs and s_fail == 0:
        d, i, j, detail = im_diffs[0]
        ck.violation("implementation no longer matches the Coq model Marshal/Model*.v (Go≈IM/marshal): %s; no property-level failure found" % d,
                     {"kind": "Go!=IM", "correspondence": "Go≈IM/marshal", "first_difference": d, "chunk": chunks[i] if i is not None else None, "closure": j,
                      "detail": detail, "differences": len(im_diffs), "theorems_no_longer_about_this_code": THEOREMS_IM}, no_input=True)
    if not ok_obl:
        ck.violation("proof obligations of C13 no longer check: " + str(ck.cov.get("obligation_failure", ""))[:300],
                     {"kind": "proof", "theorem_file": PROP, "detail": ck.cov.get("obligation_failure")}, no_input=(s_fail == 0))
    ck.cov["correspondence_differences"] = len(im_diffs)
    ck.cov["property_level_failures"] = s_fail
    ck.cov["exhaustive"] = False
    return ck.finish(
        rule="(A) %d generated Lua chunks (+%d corpus, + one compiled function per size stratum: opcodes below/above the eager-read threshold of marshal.go and near the compiler limit, "
             "string constants around the threshold, constant table above it, 1/10/199/200/201/1000 sibling functions, nesting depth 1/10/30/60, closures in loops): every closure the chunk creates (closed functions, nested closures with upvalues, the chunk itself): "
             "bytes of string.dump vs extracted marshal(refactor_unit(export)), export(load(dump)) vs model, dump(load(dump f)) = dump f, independent Python decoding "
             "of the dump, first-use order/slimness/lookup preservation of the constants; (B) each chunk run twice on %d argument tuples per closed function, "
             "f directly vs load(string.dump(f)): emit traces, results, error values with line info (1 in 3 inside a cpu/mem-limited context); "
             "(B2) dump histories in Lua on the closed and nested functions of a chunk: strip argument true/false/nil/string/number/table (ignored by golua: same bytes), "
             "dumps of related functions (enclosing, nested, sibling; alternately stripped and thrown away) interleaved, then string.dump(f), debug.getupvalue names of f and of "
             "load(dump f), and the re-dump of the reloaded function must equal the first observations; (C) malformed streams (truncation at every field boundary and random, single bit flips, special values in every length field, type bytes; all truncations "
             "and all bit flips of the smallest dump) through UnmarshalConst (budgets 0/small/exact/large) vs the model and through load(s,name,'b'), each in a child process; "
             "non-trivial = every closure / stream counts, behaviour cases only if events were emitted; distinct by dump bytes / stream bytes / chunk text" % (nchunks, ncorpus, 6 if quick else len(ARG_TUPLES)),
        trusted_base=TRUSTED,
        assumptions=["the model is run with lim = 64 MiB per allocation; C13_unmarshal_total_no_panic says no stream used here (< 20 kB) can need more, so every model verdict is an ordinary one and a Go crash is a violation",
                     "behaviour (stage B) is Go against Go: it shows f and load(string.dump(f)) agree, not that either is what the manual says (that is C01)",
                     "strip argument of string.dump is ignored by golua (TODO in the source) and not checked"])


def replay(path, seed):
    r = json.load(open(path))
    ck = vlib.Check("C13", "quick", seed)
    gvh, _ = ck.build_gvh(pkg="./cmd/gvh-marshal", name="gvh_marshal")
    oracle = ck.build_oracle("marshal")
    if r.get("chunk"):
        _, a, _ = vlib.run_lines(gvh, ["marshal"], ["r chunk " + r["chunk"].encode().hex()])
        print("impl :", a[0][:3000] if a else None)
        pc = parse_chunk_line(a[0]) if a else None
        if pc:
            unit, parts = pc
            U = parse_unit(unit)
            for j, p in enumerate(parts):
                d1 = bytes.fromhex(p["d1"])
                try:
                    tree, _ = dec_dump(d1)
                    fl = spec_check(U, p["idx"], tree) if p["idx"] >= 0 else ["no index"]
                    if tree_text(tree) != p["tree"]:
                        fl.append("load() result differs from decoding of the dump")
                except Short as ex:
                    fl = ["malformed dump: %s" % ex]
                if p["d1"] != p["d2"]:
                    fl.append("dump not stable")
                _, mo, _ = run_oracle(oracle, ["U unit " + unit, "u dumpu %s" % hz(p["idx"])])
                print("closure %d: predicates %s; model bytes equal: %s" % (j, fl or "ok", len(mo) > 1 and mo[1].split(" ")[2:3] == [p["d1"]]))
        if r.get("engine") == "lua" and r.get("driver_sequence"):
            o = vlib.run_lines_resilient(gvh, ["lua"], ["q " + (PRELUDE_REG + r["chunk"] + r["driver_sequence"]).encode().hex()])
            print("history:", o[0][:3000])
        elif r.get("engine") == "lua":
            o = vlib.run_lines_resilient(gvh, ["lua"], ["d " + (PRELUDE + r["chunk"] + r["driver_direct"]).encode().hex(), "r " + (PRELUDE + r["chunk"] + r["driver_reload"]).encode().hex()])
            print("direct:", o[0][:1500])
            print("reload:", o[1][:1500])
            print("equal :", lua_result_key(o[0]) == lua_result_key(o[1]))
    elif r.get("stream") is not None:
        o = vlib.run_lines_resilient(gvh, ["marshal"], ["s unm %s %s" % (r.get("budget", "0"), r["stream"] or "-")])
        _, mo, _ = vlib.run_lines(oracle, [], ["s unm %x %s %s" % (LIM, r.get("budget", "0"), r["stream"] or "-")])
        print("impl :", o[0][:600])
        print("model:", mo[0][:600] if mo else None)
    elif r.get("lua"):
        o = vlib.run_lines_resilient(gvh, ["lua"], ["w " + r["lua"].encode("latin-1").hex()])
        print("impl :", o[0][:900])
    else:
        print(json.dumps(r, indent=1)[:3000])
    return 0
