# C01 — compiled programs behave as the Lua 5.4 manual prescribes.
#
#  proof obligations : coq/theories/Properties/C01.v (LuaCore: Lua/Machine.v, proofs Lua/Meta.v)
#  correspondence    : translation validation, program by program: `gvh lua` (real scanner,
#                      parser, compiler and runtime built from /repo) vs oracle/luacore (LuaCore
#                      extracted from Coq) on generated programs x renderings x argument tuples;
#                      compared: event trace (values given to `emit`), results, error value /
#                      class + position.
#  known findings    : witnesses replayed on every run; a random-stream disagreement is
#                      attributed to a finding only if an equivalent respelling that avoids
#                      exactly that construct (gen_lua.REWRITES) makes both sides agree.
import json
import os

from lib import vlib, luacore, gen_lua
from lib.gen_lua import *   # AST constructors for the probes

PID = "C01"
PROP = ["Properties/C01.v"]
TRUSTED = [
    "Coq 8.16.1 kernel (coqc); vm_compute only in Example witnesses",
    "axioms: only those Flocq/Reals bring in (Print Assumptions, listed under coverage.axioms)",
    "LuaCore (coq/theories/Lua/*.v) is our reading of the Lua 5.4 manual: trusted as the specification, cross-examined against golua on every run",
    "extraction: ExtrOcamlBasic only; oracle/common/proto.ml + oracle/luacore/driver.ml (S-expression parser, canonical printer), OCaml 4.13.1",
    "Go harness harness/hx/lua.go (`gvh lua`); Python generator/renderer/serialiser lib/gen_lua.py, diff lib/luacore.py",
    "run-time error messages are compared by class + position (message text is not fixed by the manual)",
]


def emit(*es):
    return SCall(Call(Var("emit"), *es))


def probes():
    """witnesses of the known findings: (finding id, program, args)"""
    ps = []
    ps.append(("C01-paren-vararg", [LocalFn("f", Fn([], True, [Return(Par(Dots()))])), emit(Call(Var("f"), Int(1), Int(2), Int(3))),
                                    Return(Par(Dots()))], ["i1", "i2", "i3"]))
    ps.append(("C01-forin-shared-cell", [Local(["f"], []),
                                         ForIn(["i"], [Call(Var("ipairs"), Tab(FPos(Int(7))))], [Assign([Var("f")], [Fn([], False, [Return(Var("i"))])])]),
                                         Return(Call(Var("f")))], []))
    ps.append(("C01-unary-dummy-operand", [Local(["t"], [Call(Var("setmetatable"), Tab(), Tab(FNamed("__unm", Fn(["a", "b"], False, [Return(Bin("eq", Var("a"), Var("b")))]))))]),
                                           Return(Un("neg", Var("t")))], []))
    ps.append(("C01-call-target-before-args", [Local(["n"], []), Return(Call(Var("pcall"), Fn([], False, [SCall(Call(Var("n"), Call(Var("emit"), Int(1))))])))], []))
    ps.append(("C01-excess-expressions-dropped", [Local(["a"], [Int(1), Call(Var("emit"), Int(2))]), Assign([Var("a")], [Int(3), Call(Var("emit"), Int(4))]),
                                                  ForIn(["k"], [Var("next"), Tab(), Nil(), Nil(), Call(Var("emit"), Int(5))], []), Return(Var("a"))], []))
    return ps


def open_finding_profile():
    """constructs of findings that are still open stay out of the random stream (their probes run)"""
    pf = {}
    for k in vlib.load_known():
        if k.get("id") == "C01-excess-expressions-dropped" and k.get("status") == "open":
            pf["no_excess"] = True
    return pf


def gen_cases(ck, nprog, profile=None):
    """random programs: each in 3 renderings; the third with the second argument tuple"""
    cases, meta = [], []
    feats, kinds = {}, {}
    for i in range(nprog):
        g = gen_lua.ProgramGen(ck.rng.fork(), profile or open_finding_profile())
        body, tuples, f = g.program()
        for k, v in f.items():
            feats[k] = feats.get(k, 0) + v
        gen_lua.count_kinds(body, kinds)
        styles = [(i + j) % len(gen_lua.STYLES) for j in range(3)]
        for j, st in enumerate(styles):
            cases.append({"ast": body, "style": st, "args": tuples[0] if j < 2 else tuples[1], "rseed": ck.rng.next() & 0xFFFFFFF,
                          "eol": gen_lua.EOLS[(i + 2 * j + i // 4) % 4]})
            meta.append(i)
    return cases, meta, feats, kinds


def attribute(ck, case, gvh, oracle):
    """does an equivalent respelling that avoids a known defect make the two sides agree?"""
    hits = []
    for fid, rw in gen_lua.REWRITES.items():
        k = ck.known_match(lambda kk: kk["id"] == fid)
        if not k:
            continue
        b2, n = rw(case["ast"])
        if not n:
            continue
        r = luacore.run_both(ck, [dict(case, ast=b2)], gvh, oracle, timeout=10)
        if r[0][0] == r[0][1]:
            return k
        hits.append((fid, b2))
    if len(hits) > 1:
        b = case["ast"]
        for fid, _ in hits:
            b, _ = gen_lua.REWRITES[fid](b)
        r = luacore.run_both(ck, [dict(case, ast=b)], gvh, oracle, timeout=10)
        if r[0][0] == r[0][1]:
            return ck.known_match(lambda kk: kk["id"] == hits[0][0])
    return None


def shrink_case(ck, case, gvh, oracle, g0, o0, budget=120):
    def fails(b):
        r = luacore.run_both(ck, [dict(case, ast=b, style=0)], gvh, oracle, timeout=5)
        gg, oo = r[0]
        return (gg != oo and gg.split()[0] == g0.split()[0] and oo.split()[0] == o0.split()[0]
                and not oo.startswith(("oracle_error", "HANG", "MISSING")) and not gg.startswith(("HANG", "MISSING")))
    import copy
    if g0.startswith("HANG"):
        return None             # every candidate would cost a time-out
    b = copy.deepcopy(case["ast"])
    if not fails(b):
        return None
    return gen_lua.shrink(b, fails, budget=budget)


def report(ck, case, g, o, gvh, oracle, what="generated program", budget=120):
    small = shrink_case(ck, case, gvh, oracle, g, o, budget=budget)
    rep = {"kind": "Go!=S", "engine": "luacore", "what": what, "args": case.get("args"), "go": g, "luacore": o,
           "src": case.get("_src"), "sx": case.get("_sx"), "contradicts": "translation validation against LuaCore (manual semantics)"}
    if small is not None:
        c2 = dict(case, ast=small, style=0)
        r = luacore.run_both(ck, [c2], gvh, oracle, timeout=10)
        rep.update({"shrunk_src": c2["_src"], "shrunk_sx": c2["_sx"], "shrunk_go": r[0][0], "shrunk_luacore": r[0][1]})
    ck.violation("golua and LuaCore disagree on a %s: go=%s | luacore=%s" % (what, g[:120], o[:120]), rep)


def reference_compare(ck, mkgen, nprog, gvh, oracle):
    """LuaCore vs PUC-Rio Lua 5.3.6 on generated programs of the 5.3/5.4 common subset
    (no <close>/<const>, no string arithmetic, no 5.4-only library functions or errors).
    A difference is a defect of LuaCore or of the generator discipline, never of golua."""
    ref = luacore.build_ref(ck)
    stats = {"compared": 0, "agree": 0, "disagree": 0, "available": ref is not None}
    ck.cov["reference_lua53"] = stats
    if ref is None:
        return
    cases = []
    for i in range(nprog):
        g = mkgen(ck.rng.fork())
        body, tuples, _ = g.program()
        cases.append({"ast": body, "style": i % len(gen_lua.STYLES), "args": tuples[0], "rseed": ck.rng.next() & 0xFFFFFFF,
                      "eol": gen_lua.EOLS[(i // 3) % 4]})
    res = luacore.run_both(ck, cases, gvh, oracle)
    rr = luacore.run_ref(ref, cases)
    bad = 0
    for c, (g, o), r in zip(cases, res, rr):
        if o.split(" ")[0].startswith(("unsupported", "fuel", "HANG", "SKIPPED")):
            continue
        stats["compared"] += 1
        ck.count("reference-lua53-compared")
        if r == o:
            stats["agree"] += 1
            continue
        stats["disagree"] += 1
        bad += 1
        if bad <= 2:
            ck.violation("LuaCore (the specification side) disagrees with PUC-Rio Lua 5.3 on a program of the common subset: ref=%s | luacore=%s" % (r[:120], o[:120]),
                         {"kind": "S!=reference", "src": c["_src"], "sx": c["_sx"], "args": c["args"], "reference_lua53": r, "luacore": o, "go": g},
                         no_input=True)
    ck.log("reference PUC-Lua 5.3: %s" % stats)


def load_corpus(pid):
    d = os.path.join(vlib.VERIF, "corpus", pid)
    out = []
    if os.path.isdir(d):
        for fn in sorted(os.listdir(d)):
            if fn.endswith(".json"):
                c = json.load(open(os.path.join(d, fn)))
                c["name"] = fn
                out.append(c)
    return out


def run(tier, seed):
    ck = vlib.Check(PID, tier, seed, level="translation_validation")
    ok_obl = ck.obligations(PROP)
    ov = vlib.os.environ.get("VERIF_OVERLAY")      # mutation experiments: go build -overlay
    gvh, err = ck.build_gvh(overlay=ov, name=("gvh_verif_mut" if ov else None))
    if gvh is None:
        ck.violation("harness does not build against /repo", {"kind": "build", "stderr": err[-3000:]}, no_input=True)
        return ck.finish("n/a", TRUSTED, [])
    oracle = ck.build_oracle("luacore")
    if oracle is None:
        ck.violation("oracle (extracted LuaCore) does not build", {"kind": "build"}, no_input=True)
        return ck.finish("n/a", TRUSTED, [])
    ck.log("obligations, harness and oracle ready")

    # ---------------- corpus (stored source + S-expression)
    corpus = load_corpus(PID)
    if corpus:
        res = luacore.run_both(ck, corpus, gvh, oracle)
        for c, (g, o) in zip(corpus, res):
            ck.count("corpus")
            ck.case("corpus:" + c["name"], True)
            if g != o:
                k = ck.known_match(lambda kk: kk["id"] == c.get("finding"))
                if k:
                    ck.known_finding(k)
                else:
                    ck.violation("corpus case %s: golua and LuaCore disagree" % c["name"],
                                 {"kind": "Go!=S", "src": c["src"], "sx": c["sx"], "args": c.get("args"), "go": g, "luacore": o})

    # ---------------- witnesses of the known findings
    for fid, body, args in probes():
        case = {"ast": body, "style": 0, "args": args}
        (g, o), = luacore.run_both(ck, [case], gvh, oracle)
        ck.count("probe")
        k = ck.known_match(lambda kk: kk["id"] == fid)
        if g != o:
            if k:
                ck.known_finding(k)
            else:
                report(ck, case, g, o, gvh, oracle, what="probe " + fid)
        elif k:
            ck.notes.append("known finding %s: the witness no longer fails (repaired?)" % fid)

    # ---------------- generated programs
    nprog = int(vlib.os.environ.get("VERIF_NPROG", 0)) or (700 if tier == "quick" else 7000)
    rounds = 1 if tier == "quick" else 3
    total = {"same": 0, "diff": 0, "known": 0, "discarded": 0}
    feats_all, kinds_all = {}, {}
    nviol = 0
    for rd in range(rounds):
        cases, meta, feats, kinds = gen_cases(ck, nprog)
        for k, v in feats.items():
            feats_all[k] = feats_all.get(k, 0) + v
        for k, v in kinds.items():
            kinds_all[k] = kinds_all.get(k, 0) + v
        res = luacore.run_both(ck, cases, gvh, oracle)
        reported = set()
        for c, m, (g, o) in zip(cases, meta, res):
            ost = o.split(" ")[0]
            gst = g.split(" ")[0]
            ck.count("status:" + gst)
            if gst == "SKIPPED":
                ck.count("skipped-after-many-hangs")
                continue
            if ost.startswith(("unsupported", "fuel", "HANG")) and not gst.startswith(("gopanic", "CRASH", "HANG")):
                total["discarded"] += 1
                ck.count("discarded:" + ost)
                continue
            nontrivial = gst in ("ok", "error") and " T:- " not in g
            ck.case(c["_sx"] + "|" + ",".join(c["args"]), nontrivial)
            if g == o:
                total["same"] += 1
                continue
            total["diff"] += 1
            if m in reported or nviol >= 6:
                continue
            k = attribute(ck, c, gvh, oracle)
            if k:
                total["known"] += 1
                ck.known_finding(k)
                continue
            reported.add(m)
            nviol += 1
            if nviol <= 3:
                report(ck, c, g, o, gvh, oracle, budget=(120 if nviol == 1 else 25))
            elif nviol == 4:
                ck.log("further disagreements not shrunk")
        if rd == 0:
            for i in (0, 3, 6):
                if i < len(cases):
                    ck.sample({"lua": cases[i]["_src"][:1500], "args": cases[i]["args"], "go": res[i][0][:400], "luacore": res[i][1][:400]})
        ck.log("round %d: %s" % (rd, total))
    reference_compare(ck, lambda rng: gen_lua.ProgramGen(rng, dict(luacore.REF53_PROFILE)), 250 if tier == "quick" else 4000, gvh, oracle)
    for k, v in sorted(feats_all.items()):
        ck.count("feature:" + k, v)
    for k, v in sorted(kinds_all.items()):
        ck.count("ast:" + k, v)
    if not ok_obl:
        ck.violation("proof obligations of C01 no longer check: " + str(ck.cov.get("obligation_failure", ""))[:300],
                     {"kind": "proof", "theorem_file": PROP, "detail": ck.cov.get("obligation_failure")}, no_input=True)
    if tier == "thorough":
        ck.coqchk(["GV.Properties.C01"])
    ck.cov["comparison"] = total
    ck.cov["exhaustive"] = False
    return ck.finish(
        rule="programs from lib/gen_lua.py ProgramGen (full statement/expression grammar of LuaCore under the definedness discipline), "
             "each run in 3 of 4 renderings (plain / redundant parentheses+hex+long strings+comments / compact+semicolons+call sugar / sugar) "
             "and 2 argument tuples; compared with LuaCore: event trace, results, error value or class+position. non-trivial = ran to "
             "ok/error with a non-empty event trace; distinct by S-expression+arguments. Programs on which LuaCore reports unsupported/out of fuel are discarded (counted).",
        trusted_base=TRUSTED,
        assumptions=["the generator stays inside behaviour the manual determines (DESIGN.md Appendix C.3); evaluation order of operands is never observed",
                     "level: translation validation per program, not a forall-programs theorem; the Coq theorems are about LuaCore (the specification side)"])


def replay(path, seed):
    r = json.load(open(path))
    ck = vlib.Check(PID, "quick", seed)
    gvh, _ = ck.build_gvh()
    oracle = ck.build_oracle("luacore")
    for tag in ("shrunk_", ""):
        if r.get(tag + "src"):
            c = {"src": r[tag + "src"], "sx": r[tag + "sx"], "args": r.get("args") or []}
            (g, o), = luacore.run_both(ck, [c], gvh, oracle)
            print("---- %sprogram\n%s" % (tag, c["src"]))
            print("golua  :", g)
            print("luacore:", o)
            print("agree" if g == o else "DISAGREE")
    return 0
