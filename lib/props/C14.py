# C14 — performance build options never change behaviour.
#
#  proof obligations : coq/theories/Properties/C14.v (models Pool/RegPool.v, Pool/ContPool.v; Ctx/Model.v for noquotas)
#  correspondence    : gvh-pool (real valuePool/cellPool/luaContPool/goContPool through the verif hooks) vs
#                      oracle/pool (extracted models): which slice/object every get returns (identity class),
#                      its length, zeroedness, panics, and the whole slot state at the end
#  decisive check    : the Lua runner (harness/cmd/gvh, engine lua) is built with six tag sets and every
#                      pool-stressing program must give byte-identical protocol lines on all of them
import json
import os
import re

from lib import vlib

PROP = ["Properties/C14.v"]
CONFIGS = [
    ("default", ("verif",)),
    ("noregpool", ("verif", "noregpool")),
    ("nocontpool", ("verif", "nocontpool")),
    ("noregpool+nocontpool", ("verif", "noregpool", "nocontpool")),
    ("noquotas", ("verif", "noquotas")),
    ("safepool", ("verif", "safepool")),
]
TRUSTED = [
    "Coq 8.16.1 kernel (coqc); vm_compute only in Examples",
    "no axioms (Print Assumptions: closed under the global context for every C14 theorem)",
    "extraction: ExtrOcamlBasic only; oracle/common/proto.ml + oracle/pool/driver.ml (glue incl. identity numbering), OCaml 4.13.1",
    "Go harness harness/cmd/gvh-pool/main.go, harness/cmd/gvh + harness/hx/lua.go; hook /repo/runtime/verif_pools.go",
    "Python generators/diff in lib/props/C14.py",
    "modelled not verified: the client discipline (LuaCont.release / GoCont.RunInThread never touch a released object) is an "
    "assumption of the theorems and is what the cross-configuration runs test; uint wrap-around of gen (2^64 gets); "
    "UnsafePool (tag safepool) observed only",
]
THEOREMS = ["C14_pool_get_zeroed_right_size", "C14_pool_refines_fresh", "C14_heap_pool_refines_fresh", "C14_pool_no_panic", "C14_contpool_refines_new",
            "C14_unlimited_manager_is_noop"]


# ------------------------------------------------------------------ hook-level histories

def rand_reg_history(rng):
    n = 4 + rng.geometric(25, 120)
    sizes = [rng.choice([0, 1, 2, 3, 5, 8, 13, 21, 34, 40, 64, 100, 200, 255]) for _ in range(1 + rng.below(13))]
    ops, made = [], 0
    for _ in range(n):
        r = rng.below(100)
        if r < 55 or made == 0:
            ops.append("G %x" % rng.choice(sizes))
            made += 1
        else:
            ops.append("R %x" % rng.below(64))  # release the (j mod n)-th register set the client owns
    return ops


def rand_cont_history(rng, kind):
    cap = 100 if kind == "l" else 10
    n = 4 + rng.geometric(40, 300)
    ops = []
    for _ in range(n):
        r = rng.below(100)
        if r < 47:
            ops.append("G")
        elif r < 96:
            ops.append("R %x" % rng.below(256))
        else:
            k = cap + rng.below(8)              # own more objects than the pool holds, hand them all back
            ops += ["G"] * k + ["R %x" % rng.below(256) for _ in range(k)]
    return ops


# ------------------------------------------------------------------ Lua programs

def fn_with_locals(name, nloc):
    """a function with nloc locals (register set of a distinctive size) that checks its own registers"""
    ls = ", ".join("v%d" % i for i in range(nloc))
    init = ", ".join("a + %d" % i for i in range(nloc))
    s = " + ".join("v%d" % i for i in range(nloc))
    return "local function %s(a, g)\n  local %s = %s\n  if g then g() end\n  return %s\nend\n" % (name, ls, init, s)


def t_deep(rng):
    d = rng.choice([10, 50, 99, 100, 101, 150, 199, 200, 201, 500, 3000])
    return "deep", ("local function f(n, acc) if n == 0 then return acc end local x, y = n, n * 2 local r = f(n - 1, acc + 1) "
                    "if x ~= n or y ~= n * 2 then error('corrupt') end return r + x - n end\nemit(f(%d, 0))\nemit(f(%d, 7))\n" % (d, d // 2 + 1))


def t_tail(rng):
    d = rng.choice([10, 101, 1000, 20000])
    return "tail", ("local function g(n, a, b) if n == 0 then return a, b end return g(n - 1, b, a + b) end\n"
                    "local function ev(n) if n == 0 then return true end return (function(m) if m == 0 then return false end return ev(m - 1) end)(n - 1) end\n"
                    "emit(g(%d, 0, 1))\nemit(ev(%d), ev(%d))\n" % (d % 80 + 3, d, d + 1))


def t_unwind(rng):
    d = rng.choice([3, 11, 50, 120, 400])
    k = rng.choice([1, 2, 5, 9])
    return "unwind", ("local function thrower(n, v) local a, b, c = n, v, {n} if n == 0 then error(v, 0) end "
                      "local r = thrower(n - 1, v) return r + a + #c end\n"
                      "local function safe(n) local a, b = n, n + 1 if n == 0 then return 0 end return safe(n - 1) + a - b + 1 end\n"
                      "for i = 1, %d do\n  local ok, e = pcall(thrower, %d + i, 'e' .. i)\n  emit(ok, e, safe(%d))\n"
                      "  local ok2, e2 = pcall(function() return thrower(i, {i}) end)\n  emit(ok2, type(e2), e2[1])\nend\n"
                      "emit(select('#', pcall(error)))\nemit(pcall(pcall, error, 'x'))\n" % (k, d, d // 2))


def t_coro(rng):
    n = rng.choice([2, 7, 30, 120])
    depth = rng.choice([1, 4, 12])
    return "coroutine", ("local function inner(d, tag) local a, b = d, tag if d == 0 then local r = coroutine.yield(tag) return r or 0 end "
                         "local v = inner(d - 1, tag) if a ~= d or b ~= tag then error('corrupt') end return v + a end\n"
                         "local cos = {}\nfor i = 1, %d do cos[i] = coroutine.create(function(x) local y = inner(%d, i) return x + y end) end\n"
                         "for i = 1, %d do emit(coroutine.resume(cos[i], i * 10)) end\n"
                         "for i = 1, %d, 2 do emit(coroutine.resume(cos[i], i)) end\n"
                         "for i = 2, %d, 4 do cos[i] = nil end\n"      # abandoned mid-call
                         "local function busy(n) local s = 0 for i = 1, n do s = s + (function(a, b) return a * b end)(i, 2) end return s end\n"
                         "emit(busy(300))\n"
                         "for i = 1, %d do if cos[i] then emit(coroutine.status(cos[i])) end end\n"
                         "local w = coroutine.wrap(function(...) local a = {...} while true do a[#a + 1] = coroutine.yield(#a) end end)\n"
                         "emit(w(1, 2, 3), w(4), w(5))\n" % (n, depth, n, n, n, n))


def t_closures(rng):
    n = rng.choice([3, 12, 40, 130])
    return "closures", ("local fs = {}\nfor i = 1, %d do local c = i * 3 local function bump(d) c = c + d return c end fs[i] = function(d) return bump(d), i end end\n"
                        "local function churn(n) if n == 0 then return 0 end local a, b, c, d = n, n, n, n return churn(n - 1) + a + b + c + d end\n"
                        "emit(churn(200))\n"
                        "local s = 0 for i = 1, %d do local v, j = fs[i](i) s = s + v * j end emit(s)\n"
                        "emit(churn(90))\nlocal s2 = 0 for i = %d, 1, -1 do local v = fs[i](1) s2 = s2 + v end emit(s2)\n"
                        "local function mk() local a, b, c = 1, 2, 3 return function() a = a + 1 return a end, function() b = b + a return b end, function() return a + b + c end end\n"
                        "local f1, f2, f3 = mk() emit(f1(), f2(), f3(), churn(30), f1(), f2(), f3())\n" % (n, n, n))


def t_live(rng):
    n = rng.choice([101, 150, 260])
    return "live-conts", ("local gens = {}\nfor i = 1, %d do gens[i] = coroutine.wrap(function() local k = i while true do coroutine.yield(k) k = k + i end end) end\n"
                          "local s = 0 for r = 1, 3 do for i = 1, %d do s = s + gens[i]() end end emit(s)\n"
                          "local function nest(n) if n == 0 then return 0 end local ok, v = pcall(nest, n - 1) return v + 1 end emit(nest(%d))\n" % (n, n, n))


def t_regsizes(rng):
    sizes = sorted(set(rng.choice([1, 2, 3, 5, 7, 9, 12, 16, 20, 24, 31, 40, 60]) for _ in range(14)))
    while len(sizes) < 11:
        sizes.append(sizes[-1] + 3)
    src = "".join(fn_with_locals("f%d" % n, n) for n in sizes)
    names = ["f%d" % n for n in sizes]
    src += "local fs = {%s}\nlocal s = 0\n" % ", ".join(names)
    src += "for r = 1, %d do for i = 1, #fs do s = s + fs[i](r, function() return fs[(i %% #fs) + 1](i) end) end end\nemit(s)\n" % rng.choice([1, 3, 12, 25])
    src += "for i = #fs, 1, -1 do emit(fs[i](i)) end\n"
    return "reg-sizes", src


def t_varargs(rng):
    n = rng.choice([0, 1, 3, 10, 60, 250])
    return "varargs", ("local function cnt(...) return select('#', ...) end\n"
                       "local function pass(...) return ... end\n"
                       "local function sum(...) local s = 0 for i = 1, select('#', ...) do s = s + (select(i, ...) or 0) end return s end\n"
                       "local function tail3(a, ...) if a == nil then return 'end', ... end return tail3(...) end\n"
                       "local t = {} for i = 1, %d do t[i] = i end\n"
                       "emit(cnt(table.unpack(t)), sum(table.unpack(t)), cnt(pass(table.unpack(t))), cnt(pass(nil, nil)))\n"
                       "emit(tail3(table.unpack(t)))\nemit(table.pack(pass(table.unpack(t, 1, %d))).n)\n"
                       "emit((pass(1, 2, 3)))\nemit(pass(pass(1, 2), pass(3, 4)))\n"
                       "emit(string.format('%%d %%s', pass(5, 'x')))\nemit(math.max(table.unpack(t, 1, math.max(1, #t))))\n" % (n, n // 2))


def t_gocalls(rng):
    n = rng.choice([5, 30, 200])
    return "gofuncs", ("local t = {} for i = 1, %d do t[i] = (i * 7919) %% 101 end\n"
                       "table.sort(t, function(a, b) local x, y = a, b return x < y end)\nemit(t[1], t[#t], #t)\n"
                       "local s = ('abc'):rep(%d):gsub('b', function(c) return c:upper() .. #c end)\nemit(#s)\n"
                       "local ok, e = pcall(table.sort, {3, 2, 1}, function(a, b) error('cmp') end)\nemit(ok, e)\n"
                       "local ok2, e2 = pcall(string.rep)\nemit(ok2)\n"
                       "local n = 0 for k, v in pairs({10, 20, 30}) do n = n + k * v end emit(n)\n"
                       "emit(select(2, pcall(setmetatable({}, {__index = function(t, k) return k .. '!' end}).__index or function() end)))\n"
                       "local mt = {__add = function(a, b) return 1 end, __call = function(self, x) return x end}\n"
                       "local o = setmetatable({}, mt) emit(o + o, o(42), tostring(nil), tostring(12))\n" % (n, n))


def t_reentrant(rng):
    n = rng.choice([4, 9, 25])
    return "reentrant", ("local depth = 0\nlocal function cmp(a, b)\n  depth = depth + 1\n  local x, y, z = a, b, depth\n"
                         "  if depth < 4 then local t = {3, 1, 2} table.sort(t, cmp) if t[1] ~= 1 then error('inner sort') end end\n"
                         "  local ok = pcall(function() if (a + b) %% 5 == 0 then error('skip') end end)\n"
                         "  local s = ('ab'):gsub('%%a', function(c) local co = coroutine.wrap(function() coroutine.yield(c:upper()) end) return co() end)\n"
                         "  depth = depth - 1\n  if x ~= a or y ~= b or s ~= 'AB' then error('corrupt') end\n  return a < b\nend\n"
                         "local t = {} for i = 1, %d do t[i] = (i * 37) %% 23 end\ntable.sort(t, cmp)\nemit(t[1], t[2], t[#t], depth)\n"
                         "local loaded = load(function() depth = depth + 1 if depth == 1 then return 'return 1 + ' elseif depth == 2 then return '41' end end)\nemit(loaded())\n"
                         "emit(xpcall(function() local a = {} return a.b.c end, function(m) return (pcall(error, m)) end))\n" % n)


def t_close(rng):
    n = rng.choice([1, 3, 8, 40])
    return "tbc", ("local function res(name, sink) return setmetatable({}, {__close = function(_, e) sink[#sink + 1] = name .. (e and ':err' or '') end}) end\n"
                   "local function work(n, sink, how)\n  local a, b, c = n, n * 2, {n}\n  local r1 <close> = res('a' .. n, sink)\n"
                   "  local r2 <close> = setmetatable({}, {__close = function() sink[#sink + 1] = a + b + c[1] end})\n"
                   "  if how == 'err' and n == 0 then error('deep') end\n  if n == 0 then return 'leaf', a, b end\n"
                   "  if how == 'tail' then return work(n - 1, sink, how) end\n  local x, y = work(n - 1, sink, how)\n  return x, y, a\nend\n"
                   "for _, how in ipairs{'plain', 'tail', 'err'} do\n  local sink = {}\n  emit(how, pcall(work, %d, sink, how))\n  emit(#sink, sink[1], sink[2], sink[#sink])\nend\n"
                   "local function failing(n) local a = n local bad <close> = setmetatable({}, {__close = function() error('in close ' .. a) end}) "
                   "local t = {} for i = 1, n do t[i] = i end return #t, a end\n"
                   "for i = 1, 3 do emit(pcall(failing, i)) emit(select(2, pcall(function() local x = failing(i) return x end))) end\n"
                   "local function gen() local k <close> = setmetatable({}, {__close = function() emit('closed') end}) for i = 1, 3 do coroutine.yield(i) end end\n"
                   "local co = coroutine.wrap(gen) emit(co(), co())\nlocal co2 = coroutine.create(gen) coroutine.resume(co2) emit(coroutine.close(co2))\n" % n)


def t_traceback(rng):
    d = rng.choice([1, 4, 15, 60])
    return "traceback", ("local function thrower(n) local a = n if n == 0 then error('bottom') end local r = thrower(n - 1) return r + a end\n"
                         "local function failing(n) local a = n local bad <close> = setmetatable({}, {__close = function() error('in close ' .. a) end}) "
                         "local t = {} for i = 1, n do t[i] = i end return #t, a end\n"
                         "local function via(n) local x = failing(n) return x + n end\n"
                         "for i = 1, 3 do\n  local ok, tb = xpcall(thrower, debug.traceback, %d + i)\n  emit(ok, tb)\n"
                         "  local ok2, tb2 = xpcall(via, debug.traceback, i)\n  emit(ok2, tb2)\n"
                         "  local function busy(n) if n == 0 then return 0 end local p, q = n, n return busy(n - 1) + p - q end\n  emit(busy(%d))\nend\n"
                         "emit(debug.traceback('msg', 1))\n" % (d, d))


def t_memlimit(rng):
    """long loops inside contexts whose ONLY limit is memory.  The first family is memory-neutral on the unchanged tree
    (Go calls with fixed parameters, Lua calls of several arities, tail calls, recursion, metamethod calls, ipairs/next
    iteration, method calls: everything required is released again) and the limit is sized so that 8 accounted bytes
    leaked per iteration flip done -> killed; the second family accumulates by design (closures, varargs, protected
    calls: allocations that are never given back) and is only compared (coroutines are left out: Thread.end releases its
    memory after handing control back, so the amount accounted at the kill point depends on goroutine timing).  Status and
    ctx.used.memory are emitted: the accounting does not depend on any pool, so both must be identical on the five
    builds that have quotas (default, noregpool, nocontpool, noregpool+nocontpool, safepool); noquotas has no runtime library."""
    n = rng.choice([30000, 50000, 80000])
    lim = 8 * n // 2 + 20000
    return "memlimit", ("local n = %d\nlocal function run(f, ...) local ctx = runtime.callcontext({kill = {memory = %d}}, f, ...) emit(ctx.status, ctx.used.memory) end\n"
                        "run(function() local s = 0 for i = 1, n do s = s + math.abs(-i) + math.floor(i / 2) + rawlen('ab') + string.len('abc') "
                        "if rawequal(i, s) or type(i) == 'x' or math.type(i) == 'float' then s = 0 end end end)\n"
                        "run(function() local function g(a, b, c) return a + b + (c or 0) end local s = 0 for i = 1, n do s = g(s, i) s = g(s, i, 1) end end)\n"
                        "run(function() local function t(k, a) if k == 0 then return a end return t(k - 1, a + 1) end local s = 0 for i = 1, n // 10 do s = s + t(10, i) end end)\n"
                        "run(function() local function r(k) if k == 0 then return 0 end local a, b = k, k return r(k - 1) + a - b end for i = 1, n // 50 do r(50) end end)\n"
                        "run(function() local o = setmetatable({}, {__index = function(t, k) return k end, __add = function(a, b) return 1 end, "
                        "__call = function(self, x) return x end}) local s = 0 for i = 1, n do s = s + o[i] + (o + o) + o(i) end end)\n"
                        "run(function() local t = {1, 2, 3, 4, 5} local s = 0 for i = 1, n // 5 do for _, v in ipairs(t) do s = s + v end end end)\n"
                        "run(function() local t = {a = 1, b = 2} local s = 0 for i = 1, n // 2 do for k, v in next, t do s = s + v end end end)\n"
                        "run(function() local o = {v = 1} function o:get(d) return self.v + d end local s = 0 for i = 1, n do s = s + o:get(i) end end)\n"
                        "emit('accumulating')\n"
                        "run(function() local s = 0 for i = 1, n do local f = function() return i end s = s + f() end end)\n"
                        "run(function(...) local s = 0 for i = 1, n do s = s + math.min(i, ...) + select('#', ...) end end, 4, 5, 6)\n"
                        "run(function() local s = 0 for i = 1, n do local ok, v = pcall(math.floor, i + 0.5) s = s + v end end)\n"
                        % (n, lim))


def t_xpcall_threads(rng):
    """xpcall message handlers versus errors raised on other threads, before and after nested protected calls have
    pushed and popped contexts (pcall / xpcall / a protected call inside a coroutine)"""
    nest = rng.choice(["pcall(function() end)", "pcall(error, 'inner')", "xpcall(function() return 1 end, function(m) return 'I' .. m end)",
                       "coroutine.wrap(function() pcall(function() end) end)()", "for i = 1, 3 do pcall(function() return i end) end"])
    lvl = rng.choice([0, 1, 2])
    return "xpcall-threads", ("local calls = 0\nlocal function handler(m) calls = calls + 1 return 'H(' .. tostring(m) .. ')' end\n"
                              "local function body(nested, same)\n  if nested then %s end\n"
                              "  local co = coroutine.create(function() local a = 1 error('boom', %d) end)\n  local ok, e = coroutine.resume(co)\n"
                              "  local w = coroutine.wrap(function() error({code = 7}) end)\n  local ok2, e2 = pcall(w)\n"
                              "  if same then error('same thread', %d) end\n  return ok, e, ok2, type(e2) == 'table' and e2.code or e2\nend\n"
                              "for _, nested in ipairs{false, true} do for _, same in ipairs{false, true} do\n"
                              "  emit(nested, same, xpcall(body, handler, nested, same)) emit(calls)\nend end\n"
                              "local co = coroutine.create(function() return xpcall(body, handler, true, true) end)\nemit(coroutine.resume(co)) emit(calls)\n"
                              % (nest, lvl, lvl))


def t_hooks(rng):
    """debug hooks written in Lua (call / return / line / count events) that inspect the frames below them with
    debug.getinfo at levels 1..3 and debug.traceback, around ordinary returns, tail calls, error unwinding and coroutine
    switches: the hook runs at the very moment a continuation is handed back to the pools"""
    mask = rng.choice(["r", "cr", "c", "crl", "r"])
    count = rng.choice([0, 0, 3, 7])
    n = rng.choice([1, 2, 5])
    return "hooks", ("local events = {}\n"
                     "local function name(i) if not i then return 'none' end return tostring(i.name) .. '@' .. tostring(i.currentline) .. '/' .. tostring(i.what) end\n"
                     "local function hook(ev, line)\n"
                     "  local i1, i2, i3 = debug.getinfo(1), debug.getinfo(2), debug.getinfo(3)\n"
                     "  local e = ev .. ':' .. tostring(line) .. ':' .. name(i1) .. ':' .. name(i2) .. ':' .. name(i3)\n"
                     "  if ev == 'return' or ev == 'tail call' then e = e .. ':' .. (debug.traceback('tb', 2):gsub('\\n', '|')) end\n"
                     "  events[#events + 1] = e\nend\n"
                     "local function leaf(x) local y = x + 1 return y end\n"
                     "local function mid(x) local z = leaf(x) * 2 return z end\n"
                     "local function top(x) return mid(x) end\n"
                     "local function thrower(k) local a = k if k == 0 then error('bottom') end return thrower(k - 1) + a end\n"
                     "local function gen(k) for i = 1, k do coroutine.yield(leaf(i)) end return 'fin' end\n"
                     "local function work(k)\n  local s = top(k)\n  local ok, e = pcall(thrower, 2)\n"
                     "  local w = coroutine.wrap(gen) s = s + w(2) + w()\n  return s, ok, e\nend\n"
                     "local function flush(tag) emit(tag, #events) for i = 1, #events do emit(events[i]) end events = {} end\n"
                     "debug.sethook(hook, '%s', %d)\nlocal r1, r2, r3 = work(%d)\ndebug.sethook()\nflush('main') emit(r1, r2, r3)\n"
                     "local co = coroutine.create(function(x) local r = top(x) local ok = pcall(thrower, 1) return r, ok end)\n"
                     "debug.sethook(co, hook, '%s')\nemit(coroutine.resume(co, %d))\ndebug.sethook(co)\nflush('co')\n"
                     % (mask, count, n, rng.choice(["r", "cr"]), n))


def gc_program(rng):
    """finalisers observed through emit, made deterministic by limited contexts (a context's finalisers run when it ends):
    tables with __gc created, re-marked (with / without __gc, nil), also across nested contexts; contexts ended normally,
    by error or killed.  Needs the runtime library, so the noquotas build is not compared.  Finalisers do not compare
    their argument with the original (see known finding C14-finalizer-argument-is-a-clone)."""
    src = ["local function fin(name) return {__gc = function(x) emit('gc', name, x.tag) end} end"]
    cnt = [0]
    live = []      # global names of every value created so far (any context)

    def fresh(p):
        cnt[0] += 1
        return "%s%d" % (p, cnt[0])

    def body(depth, ind):
        for _ in range(1 + rng.below(4)):
            r = rng.below(100)
            if r < 35:
                v = fresh("v")
                src.append("%s%s = setmetatable({tag = '%s'}, fin('%s'))" % (ind, v, v, fresh("f")))
                live.append(v)
            elif r < 60 and live:
                v = rng.choice(live)
                how = rng.below(8)
                if how >= 6:
                    # __gc inserted into (or replaced in) the metatable the value currently has, without a new setmetatable
                    src.append("%sdo local m = getmetatable(%s) if m then m.__gc = function(x) emit('gc', '%s', x.tag) end end end" % (ind, v, fresh("late")))
                elif how == 5:
                    src.append("%ssetmetatable(%s, getmetatable(%s))" % (ind, v, v))     # same metatable: still a re-marking
                elif how < 3:
                    src.append("%ssetmetatable(%s, fin('%s'))" % (ind, v, fresh("f")))
                elif how == 3:
                    src.append("%ssetmetatable(%s, {})" % (ind, v))
                else:
                    src.append("%ssetmetatable(%s, nil)" % (ind, v))
            elif r < 85 and depth < 3:
                kind = rng.choice(["ok", "ok", "error", "kill"])
                src.append("%sdo local ctx = runtime.callcontext({kill = {%s}}, function()" % (ind, rng.choice(
                    ["cpu = 1000000", "memory = 100000000", "cpu = 1000000, memory = 100000000", "cpu = 1000000"])))
                body(depth + 1, ind + "  ")
                if kind == "error":
                    src.append("%s  error('boom')" % ind)
                elif kind == "kill":
                    src.append("%s  runtime.killcontext()" % ind)
                src.append("%send) emit(ctx.status) end" % ind)
            else:
                src.append("%semit('%s')" % (ind, fresh("m")))
    src.append("runtime.callcontext({kill = {cpu = 10000000}}, function()")
    body(1, "  ")
    body(1, "  ")
    src.append("end)")
    src.append("emit('end')")
    return "gc-contexts", "\n".join(src) + "\n"


def t_tbc_errors(rng):
    """to-be-closed variables whose handlers look at the stack (debug.traceback inside __close while the function
    returns), fail, or have lost their __close metamethod when the scope/function is left: the error paths in which a
    continuation released too early is still dereferenced (traceback parent, error position)"""
    n = rng.choice([1, 2, 5])
    b = rng.choice([3, 20, 120])
    return "tbc-errors", ("local function mk(tag) return setmetatable({}, {__close = function(_, e) emit(tag, e ~= nil, debug.traceback('in close')) end}) end\n"
                          "local function leaf(n) local a <close> = mk('leaf' .. n) local t = {n} return #t + n end\n"
                          "local function mid(n) local b <close> = mk('mid' .. n) local r = leaf(n) return r + 1 end\n"
                          "local function bad(n) local c <close> = setmetatable({}, {__close = function() error('close fails ' .. n) end}) local d <close> = mk('bad' .. n) return n end\n"
                          "local function scoped(n) do local e <close> = setmetatable({}, {__close = function() error('scoped ' .. n) end}) end return n end\n"
                          "local function lost(n) local a, b = n, n local mt = {__close = function() end} local x <close> = setmetatable({}, mt) mt.__close = nil return a + b end\n"
                          "local function lost2(n) local a = n local mt = {__close = function() end} do local x <close> = setmetatable({}, mt) mt.__close = nil end return a end\n"
                          "local function busy(n) if n == 0 then return 0 end local p, q = n, n return busy(n - 1) + p - q end\n"
                          "for i = 1, %d do\n  emit(mid(i)) emit(xpcall(bad, debug.traceback, i)) emit(busy(%d))\n"
                          "  emit(xpcall(scoped, debug.traceback, i)) emit(mid(i))\n"
                          "  emit(pcall(lost, i)) emit(busy(%d)) emit(pcall(lost2, i)) emit(xpcall(lost, debug.traceback, i)) emit(busy(7))\nend\n" % (n, b, b))


TEMPLATES = [t_memlimit, t_xpcall_threads, t_hooks, t_tbc_errors, t_traceback, t_close, t_reentrant, t_deep, t_tail, t_unwind, t_coro, t_closures, t_live, t_regsizes, t_varargs, t_gocalls]


def rand_program(rng):
    """random composition: a set of functions of different arities/local counts calling each other by a
    random acyclic call table, with pcall/error/coroutine wrappers chosen per edge"""
    nf = 3 + rng.below(8)
    src = []
    for i in range(nf - 1, -1, -1):
        nloc = rng.choice([1, 2, 3, 4, 6, 9, 13, 18, 26])
        ls = ", ".join("v%d" % j for j in range(nloc))
        init = ", ".join("n + %d" % j for j in range(nloc))
        body = ["local function F%d(n, ...)" % i, "  local %s = %s" % (ls, init), "  local r = v0"]
        body.append("  if n <= 0 then return r, select('#', ...) end")
        for _ in range(1 + rng.below(3)):
            if i + 1 >= nf:
                break
            j = i + 1 + rng.below(nf - i - 1)
            kind = rng.below(6)
            if kind == 0:
                body.append("  r = r + F%d(n - 1, r)" % j)
            elif kind == 1:
                body.append("  do local ok, e = pcall(F%d, n - 1, r, ...) r = r + (ok and e or 1) end" % j)
            elif kind == 2:
                body.append("  do local ok, e = pcall(function() if n %% 3 == 0 then error({n}) end return F%d(n - 2) end) r = r + (ok and e or e[1]) end" % j)
            elif kind == 3:
                body.append("  do local co = coroutine.wrap(function(a) local x = F%d(a) coroutine.yield(x) return x + 1 end) r = r + co(n - 1)%s end"
                            % (j, " + co()" if rng.chance(1, 2) else ""))
            elif kind == 4:
                body.append("  r = r + (function(...) return select('#', ...) + F%d(n - 1, ...) end)(%s)" % (j, ", ".join("v%d" % (q % nloc) for q in range(rng.below(5)))))
            else:
                body.append("  if n %% 2 == 0 then return F%d(n - 1, r, ...) end" % j)
        chk = " or ".join("v%d ~= n + %d" % (j, j) for j in range(nloc))
        body.append("  if %s then error('register corrupted in F%d') end" % (chk, i))
        body.append("  return r, ...")
        body.append("end")
        src.append("\n".join(body))
    calls = []
    for _ in range(2 + rng.below(4)):
        calls.append("emit(pcall(F0, %d, %s))" % (rng.choice([0, 1, 2, 3, 5, 8]), ", ".join(str(rng.below(9)) for _ in range(rng.below(4))) or "nil"))
    return "random", "\n".join(src) + "\n" + "\n".join(calls) + "\n"


def lua_line(cid, src):
    return "%s %s" % (cid, src.encode().hex())


def run(tier, seed):
    ck = vlib.Check("C14", tier, seed, level="proof")
    ok_obl = ck.obligations(PROP, clean=False)
    if tier == "thorough" and ok_obl:
        if not ck.coqchk(["GV.Properties.C14"]):
            ok_obl = False
            ck.cov["obligation_failure"] = "coqchk rejects Properties/C14.vo: " + str(ck.cov.get("coqchk", {}).get("tail", ""))[-300:]
    rng = ck.rng

    ck.log("obligations done")
    # ---------------- hook-level correspondence
    gvp, err = ck.build_gvh(pkg="./cmd/gvh-pool", name="gvh-pool_verif", overlay=os.environ.get("VERIF_OVERLAY"))
    oracle = ck.build_oracle("pool") if gvp else None
    ndiff = 0
    pred_fail = 0
    if gvp is None:
        ck.violation("pool harness does not build against /repo", {"kind": "build", "stderr": err[-3000:]}, no_input=True)
    elif oracle is None:
        ck.violation("oracle (extracted model) does not build", {"kind": "build"}, no_input=True)
    else:
        nreg = 6000 if tier == "quick" else 100000
        ncont = 2000 if tier == "quick" else 30000
        reg_lines, cont_lines = [], []
        for i in range(nreg):
            kind = "v" if i % 2 == 0 else "c"
            size = 10 if i % 10 else rng.choice([0, 1, 5, 9, 10, 11, 16])
            age = rng.choice([10, 10, 10, 0, 1, 2, 5, 50])
            reg_lines.append("p%d %s %x %x %s" % (i, kind, size, age, ";".join(rand_reg_history(rng))))
        for i in range(ncont):
            kind = "l" if i % 2 == 0 else "g"
            cont_lines.append("c%d %s %s" % (i, kind, ";".join(rand_cont_history(rng, kind))))
        for mode, lines in (("reg", reg_lines), ("cont", cont_lines)):
            rc1, impl, e1 = vlib.run_lines(gvp, [mode], lines, timeout=1800)
            rc2, model, e2 = vlib.run_lines(oracle, [mode], lines, timeout=1800)
            if rc1 != 0 or len(impl) != len(lines):
                ck.violation("gvh-pool %s crashed or produced %d/%d lines" % (mode, len(impl), len(lines)),
                             {"kind": "crash", "stderr": e1[-2000:], "last_line": lines[min(len(impl), len(lines) - 1)][:2000]})
            if rc2 != 0 or len(model) != len(lines):
                ck.violation("oracle crashed (%d/%d lines)" % (len(model), len(lines)), {"kind": "oracle-crash", "stderr": e2[-2000:]}, no_input=True)
            first = None
            for i, l in enumerate(lines):
                if i >= len(impl):
                    break
                body = impl[i].split(" ", 1)[1]
                res = body.rsplit(" ", 1)[0] if mode == "cont" else body[:body.rfind("S:")].strip()
                outs = res.split("/") if res else []
                ck.case(l.split(" ", 1)[1], any(o.startswith("gr") for o in outs))
                ck.count("hook:" + mode)
                hdr = l.split(" ")
                size10 = True      # regpool.go loops to the pool's own length since the WithRegPoolSize repair: a panic is a failure for any size
                for o in outs:
                    ck.count("hook-outcome:" + o.split(":")[0])
                    # property-level predicate on the Go output alone: what a get returns is zeroed and of the right size
                    if o.startswith("g") and not o.startswith("gp") and not o.endswith(":1"):
                        pred_fail += 1
                        if pred_fail <= 3:
                            ck.violation("a pool handed out an object that is not zeroed",
                                         {"kind": "Go!=S", "engine": "pool/" + mode, "history": l, "impl": impl[i][:3000], "theorems": THEOREMS})
                    if o in ("rp",) or o.startswith("gp"):
                        if size10:
                            pred_fail += 1
                            if pred_fail <= 3:
                                ck.violation("pool operation panicked", {"kind": "Go!=S", "engine": "pool/" + mode, "history": l, "impl": impl[i][:3000]})
                # requested sizes are honoured
                if mode == "reg":
                    gi = 0
                    ops = l.split(" ", 4)[4].split(";")
                    for o, op in zip(outs, ops):
                        if op.startswith("G") and o[:2] in ("gf", "gr"):
                            want = int(op.split()[1], 16)
                            got = int(o.split(":")[2], 16)
                            if want != got:
                                pred_fail += 1
                                if pred_fail <= 3:
                                    ck.violation("a pool returned a register set of the wrong size",
                                                 {"kind": "Go!=S", "engine": "pool/reg", "history": l, "impl": impl[i][:3000]})
                if i < len(model) and impl[i] != model[i]:
                    ndiff += 1
                    if first is None:
                        first = i
            if first is not None and not pred_fail:
                ck.cov.setdefault("first_hook_differences", []).append({"mode": mode, "history": lines[first][:1500], "impl": impl[first][:1500], "model": model[first][:1500]})
            if lines and impl:
                ck.sample({"hook": mode, "history": lines[1][:200], "impl": impl[1].split(" ", 1)[1][:200]})

    ck.log("hook-level done")
    # ---------------- cross-configuration
    bins = {}
    excluded = {}
    from concurrent.futures import ThreadPoolExecutor
    with ThreadPoolExecutor(max_workers=3) as ex:
        bf = {name: ex.submit(ck.build_gvh, tags, False, "gvh_c14_" + "_".join(tags[1:] or ("default",)), "./cmd/gvh",
                              os.environ.get("VERIF_OVERLAY")) for name, tags in CONFIGS}
        for name, fu in bf.items():
            b, err = fu.result()
            if b is None:
                excluded[name] = err[-600:]
            else:
                bins[name] = b
    ck.cov["configurations_built"] = sorted(bins)
    ck.cov["configurations_excluded"] = excluded
    if "default" not in bins:
        ck.violation("default Lua runner does not build", {"kind": "build", "stderr": excluded.get("default", "")}, no_input=True)
        return ck.finish("n/a", TRUSTED, [])
    for name in excluded:
        ck.violation("configuration %s does not build: the option changes behaviour in the strongest way" % name,
                     {"kind": "build", "configuration": name, "stderr": excluded[name]}, no_input=True)
    ck.log("configurations built: %s" % sorted(bins))
    programs = []
    skip = {}           # program index -> configurations that cannot run it (noquotas has no runtime library)
    corpus = os.path.join(vlib.VERIF, "corpus", "C14")
    if os.path.isdir(corpus):
        for fn in sorted(os.listdir(corpus)):
            if fn.endswith(".lua"):
                src = open(os.path.join(corpus, fn)).read()
                m = re.match(r"--\s*configs:\s*(.*)", src)
                if m:
                    skip[len(programs)] = set(x[1:] for x in m.group(1).split() if x.startswith("!"))
                programs.append(("corpus:" + fn, src))
    reps = 12 if tier == "quick" else 150
    for t in TEMPLATES:
        for _ in range(reps):
            if t is t_memlimit:
                skip[len(programs)] = {"noquotas"}       # needs the runtime library
            programs.append(t(rng))
    nrand = 1000 if tier == "quick" else 20000
    for _ in range(nrand):
        programs.append(rand_program(rng))
    ngc = 150 if tier == "quick" else 3000
    for _ in range(ngc):
        skip[len(programs)] = {"noquotas"}
        programs.append(gc_program(rng))
    lines = [lua_line("P%d" % i, src) for i, (_, src) in enumerate(programs)]
    # the C01 language stream (lib/gen_lua.ProgramGen, the generator of the LuaCore comparison): broad language coverage
    nlang = 300 if tier == "quick" else 6000
    lang_cases = []
    try:
        from lib import gen_lua
        for j in range(nlang):
            g = gen_lua.ProgramGen(rng.fork(), None)
            body, tuples, _f = g.program()
            src = gen_lua.render(body, j % len(gen_lua.STYLES), vlib.SplitMix64(rng.next() & 0xFFFFFFF))
            args = ",".join(tuples[0]) or "-"
            lang_cases.append({"ast": body, "style": 0, "args": tuples[0], "rseed": 1})
            programs.append(("language-stream", src))
            lines.append("P%d %s args=%s" % (len(lines), src.encode("latin1").hex(), args))
    except Exception as ex:                                   # the shared generator is another agent's file
        ck.notes.append("language stream not available: %r" % (ex,))
        del programs[len(lines):]
    ck.cov["language_stream_programs"] = len(lang_cases)
    outs = {}

    def run_config(b):
        """all programs on one binary; gives up on a configuration after 8 crashes/hangs (a broken pool can hang every program)"""
        res, bad = [], 0
        for a in range(0, len(lines), 60):
            chunk = vlib.run_lines_resilient(b, ["lua"], lines[a:a + 60], 20)
            res += chunk
            bad += sum(1 for o in chunk if o.split(" ")[1:2] in (["HANG"], ["CRASH"]))
            if bad >= 8:
                res += ["%s SKIPPED" % l.split(" ", 1)[0] for l in lines[len(res):]]
                break
        return res
    with ThreadPoolExecutor(max_workers=len(bins)) as ex:
        futs = {name: ex.submit(run_config, b) for name, b in bins.items()}
        for name, fu in futs.items():
            outs[name] = fu.result()
    # compare what the property is about: status, event trace, results, error, stdout, context status — not the
    # measurements the shared runner appends (A: heap bytes, W: wall-clock microseconds, ...)
    def canon(l):
        f = l.split(" ")
        if len(f) > 2 and f[1] in ("ok", "error", "compile_error", "killed", "gopanic"):
            return " ".join(f[:2] + [t for t in f[2:] if t[:2] in ("T:", "R:", "E:", "O:", "X:")])
        return l
    outs = {name: [canon(l) for l in ls] for name, ls in outs.items()}
    ck.log("%d programs run on %d configurations" % (len(programs), len(bins)))
    base = outs["default"]
    cross_fail = 0
    for i, (kind, src) in enumerate(programs):
        ck.count("program:" + kind)
        if i >= len(base):
            break
        status = base[i].split(" ")[1] if " " in base[i] else "?"
        ck.count("status:" + status)
        ck.case(src, status in ("ok", "error"))
        if status == "SKIPPED":
            continue
        if status in ("CRASH", "HANG", "gopanic"):
            cross_fail += 1
            if cross_fail <= 3:
                others = {name: (outs[name][i][:600] if i < len(outs[name]) else "<missing>") for name in bins if name != "default"}
                fine = sorted(n for n, o in others.items() if o.split(" ")[1:2] in (["ok"], ["error"]))
                ck.violation("%s program: the default build ends with %s%s" % (kind, status, (" while " + ", ".join(fine) + " complete(s) normally") if fine else " (as do the other builds)"),
                             {"kind": "Go!=S", "engine": "lua", "source": src, "default": base[i][:2000], "other_configurations": others,
                              "theorems": THEOREMS})
            continue
        if "corrupt" in base[i] or "636f7272757074" in base[i]:
            cross_fail += 1
            if cross_fail <= 3:
                ck.violation("a function observed its own registers corrupted (default build)",
                             {"kind": "Go!=S", "engine": "lua", "source": src, "default": base[i][:2000]})
            continue
        for name in bins:
            if name == "default" or name in skip.get(i, ()):
                continue
            o = outs[name][i] if i < len(outs[name]) else "<missing>"
            if o.endswith(" SKIPPED"):
                continue
            if o != base[i]:
                tf = lambda l: ([t for t in l.split(" ") if t.startswith("T:")] or [l])[0]
                kf = ck.known_match(lambda k: k.get("match", {}).get("program") == kind and k["match"].get("configuration") == name
                                    and k["match"].get("default_trace") == tf(base[i]) and k["match"].get("other_trace") == tf(o))
                if kf is not None:
                    ck.known_finding(kf)
                    ck.count("known:" + kf["id"])
                    continue
                cross_fail += 1
                ck.count("cross-difference:" + name)
                if cross_fail <= 3:
                    ck.violation("configuration %s behaves differently from the default build on a %s program" % (name, kind),
                                 {"kind": "Go!=S", "engine": "lua", "configuration": name, "source": src,
                                  "default": base[i][:2000], name: o[:2000], "theorems": THEOREMS})
                break
    # informational: how many language-stream programs also agree with LuaCore (disagreements are C01's to report)
    try:
        if lang_cases and os.path.exists(os.path.join(vlib.ORACLE, "luacore", "oracle.exe")) and tier == "thorough":
            from lib import luacore
            res = luacore.run_both(ck, lang_cases[:1000], bins["default"], os.path.join(vlib.ORACLE, "luacore", "oracle.exe"))
            ck.cov["luacore_agreement"] = {"compared": len(res), "equal": sum(1 for g, o in res if g == o)}
    except Exception as ex:
        ck.notes.append("LuaCore comparison skipped: %r" % (ex,))
    ck.sample({"program": programs[len(TEMPLATES) * reps][1][:500], "default": base[len(TEMPLATES) * reps][:200] if len(base) > len(TEMPLATES) * reps else None})
    if ndiff and not pred_fail and not cross_fail:
        d = ck.cov.get("first_hook_differences", [{}])[0]
        ck.violation("pools no longer match the Coq models Pool/RegPool.v, Pool/ContPool.v (Go≈IM/pool); the six configurations still agree on %d programs" % len(programs),
                     {"kind": "Go!=IM", "correspondence": "Go≈IM/pool", "first": d, "differences": ndiff,
                      "theorems_no_longer_about_this_code": THEOREMS}, no_input=True)
    if not ok_obl:
        ck.violation("proof obligations of C14 no longer check: " + str(ck.cov.get("obligation_failure", ""))[:300],
                     {"kind": "proof", "theorem_file": PROP, "detail": ck.cov.get("obligation_failure")},
                     no_input=(pred_fail == 0 and cross_fail == 0))
    ck.cov["correspondence_differences"] = ndiff
    ck.cov["predicate_failures"] = pred_fail
    ck.cov["cross_configuration_failures"] = cross_fail
    ck.cov["programs"] = len(programs)
    return ck.finish(
        rule="hook level: random get/release histories on real valuePool/cellPool (13 size classes incl. 0, pool sizes 0..16, maxAge 0..50, "
             "releases of unknown slices) and luaContPool/goContPool (incl. overfilling); cross-configuration: %d template instances "
             "(deep/tail recursion, error unwinding, abandoned coroutines, closures outliving frames, >100 live continuations, 11+ register-set sizes, "
             "varargs, Go-function callbacks) + %d random call-graph programs with self-checking registers, each run on %d builds; "
             "non-trivial = some get reused a pooled object (hook) / program ran to a result or a Lua error (cross); distinct by input text"
             % (len(TEMPLATES) * reps, nrand, len(bins)),
        trusted_base=TRUSTED,
        assumptions=["programs do not use the runtime library (absent under noquotas), the collector, addresses or pairs order",
                     "client discipline of the pools (a released register set / continuation is not used again) is assumed by the theorems and tested by the cross-configuration runs"])


def replay(path, seed):
    r = json.load(open(path))
    ck = vlib.Check("C14", "quick", seed)
    if r.get("engine") == "lua":
        for name, tags in CONFIGS:
            b, _ = ck.build_gvh(tags=tags, name="gvh_c14_" + "_".join(tags[1:] or ("default",)), overlay=os.environ.get("VERIF_OVERLAY"))
            if b:
                out = vlib.run_lines_resilient(b, ["lua"], [lua_line("r", r["source"])])
                print("%-22s %s" % (name, out[0][:600]))
        return 0
    gvp, _ = ck.build_gvh(pkg="./cmd/gvh-pool", name="gvh-pool_verif", overlay=os.environ.get("VERIF_OVERLAY"))
    oracle = ck.build_oracle("pool")
    mode = r.get("engine", "pool/reg").split("/")[1]
    line = r.get("history") or r.get("first", {}).get("history")
    _, a, _ = vlib.run_lines(gvp, [mode], [line])
    _, b, _ = vlib.run_lines(oracle, [mode], [line])
    print("impl :", a[0] if a else None)
    print("model:", b[0] if b else None)
    return 0
