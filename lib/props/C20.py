# C20 — independent runtimes are isolated, also when used from different goroutines.
#
#  translator        : translate/globals (go/packages + go/ssa) regenerates coq/theories/Iso/Generated.v
#                      from /repo's source on EVERY run: package-level variables of the module's packages
#                      (+ curated process-global state of the stdlib) and the functions that write them
#                      outside package initialisers
#  proof obligations : coq/theories/Properties/C20.v — noninterference for every schedule and any number of
#                      runtimes given "no step writes the shared component" (Iso/Noninterf.v), and by
#                      vm_compute on the regenerated table "no variable has a writer outside init"
#                      minus allow.txt, known findings excepted (Iso/Check.v)
#  dynamic tie       : gvh-iso runs pairs of generated programs in separate Runtime values: alone,
#                      interleaved chunk by chunk on one goroutine under a generated schedule, and
#                      concurrently on two goroutines (runtime creation and library loading included),
#                      normal and -race builds, GOMAXPROCS 1/2/4/16; each trace must equal the solo trace
import json
import os
import re

from lib import vlib

PROP = ["Properties/C20.v"]
TRUSTED = [
    "Coq 8.16.1 kernel (coqc); vm_compute for the finite, regenerated table (Iso/Check.v) and Examples",
    "no axioms (Print Assumptions: closed under the global context for every C20 theorem)",
    "translator translate/globals (our Go code) + golang.org/x/tools v0.29.0 go/packages, go/ssa: summary-based, field-insensitive "
    "write analysis over static calls (interface/dynamic calls and closures' free variables are not followed); curated list of "
    "state-changing stdlib APIs (math/rand top-level functions, runtime/debug.Set*, os.Setenv/Chdir, log.Set*, signal.*)",
    "translate/globals/allow.txt: 8 entries (5 write-through artefacts + os.Stdin/Stdout/Stderr as by-design shared streams) are artefacts of field-insensitivity (never hides a direct assignment)",
    "the link between Iso/Noninterf.v's shared component G and the generated table is informal: G = the package-level variables; "
    "a variable without writers outside init is constant after program start",
    "Go harness harness/cmd/gvh-iso; Python generator/diff lib/props/C20.py; Go race detector for data races (observed, not proved)",
]

# ---- program snippets.  Victim snippets observe; each emits with a tag as first argument.
LIM_SNIPPET = 'emit("lim", tostring(runtime.context().kill.cpu), tostring(runtime.context().kill.memory), runtime.context().flags)'
# observers of the metatables of library values (context objects, resources, files, strings, coroutines)
META_VICTIM = [
    'local c = runtime.context() emit("cmt", tostring(c), c.status, type(c.used), tostring(c.kill), tostring(c.kill.cpu), c.flags, type(getmetatable(c).__index), type(getmetatable(c.kill).__tostring))',
    'local cc = runtime.callcontext({kill={cpu=100000}}, function() return 1 end) emit("ccmt", tostring(cc), cc.status, tostring(cc.kill.cpu), (tostring(cc.kill):gsub("memory=%d+", "memory=N")), type(cc.used.cpu), rawequal(getmetatable(cc), getmetatable(runtime.context())))',
    'emit("fmt2", io.type(io.stdout), type(io.stdout.write), type(getmetatable(io.stdout).__index.lines), getmetatable(io.stdout).__name, type(getmetatable("").__index.rep), getmetatable(coroutine.create(print)))',
]
VICTIM = [
    'x = (x or 0) + 1 emit("g", x)',
    'emit("s", ("abc"):upper(), #("x"):rep(3), ("a,b"):find(",", 1, true))',
    'emit("fmt", ("%d-%s-%5.2f"):format(5, "z", 1.5))',
    'emit("mt", getmetatable("").__index == string, type(getmetatable("").__add))',
    'emit("ty", type(print), tostring(12), select("#", 1, 2, 3), math.type(1), math.type(1.0))',
    'local t = {3, 1, 2} table.sort(t) emit("tab", table.concat(t, ","), #t, table.unpack(t))',
    'emit("pc", pcall(error, "boom"))',
    'emit("pc2", pcall(function() local n = nil return n.x end))',
    'local c = runtime.callcontext({kill={cpu=2000}}, function() local i = 0 while true do i = i + 1 end end) emit("q", tostring(c))',
    'local c, v = runtime.callcontext({kill={memory=50000}}, function() local t = {} for i = 1, 100000 do t[i] = {i} end return 1 end) emit("qm", tostring(c), v)',
    'emit("ld", load("return 1 + 1")(), load("syntax error here"))',
    'emit("pk", package.loaded.string == string, package.loaded._G == _G, type(package.path))',
    'emit("co", coroutine.wrap(function(a) local b = coroutine.yield(a + 1) return b * 2 end)(1))',
    'y = {n = (y and y.n or 0) + 1} setmetatable(y, {__index = function(_, k) return k .. "!" end}) emit("mi", y.n, y.foo)',
    'emit("u8", utf8.char(228, 8364), utf8.len("\\xc3\\xa4"), #string.pack("i4", 7))',
    'emit("num", math.abs(-3), math.floor(2.5), math.max(1, 2), 7 // 2, 7 % -3, 2 ^ 10, 1 << 62, math.maxinteger + 1 == math.mininteger, tostring(1e15))',
    'emit("env", _VERSION, type(_G), _G._G == _G, rawlen({1, 2}), next({}))',
    'io.write("w") print("p", 1) emit("io", io.type(io.stdout), tostring(io.stdout):sub(1, 4))',
    'emit("ctx", tostring(runtime.context()), runtime.context().flags)',
    'local ok, e = pcall(string.rep) emit("err", ok, e)',
    'emit("lim", tostring(runtime.context().kill.cpu), tostring(runtime.context().kill.memory), runtime.context().flags)',
    'emit("pat", ("hello world"):match("(%w+) (%w+)"), ("a1b22c333"):gsub("%d+", "#"), ("x=1, y=2"):find("(%w+)=(%w+)"))',
    'local n = 0 for i = 1, 200 do for w in ("k1=v1;k2=v2;k3=v3"):gmatch("(%w+)=%w+") do n = n + #w end if ("abc" .. i):match("^%a+(%d+)$") then n = n + 1 end end emit("patloop", n)',
    'emit("g2", rawget(_G, "hacked"), rawget(_G, "x") == x, type(string.upper), type(tostring))',
]
# observers of the process's standard streams as seen through this runtime's io library (never the content of stdin:
# the descriptor is shared by design and every runtime reads ahead)
STD_VICTIM = [
    'emit("std", io.stdout:write("o") == io.stdout, io.stderr:write("e") == io.stderr, io.write("w") == io.stdout, io.stdin:read(0))',
    'emit("std2", select(2, io.stderr:write("x")), select(2, io.stdout:write("y")), io.type(io.stdout), io.type(io.stderr), io.type(io.stdin), select(2, io.stdin:read(0)), io.stdout:flush() == io.stdout)',
]
# programs that try to get rid of the standard files
STD_ADVERSARY = [
    'do local f <close> = io.stdout end do local g <close> = io.stderr end do local h <close> = io.stdin end',
    'io.stdout = nil io.stderr = nil io.stdin = nil collectgarbage() collectgarbage()',
    'pcall(io.close) pcall(io.close, io.stderr) pcall(function() io.stdout:close() end) pcall(function() io.output():close() end) pcall(function() io.input():close() end)',
    'local so, se = io.stdout, io.stderr io.output(se) io.write("z") pcall(io.close) io.output(so) setmetatable({}, {__gc = function() pcall(io.close, se) end})',
]
# tracebacks / stack walks THROUGH the Go functions that exist once per process and are installed in every runtime
# (next, the ipairs iterator, package.searchers[1], the context's stopnow/killnow), and package.config / searchpath
TB_VICTIM = [
    'local ok, tb = xpcall(function() return next({}, "nokey") end, debug.traceback) emit("tb", ok, type(tb), tb:find("next", 1, true) ~= nil)',
    'local n = 0 local t = setmetatable({}, {__index = function(_, i) if i < 3 then n = n + #debug.traceback() + (debug.getinfo(2) and 1 or 0) return i end end}) for i, v in ipairs(t) do end emit("tb2", n > 0)',
    'local ok, e = xpcall(package.searchers[1], debug.traceback) local ok2, e2 = xpcall(function() runtime.context().stopnow(42) end, debug.traceback) emit("tb3", ok, type(e), ok2, type(e2))',
    'emit("sp", package.config, select(2, package.searchpath("no.such.mod", "./?.lua;./?/init.lua")), (select(2, pcall(require, "no.such.mod2"))))',
]
CONFIG_ADVERSARY = [
    'package.config = "\\\\\\n:\\n%\\n!\\n-\\n" package.searchpath("a.b", "./%.lua:./%/init.lua") pcall(require, "zz.yy")',
    'package.config = "|\\n,\\n@\\n" pcall(package.searchpath, "q.r", "./@.lua") package.path = "./@.lua"',
]
VICTIM += META_VICTIM + STD_VICTIM + TB_VICTIM
RNG_VICTIM = [
    'math.randomseed(5)',
    'emit("rng", math.random(1, 1000))',
    'emit("rng", math.random(1, 1000), math.random(1, 1000))',
    'emit("rng", math.random(0, math.maxinteger), math.random(math.mininteger, -1), math.random(math.mininteger, math.maxinteger), math.random(-10, math.maxinteger))',
    'emit("rng", math.random(0), math.random(), math.random(3))',
]
GC_VICTIM = ['emit("gc", collectgarbage("isrunning"))']
# adversaries that fetch and modify every metatable reachable from library values
META_ADVERSARY = [
    'local function wreck(v) local mt = debug.getmetatable(v) if type(mt) == "table" then for k in pairs(mt) do rawset(mt, k, nil) end '
    'rawset(mt, "__index", function() return "HACKED" end) rawset(mt, "__tostring", function() return "HACKED" end) rawset(mt, "__name", "HACKED") end end '
    'local c = runtime.context() local k, st, u = c.kill, c.stop, c.used wreck(k) wreck(st) wreck(u) wreck(c) wreck(io.stdout) wreck(io.stdin) wreck("") wreck(coroutine.create(print)) wreck(print)',
    'local seen = {} local function walk(v, d) if d > 5 or seen[v] then return end local t = type(v) if t ~= "table" and t ~= "userdata" then return end seen[v] = true '
    'local mt = debug.getmetatable(v) if type(mt) == "table" and not seen[mt] then seen[mt] = true rawset(mt, "__index", function() return "WALKED" end) rawset(mt, "__tostring", function() return "WALKED" end) end '
    'if t == "table" then for k, x in next, v do walk(x, d + 1) end end end '
    'local c = runtime.context() local vals = {c, c.kill, c.used, runtime.callcontext({}, function() end), io.stdout, io.stderr, package.loaded, _G} for i = 1, #vals do walk(vals[i], 0) end',
    'local c = runtime.context() getmetatable(c.kill).__index = nil getmetatable(c).__tostring = function() return "B" end debug.setmetatable(c, nil)',
]
ADVERSARY = [
    'print = nil tostring = function() return "B" end type = nil select = nil',
    'string.upper = function() return "HACKED" end string.format = nil string.rep = nil',
    'hacked = true x = "B" y = 7 emit = emit',
    'debug.setmetatable("", {__index = function() return function() return "B" end end})',
    'getmetatable("").__index = {} getmetatable("").__add = nil',
    'setmetatable(_G, {__index = function() return 1 end, __newindex = function() end})',
    'package.loaded.string = nil package.path = "B" package.loaded._G = 1',
    'table.concat = nil table.sort = nil table.unpack = nil math.type = nil utf8 = nil',
    'error("B fails")',
    'error({code = 1})',
    'local n = nil n.x = 1',
    'this is not lua',
    'runtime.callcontext({kill={memory=20000}}, function() local t = {} for i = 1, 1000000 do t[i] = i end end)',
    'runtime.callcontext({kill={cpu=500}}, function() while true do end end)',
    'local s = "x" for i = 1, 18 do s = s .. s end emit("big", #s)',
    'io.stdout:write("noise") io.write("more") print("B")',
    'pcall = function() return true end error = function() end load = nil',
    'coroutine.wrap = nil coroutine.yield = nil runtime = nil',
    'for k in pairs(_G) do if k ~= "emit" then _G[k] = nil end end',
    'debug.sethook(function() end, "", 1)',
    'collectgarbage("collect") collectgarbage("step")',
    'for i = 1, 300 do local _ = ("zz" .. i):find("z+%d") _ = ("q,r,s"):gsub("[^,]+", "%0%0") end',
]
ADVERSARY += META_ADVERSARY + STD_ADVERSARY + CONFIG_ADVERSARY
OPTIONS = ["cpu:1000000000", "cpu:3000", "regpool:20,regage:3", "cpu:60000,regpool:20", "mem:100000000", "cpu:1000000000,regpool:1,regage:1"]
RNG_ADVERSARY = ['math.randomseed(7)', 'math.random()', 'math.random(10) math.random(10)', 'math.random(0, math.maxinteger) math.random(math.mininteger, math.maxinteger) math.random(0)']
GC_ADVERSARY_STOP = 'collectgarbage("stop")'
GC_ADVERSARY_RESTART = 'collectgarbage("restart")'


def gen_pair(rng, kind):
    """kind: plain | rng | gc.  Returns (chunksA, chunksB, schedule, tags)"""
    na = 3 + rng.below(6)
    nb = 2 + rng.below(6)
    A = [rng.choice(VICTIM) for _ in range(na)]
    if rng.chance(1, 3):
        A = [rng.choice(VICTIM) + " " + rng.choice(VICTIM) for _ in range(na)]
    B = []
    for _ in range(nb):
        B.append(rng.choice(ADVERSARY) if rng.chance(3, 4) else rng.choice(VICTIM))
    if kind == "rng":
        A = [RNG_VICTIM[0]] + [rng.choice(RNG_VICTIM[1:]) if rng.chance(1, 2) else rng.choice(VICTIM) for _ in range(na)] + [RNG_VICTIM[1]]
        B = [rng.choice(RNG_ADVERSARY) if rng.chance(1, 2) else rng.choice(ADVERSARY) for _ in range(nb)] + [rng.choice(RNG_ADVERSARY)]
    if kind == "gc":
        A = [rng.choice(VICTIM), GC_VICTIM[0], rng.choice(VICTIM), GC_VICTIM[0]]
        B = [GC_ADVERSARY_STOP, rng.choice(ADVERSARY), GC_ADVERSARY_RESTART]
    sched = "".join(rng.choice("AB") for _ in range(len(A) + len(B)))
    if kind == "gc":
        sched = "ABABAAB"
    if kind == "close":
        # one runtime is closed by its host (or dropped and garbage collected) mid-way while the other keeps running
        A = [rng.choice(STD_ADVERSARY) if rng.chance(1, 2) else rng.choice(VICTIM) for _ in range(2 + rng.below(3))] + [STD_VICTIM[0]]
        B = [STD_VICTIM[0]] + [rng.choice(VICTIM) for _ in range(1 + rng.below(3))] + [STD_VICTIM[1], STD_VICTIM[0]]
        ka = 1 + rng.below(len(A))
        act = rng.choice(["a", "a", "x"])
        sched = "B" + "A" * ka + act + "B" * len(B)
        if rng.chance(1, 4):
            # the other way round: B ends, A goes on
            A, B = B, A
            sched = sched.replace("A", "_").replace("B", "A").replace("_", "B").replace("a", "b").replace("x", "y")
    if kind == "opt":
        # B (created without options, after A) is an observer that looks at its own limits and flags
        B = [LIM_SNIPPET] + [rng.choice(VICTIM) for _ in range(nb)] + [LIM_SNIPPET]
    return A, B, sched


def split_trace(hexs):
    s = bytes.fromhex(hexs).decode("utf-8", "replace")
    return s.split(";")


def diff_events(solo, other):
    """indices/events that differ"""
    out = []
    for i in range(max(len(solo), len(other))):
        a = solo[i] if i < len(solo) else None
        b = other[i] if i < len(other) else None
        if a != b:
            out.append((i, a, b))
    return out


def translate(ck, known_vars):
    tdir = os.path.join(vlib.VERIF, "translate")
    binp = os.path.join(vlib.WORK, "bin", "tr-globals")
    srcs = [os.path.join(root, f) for root, _, fs in os.walk(tdir) for f in fs if f.endswith((".go", ".mod", ".sum"))]
    if not (os.path.exists(binp) and os.path.getmtime(binp) >= max(os.path.getmtime(x) for x in srcs)):
        rc, so, se = vlib.sh(["go", "build", "-o", binp, "./globals"], cwd=tdir, timeout=600)
        if rc != 0:
            return None, "translator does not build: " + se[-2000:]
    out = os.path.join(vlib.COQ, "theories", "Iso", "Generated.v")
    diag = os.path.join(ck.work, "diag.json")
    cmd = [binp, "-repo", vlib.REPO, "-out", out + ".tmp", "-json", diag, "-allow", os.path.join(tdir, "globals", "allow.txt"),
           "-known", ",".join(known_vars)]
    rc, so, se = vlib.sh(cmd, cwd=tdir, timeout=900)
    ck.log("translator:", se.strip().splitlines()[-1] if se.strip() else rc)
    if rc != 0:
        return None, "translator failed on /repo: " + se[-2000:]
    new = open(out + ".tmp").read()
    old = open(out).read() if os.path.exists(out) else ""
    if new != old:
        os.replace(out + ".tmp", out)
    else:
        os.remove(out + ".tmp")
    return json.load(open(diag)), ""


RACE_RE = re.compile(r"WARNING: DATA RACE\n(.*?)\n==================", re.S)


def prove(ck, tier):
    """Re-check the proof obligations; the thorough tier rebuilds this property's own cone from scratch
    (only our directories: other checks may be building in the same tree) and runs coqchk."""
    if tier == "thorough":
        for d in ['Iso'] + ["Properties"]:
            dd = os.path.join(vlib.COQ, "theories", d)
            for f in os.listdir(dd):
                if f.endswith((".vo", ".vok", ".vos", ".glob")) and (d != "Properties" or f.startswith('C20.')):
                    os.remove(os.path.join(dd, f))
    ok = ck.obligations(PROP, clean=False)
    if ok and tier == "thorough":
        ok = ck.coqchk(['GV.Properties.C20'])
        if not ok:
            ck.cov["obligation_failure"] = "coqchk: " + str(ck.cov.get("coqchk"))
    return ok


def run(tier, seed):
    ck = vlib.Check("C20", tier, seed, level="proof")
    known_vars = {}
    for k in ck.known:
        if k.get("status") == "open":
            for v in k.get("match", {}).get("variables", []):
                known_vars[v] = k
    # ---------------- 1. translator (regenerates Iso/Generated.v) in parallel with the two harness builds
    from concurrent.futures import ThreadPoolExecutor
    pool = ThreadPoolExecutor(max_workers=3)
    ov = os.environ.get("VERIF_OVERLAY")
    f_plain = pool.submit(ck.build_gvh, ("verif",), False, "gvh_iso", "./cmd/gvh-iso", ov)
    f_race = pool.submit(ck.build_gvh, ("verif",), True, "gvh_iso_race", "./cmd/gvh-iso", ov)
    diag, err = translate(ck, sorted(known_vars))
    if diag is None:
        ck.violation(err[:300], {"kind": "translator", "detail": err}, no_input=True)
        return ck.finish("n/a", TRUSTED, [])
    rows = diag["rows"]
    written = [r for r in rows if r["writers"]]
    ck.cov["package_level_variables"] = len(rows)
    ck.cov["variables_with_writers_outside_init"] = {r["var"]: {"direct": r["direct"], "indirect": r["indirect"][:6],
                                                               "allowed": bool(r.get("allowed")), "known": bool(r.get("known"))} for r in written}
    ck.cov["allow_unused"] = diag.get("allow_unused") or []
    allowed_closers = set()
    for ln in open(os.path.join(vlib.VERIF, "translate", "globals", "close_callers.txt")):
        ln = ln.strip()
        if ln and not ln.startswith("#"):
            allowed_closers.add(ln.split(" # ")[0].strip())
    new_closers = [c for c in (diag.get("os_file_close_callers") or []) if c not in allowed_closers]
    ck.cov["os_file_close_callers"] = diag.get("os_file_close_callers")
    ck.cov["packages_loaded"] = diag.get("packages")
    ck.cov["variables_in_package_scopes"] = diag.get("vars_in_scopes")
    f_obl = pool.submit(prove, ck, tier)
    # ---------------- 2. dynamic: pairs of programs
    gvh, berr = f_plain.result()
    if gvh is None:
        f_obl.result()
        ck.violation("harness does not build against /repo", {"kind": "build", "stderr": berr[-3000:]}, no_input=True)
        return ck.finish("n/a", TRUSTED, [])
    gvh_race, berr = f_race.result()
    if gvh_race is None:
        ck.notes.append("race build failed: " + berr[-500:])
    ck.log("harness built (plain + race)")
    npairs = 240 if tier == "quick" else 6000
    pairs = []
    fresh_idx = []   # corpus pairs to be run ALSO in a fresh race-build process each, concurrent mode only
    cfile = os.path.join(vlib.VERIF, "corpus", "C20", "pairs.jsonl")
    if os.path.exists(cfile):
        for l in open(cfile):
            if l.strip():
                c = json.loads(l)
                pairs.append(("corpus", c["A"], c["B"], c["schedule"], c.get("opts")))
                if c.get("fresh"):
                    fresh_idx.append(len(pairs) - 1)
    ck.cov["corpus_pairs"] = len(pairs)
    for i in range(npairs):
        kind = "rng" if i % 10 == 3 else ("gc" if i % 50 == 7 else ("opt" if i % 6 == 5 else ("close" if i % 6 == 2 else "plain")))
        A, B, sched = gen_pair(ck.rng, kind)
        pairs.append((kind, A, B, sched, OPTIONS[(i // 6) % len(OPTIONS)] if kind == "opt" else None))
    lines = ["p%d %s %s %s%s" % (i, "\n--\n".join(A).encode().hex(), "\n--\n".join(B).encode().hex(), sched, " opts=" + o if o else "")
             for i, (kind, A, B, sched, o) in enumerate(pairs)]
    k_rng = next((k for k in ck.known if k.get("status") == "open" and k.get("match", {}).get("tag") == "rng"), None)
    k_gc = next((k for k in ck.known if k.get("status") == "open" and k.get("match", {}).get("tag") == "gc"), None)
    k_race = next((k for k in ck.known if k.get("status") == "open" and k.get("match", {}).get("race_frame")), None)
    nviol = 0

    def evaluate(outs, label, sub):
        nonlocal nviol
        for i, l in enumerate(outs):
            if i >= len(sub):
                break
            idx = sub[i]
            kind, A, B, sched, popts = pairs[idx]
            f = l.split(" ")
            fields = {x[:2]: x[3:] for x in f[1:] if len(x) > 2 and x[2] == ":"}
            if len(f) < 2 or f[1] in ("CRASH", "HANG") or "SA" not in fields:
                nviol += 1
                if nviol <= 6:
                    ck.violation("gvh-iso %s on a program pair (%s)" % (f[1] if len(f) > 1 else "died", label),
                                 {"kind": "crash", "A": A, "B": B, "schedule": sched, "impl": l[:1500], "build": label})
                continue
            ck.case("%s|%s|%s|%s" % (label, "\n--\n".join(A), "\n--\n".join(B), sched), nontrivial=True)
            ck.count("pair:" + kind)
            ck.count("run:" + label)
            if label.startswith("race") and all(re.search(r":(match|gsub|gmatch|find)\(\"[^\"]*[%^$+*]", "\n".join(P)) for P in (A, B)):
                ck.count("race-pairs-with-pattern-matching-in-both-programs")
            if popts and idx in ref_b:
                # B was created WITHOUT options (after A, created with options): its three traces must equal the trace it
                # has in the reference process where no runtime was ever given options
                for mk in ("SB", "QB", "CB"):
                    other = split_trace(fields[mk])
                    dv = diff_events(ref_b[idx], other)
                    if dv:
                        nviol += 1
                        if nviol <= 6:
                            ck.violation("a runtime created without options behaves differently after another runtime was created with "
                                         "RuntimeOptions %s (%s, %s build): event %d expected %s, got %s" % (popts, mk, label, dv[0][0], dv[0][1], dv[0][2]),
                                         {"kind": "Go!=S", "engine": "iso", "A": A, "B": B, "schedule": sched, "opts": popts, "who": "B", "mode": mk,
                                          "build": label, "solo": ref_b[idx], "with_partner": other, "differences": dv[:10],
                                          "theorem": "C20_noninterference (hypothesis no_shared_write fails for the code: rt.New writes shared state)"})
                        break
                ck.count("options:" + popts)
            for who, solo_k, modes in (("A", "SA", ("QA", "CA")), ("B", "SB", ("QB", "CB"))):
                solo = split_trace(fields[solo_k])
                for mk in modes:
                    other = split_trace(fields[mk])
                    dv = diff_events(solo, other)
                    if not dv:
                        continue
                    mode = "interleaved on one goroutine" if mk[0] == "Q" else "concurrent on two goroutines"
                    tags = set()
                    for (_, a, b) in dv:
                        for e in (a, b):
                            m = re.match(r's"([a-z0-9]+)"', e or "")
                            tags.add(m.group(1) if m else "?")
                    partner = B if who == "A" else A
                    ptxt = "\n".join(partner)
                    k = None
                    if tags <= {"rng"} and k_rng and ("math.random" in ptxt):
                        k = k_rng
                    elif tags <= {"gc"} and k_gc and ('collectgarbage("stop")' in ptxt or 'collectgarbage("restart")' in ptxt):
                        k = k_gc
                    if k is not None:
                        ck.known_finding(k)
                        ck.count("known:" + k["id"])
                        continue
                    nviol += 1
                    if nviol <= 6:
                        ck.violation("program %s behaves differently next to its partner (%s, %s build): event %d solo %s, with partner %s" %
                                     (who, mode, label, dv[0][0], dv[0][1], dv[0][2]),
                                     {"kind": "Go!=S", "engine": "iso", "A": A, "B": B, "schedule": sched, "who": who, "mode": mk, "build": label,
                                      "solo": solo, "with_partner": other, "differences": dv[:10],
                                      "theorem": "C20_noninterference (hypothesis no_shared_write fails for the code)"})

    alli = list(range(len(lines)))
    # reference for the option pairs: the same lines in a process that ignores the options
    ref_b = {}
    opt_idx = [i for i in alli if pairs[i][4]]
    if opt_idx:
        for j in range(0, len(opt_idx), 300):
            part = opt_idx[j:j + 300]
            o = vlib.run_lines_resilient(gvh, ["noopts"], [lines[i] for i in part], per_case_timeout=60, env={"GOMAXPROCS": "4", "GVH_SCRATCH": os.path.join(ck.work, "std")})
            for i, l in zip(part, o):
                m = re.search(r" SB:([0-9a-f]*)", l)
                if m:
                    ref_b[i] = split_trace(m.group(1))
    ck.cov["option_pairs"] = len(opt_idx)
    # the four race-build runs go on in the background while the plain build does the full sweep
    race_jobs = []
    if gvh_race is not None:
        nr = 24 if tier == "quick" else 400
        ncor = ck.cov["corpus_pairs"]
        rpool = ThreadPoolExecutor(max_workers=4)
        for gi, gmp in enumerate(("1", "2", "4", "16")):
            sub = list(range(ncor)) + [i for i in alli if i >= ncor and i % 4 == gi][:nr]
            def race_run(sub=sub, gmp=gmp):
                o_all, se_all, rc_all = [], "", 0
                for j in range(0, len(sub), 150):
                    rc, o, se = vlib.run_lines(gvh_race, [], [lines[i] for i in sub[j:j + 150]], 3000,
                                               {"GOMAXPROCS": gmp, "GORACE": "halt_on_error=0", "GVH_SCRATCH": os.path.join(ck.work, "std")})
                    o_all += o
                    se_all += se
                    rc_all = rc_all or rc
                    if len(o) < len(sub[j:j + 150]):
                        break
                return rc_all, o_all, se_all
            fut = rpool.submit(race_run)
            race_jobs.append((gmp, sub, fut))
    # corpus pairs marked "fresh": one race-build process per pair and GOMAXPROCS, concurrent mode only, so that the two
    # goroutines are the first users of lazily initialised shared state in that process
    fresh_jobs = []
    if gvh_race is not None and fresh_idx:
        fpool = ThreadPoolExecutor(max_workers=4)
        for i in fresh_idx:
            for gmp in (("2", "4", "16") if tier == "quick" else ("2", "3", "4", "8", "16")):
                for rep_no in range(1 if tier == "quick" else 4):
                    fresh_jobs.append((i, gmp, fpool.submit(vlib.run_lines, gvh_race, ["conc"], [lines[i]], 600,
                                                            {"GOMAXPROCS": gmp, "GORACE": "halt_on_error=0", "GVH_SCRATCH": os.path.join(ck.work, "std")})))
    ck.cov["fresh_process_race_runs"] = len(fresh_jobs)
    # the harness process keeps the runtimes it created alive, so the sweep is fed in slices (3 processes at a time)
    step = 300
    slices = [lines[i:i + step] for i in range(0, len(lines), step)]
    with ThreadPoolExecutor(max_workers=3) as sp:
        parts = list(sp.map(lambda sl: vlib.run_lines_resilient(gvh, [], sl, per_case_timeout=60, env={"GOMAXPROCS": "4", "GVH_SCRATCH": os.path.join(ck.work, "std")}), slices))
    outs = [l for part in parts for l in part]
    evaluate(outs, "plain/GOMAXPROCS=4", alli)
    ck.log("plain build: %d pairs done" % len(outs))
    races = {}
    race_stderrs = []
    if race_jobs:
        for gmp, sub, fut in race_jobs:
            rc, o, se = fut.result()
            evaluate(o, "race/GOMAXPROCS=" + gmp, sub)
            if len(o) < len(sub):
                ck.violation("race build of gvh-iso stopped after %d/%d pairs (GOMAXPROCS=%s)" % (len(o), len(sub), gmp),
                             {"kind": "crash", "stderr": se[-3000:], "pair": pairs[sub[min(len(o), len(sub) - 1)]]})
            race_stderrs.append((gmp, se))
            ck.log("race run GOMAXPROCS=%s done (%d pairs, rc %s)" % (gmp, len(o), rc))
    for i, gmp, fut in fresh_jobs:
        rc, o, se = fut.result()
        ck.count("run:race-fresh-process/conc-only")
        ck.log("fresh-process race run pair %d GOMAXPROCS=%s done (rc %s)" % (i, gmp, rc))
        ck.case("fresh|%d|%s" % (i, gmp), nontrivial=True)
        if not o or " CA:" not in o[0]:
            ck.violation("race build of gvh-iso died on a fresh-process concurrent pair (GOMAXPROCS=%s)" % gmp,
                         {"kind": "crash", "stderr": se[-3000:], "A": pairs[i][1], "B": pairs[i][2]})
        race_stderrs.append((gmp, se))
    if True:
        for gmp, se in race_stderrs:
            for m in RACE_RE.finditer(se):
                blk = m.group(1)
                frames = re.findall(r"^\s+([A-Za-z0-9_./()*]+)\(\)\s*$", blk, re.M)
                key = ">".join(frames[:2]) if frames else blk[:80]
                races.setdefault(key, {"n": 0, "block": blk[:1800], "gomaxprocs": gmp})
                races[key]["n"] += 1
    ck.cov["race_reports"] = {k: v["n"] for k, v in races.items()}
    for key, v in races.items():
        blk = v["block"]
        kr = next((k for k in ck.known if k.get("status") == "open" and k.get("match", {}).get("race_frame")
                   and k["match"]["race_frame"] in blk), None)
        if kr is not None:
            ck.known_finding(kr)
            ck.count("known-race:" + kr["id"], v["n"])
        elif "runtime.(*Thread).end" in blk or "runtime.(*Thread).Resume" in blk or "runtime.(*Thread).Yield" in blk:
            # a race inside ONE runtime's coroutine hand-off: the subject of C09, not of C20
            ck.count("race-inside-one-runtime(C09):" + key, v["n"])
            ck.notes.append("race report inside a single runtime's coroutine protocol (C09's subject), not counted for C20: " + key)
        else:
            ck.violation("data race between independent runtimes reported by the race detector: " + key,
                         {"kind": "race", "report": blk, "gomaxprocs": v["gomaxprocs"], "count": v["n"]})
    for ex in (0, 3, 7, len(lines) - 1):
        if ex < len(outs):
            kind, A, B, sched, popts = pairs[ex]
            ck.sample({"kind": kind, "A": A, "B": B, "schedule": sched,
                       "A_solo_trace": bytes.fromhex(outs[ex].split(" ")[1][3:]).decode("utf-8", "replace")[:300] if " SA:" in outs[ex] else outs[ex][:200]})

    # ---------------- 3. rows of the generated table that break the theorem are the failing inputs
    ok_obl = f_obl.result()
    pool.shutdown()
    bad_rows = [r for r in written if r["var"] not in known_vars and (r["direct"] or (r["indirect"] and not r.get("allowed")))]
    for r in written:
        if r["var"] in known_vars:
            ck.known_finding(known_vars[r["var"]])
    for v, k in known_vars.items():
        if not any(r["var"] == v for r in written):
            ck.notes.append("known finding %s: variable %s no longer has a writer outside init" % (k["id"], v))
    for r in bad_rows[:10]:
        hows = [h for h in r.get("how", []) if h.startswith("shared mutable Lua object") or h.startswith("address escapes")]
        ck.violation("package-level variable %s (%s, %s) is %s outside package initialisers by %s%s" %
                     (r["var"], r["type"][:60], r["pos"], "shared mutable state handed out" if hows else "written",
                      ", ".join((r["direct"] + r["indirect"])[:4]), (": " + hows[0][:160]) if hows else ""),
                     {"kind": "generated-table-row", "row": r, "theorem": "C20_no_shared_writers_partial",
                      "coq": str(ck.cov.get("obligation_failure", ""))[-600:]}, no_input=(nviol == 0))
    for c in new_closers:
        ck.violation("%s now calls (*os.File).Close: the process-wide standard streams wrapped by every runtime's io.stdin/stdout/stderr "
                     "may be closed for all runtimes (not in translate/globals/close_callers.txt)" % c,
                     {"kind": "generated-table-row", "function": c, "allowed": sorted(allowed_closers)}, no_input=(nviol == 0))
    if not ok_obl and not bad_rows:
        ck.violation("proof obligations of C20 no longer check: " + str(ck.cov.get("obligation_failure", ""))[-300:],
                     {"kind": "proof", "theorem_file": PROP, "detail": ck.cov.get("obligation_failure")}, no_input=(nviol == 0))
    ck.cov["exhaustive"] = False
    ck.cov["violating_observations"] = nviol
    return ck.finish(
        rule="pairs of programs (3-9 chunks each) from %d observer snippets and %d adversarial snippets (redefine/remove globals, replace the string "
             "metatable, seed the RNG, hit cpu/memory quotas, fail, write to stdout, stop the GC), each pair run alone / interleaved chunk by chunk "
             "under a random schedule / concurrently on two goroutines incl. rt.New+lib.LoadAll; every pair in the plain build (GOMAXPROCS=4) and a "
             "quarter-disjoint sample in the -race build for GOMAXPROCS 1,2,4,16; both programs' traces compared with their solo traces; "
             "distinct by (build, programs, schedule); all non-trivial" % (len(VICTIM), len(ADVERSARY)),
        trusted_base=TRUSTED,
        assumptions=["traces avoid addresses, clocks and unseeded random numbers",
                     "data-race freedom is observed by the race detector on the executed schedules, not proved"])


def replay(path, seed):
    r = json.load(open(path))
    ck = vlib.Check("C20", "quick", seed)
    if "A" not in r:
        print(json.dumps(r, indent=1)[:3000])
        return 0
    race = r.get("build", "").startswith("race")
    gvh, _ = ck.build_gvh(pkg="./cmd/gvh-iso", name="gvh_iso_race" if race else "gvh_iso", race=race)
    line = "r %s %s %s" % ("\n--\n".join(r["A"]).encode().hex(), "\n--\n".join(r["B"]).encode().hex(), r["schedule"])
    if r.get("opts"):
        line += " opts=" + r["opts"]
    rc, out, se = vlib.run_lines(gvh, [], [line], env={"GOMAXPROCS": "4", "GVH_SCRATCH": os.path.join(ck.work, "std")})
    for x in (out[0].split(" ")[1:] if out else []):
        print(x[:2], bytes.fromhex(x[3:]).decode("utf-8", "replace"))
    print(se[-2000:])
    return 0
