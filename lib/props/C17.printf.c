/* Reference for string.format's integer/char directives: the platform's C printf itself.
   stdin: "<spec> <u|s|c> <decimal>" per line (spec already carries the ll length modifier);
   stdout: hex of the formatted bytes, one line per input line. */
#include <stdio.h>
#include <stdlib.h>
#include <string.h>
int main(void) {
  char spec[128], kind[8], num[64], out[512];
  while (scanf("%127s %7s %63s", spec, kind, num) == 3) {
    int n;
    for (char *q = spec; *q; q++) if (*q == '_') *q = ' ';   /* the space flag travels as '_' */
    if (kind[0] == 'u') n = snprintf(out, sizeof out, spec, strtoull(num, NULL, 10));
    else if (kind[0] == 's') n = snprintf(out, sizeof out, spec, strtoll(num, NULL, 10));
    else if (kind[0] == 'b') {   /* a byte string without NULs, in hex ("-" = empty) */
      char arg[64]; int k = 0;
      if (num[0] != '-') for (; num[2*k] && num[2*k+1] && k < 31; k++) { unsigned v; sscanf(num + 2*k, "%2x", &v); arg[k] = (char)v; }
      arg[k] = 0;
      n = snprintf(out, sizeof out, spec, arg);
    }
    else n = snprintf(out, sizeof out, spec, (int)strtol(num, NULL, 10));
    if (n < 0 || n >= (int)sizeof out) { puts("?"); continue; }
    if (n == 0) { puts("-"); continue; }
    for (int i = 0; i < n; i++) printf("%02x", (unsigned char)out[i]);
    putchar('\n');
  }
  return 0;
}
