# C12gram — S side of "accepted by golua <=> accepted by the manual": an independent recogniser for the complete
# syntax of Lua 5.4 (manual §9) over token lists, written from the manual and from the structure of lparser.c (every
# decision is made on the current token, so the token at which it gives up is the offending token), plus the rules
# of the manual that are not context-free but make a chunk invalid at load time:
#   §3.4.11  '...' only directly inside a variadic function           (kind 'vararg')
#   §3.3.8   at most one to-be-closed variable in a local list        (kind 'multiclose')
#   §3.3.7   attributes are 'const' or 'close'                        (kind 'attrib')
# Tokens are the strings of the oracle's vocabulary: name:K num:K str:K lstr:K, keywords and signs.
#
#   recognise(toks) -> ("ok",) | ("err", lo, hi, kind)
# lo..hi is the window of token indices (len(toks) = <eof>) inside which the error has to be reported: lo == hi for
# errors of the context-free grammar; for the three rules above the reference implementation itself reports "near" the
# token after the construct, so the window spans the construct.

CONST_ID, CLOSE_ID = 1000001, 1000002

UNOPS = {"not", "-", "~", "#"}
PRIO = {"+": (10, 10), "-": (10, 10), "*": (11, 11), "%": (11, 11), "^": (14, 13), "/": (11, 11), "//": (11, 11),
        "&": (6, 6), "|": (4, 4), "~": (5, 5), "<<": (7, 7), ">>": (7, 7), "..": (9, 8),
        "==": (3, 3), "<": (3, 3), "<=": (3, 3), "~=": (3, 3), ">": (3, 3), ">=": (3, 3), "and": (2, 2), "or": (1, 1)}
UNARY_PRIORITY = 12
BLOCK_FOLLOW = {"else", "elseif", "end", "until", None}


class SynErr(Exception):
    def __init__(self, lo, hi, kind):
        Exception.__init__(self, kind)
        self.lo, self.hi, self.kind = lo, hi, kind


class Rec:
    def __init__(self, toks, allow_multiclose=False):
        self.t = toks
        self.allow_multiclose = allow_multiclose
        self.i = 0
        self.vararg = [True]      # the main chunk is a variadic function

    def tok(self):
        return self.t[self.i] if self.i < len(self.t) else None

    def ahead(self):
        return self.t[self.i + 1] if self.i + 1 < len(self.t) else None

    def err(self, kind="syntax"):
        raise SynErr(self.i, self.i, kind)

    def next(self):
        self.i += 1

    def test(self, s):
        if self.tok() == s:
            self.i += 1
            return True
        return False

    def check(self, s):
        if self.tok() != s:
            self.err("expected " + s)
        self.i += 1

    def isname(self):
        t = self.tok()
        return t is not None and t.startswith("name:")

    def name(self):
        if not self.isname():
            self.err("name expected")
        k = int(self.tok()[5:])
        self.i += 1
        return k

    # ---- statements
    def chunk(self):
        self.block()
        if self.tok() is not None:
            self.err("eof expected")

    def block(self):
        while self.tok() not in BLOCK_FOLLOW:
            if self.tok() == "return":
                self.retstat()
                return
            self.statement()

    def retstat(self):
        self.next()
        if self.tok() in BLOCK_FOLLOW or self.tok() == ";":
            pass
        else:
            self.explist()
        self.test(";")

    def statement(self):
        t = self.tok()
        if t == ";":
            self.next()
        elif t == "if":
            self.next()
            self.expr()
            self.check("then")
            self.block()
            while self.tok() == "elseif":
                self.next()
                self.expr()
                self.check("then")
                self.block()
            if self.test("else"):
                self.block()
            self.check("end")
        elif t == "while":
            self.next()
            self.expr()
            self.check("do")
            self.block()
            self.check("end")
        elif t == "do":
            self.next()
            self.block()
            self.check("end")
        elif t == "for":
            self.next()
            self.name()
            if self.tok() == "=":
                self.next()
                self.expr()
                self.check(",")
                self.expr()
                if self.test(","):
                    self.expr()
            elif self.tok() in (",", "in"):
                while self.test(","):
                    self.name()
                self.check("in")
                self.explist()
            else:
                self.err("'=' or 'in' expected")
            self.check("do")
            self.block()
            self.check("end")
        elif t == "repeat":
            self.next()
            self.block()
            self.check("until")
            self.expr()
        elif t == "function":
            self.next()
            self.name()
            while self.test("."):
                self.name()
            if self.test(":"):
                self.name()
            self.body()
        elif t == "local":
            self.next()
            if self.test("function"):
                self.name()
                self.body()
            else:
                self.localstat()
        elif t == "::":
            self.next()
            self.name()
            self.check("::")
        elif t == "break":
            self.next()
        elif t == "goto":
            self.next()
            self.name()
        else:
            self.exprstat()

    def localstat(self):
        closed_at = None
        while True:
            start = self.i
            self.name()
            if self.test("<"):
                a = self.name()
                if a not in (CONST_ID, CLOSE_ID):
                    raise SynErr(self.i - 1, self.i, "attrib")
                self.check(">")
                if a == CLOSE_ID:
                    if closed_at is not None and not self.allow_multiclose:
                        raise SynErr(start, self.i, "multiclose")
                    closed_at = start
            if not self.test(","):
                break
        if self.test("="):
            self.explist()

    def exprstat(self):
        kind = self.suffixedexp()
        if self.tok() in ("=", ","):
            while True:
                if kind != "var":
                    self.err("variable expected")
                if self.test(","):
                    kind = self.suffixedexp()
                else:
                    break
            self.check("=")
            self.explist()
        elif kind != "call":
            self.err("call or assignment expected")

    # ---- expressions
    def explist(self):
        self.expr()
        while self.test(","):
            self.expr()

    def expr(self):
        self.subexpr(0)

    def subexpr(self, limit):
        if self.tok() in UNOPS:
            self.next()
            self.subexpr(UNARY_PRIORITY)
        else:
            self.simpleexp()
        while self.tok() in PRIO and PRIO[self.tok()][0] > limit:
            op = self.tok()
            self.next()
            self.subexpr(PRIO[op][1])

    def simpleexp(self):
        t = self.tok()
        if t is None:
            self.err("unexpected symbol")
        if t.startswith("num:") or t.startswith("str:") or t.startswith("lstr:") or t in ("nil", "true", "false"):
            self.next()
        elif t == "...":
            if not self.vararg[-1]:
                raise SynErr(self.i, self.i + 1, "vararg")
            self.next()
        elif t == "{":
            self.constructor()
        elif t == "function":
            self.next()
            self.body()
        else:
            self.suffixedexp()

    def suffixedexp(self):
        t = self.tok()
        if self.isname():
            self.next()
            kind = "var"
        elif t == "(":
            self.next()
            self.expr()
            self.check(")")
            kind = "other"
        else:
            self.err("unexpected symbol")
        while True:
            t = self.tok()
            if t == ".":
                self.next()
                self.name()
                kind = "var"
            elif t == "[":
                self.next()
                self.expr()
                self.check("]")
                kind = "var"
            elif t == ":":
                self.next()
                self.name()
                self.funcargs()
                kind = "call"
            elif t is not None and (t in ("(", "{") or t.startswith("str:") or t.startswith("lstr:")):
                self.funcargs()
                kind = "call"
            else:
                return kind

    def funcargs(self):
        t = self.tok()
        if t == "(":
            self.next()
            if self.tok() != ")":
                self.explist()
            self.check(")")
        elif t == "{":
            self.constructor()
        elif t is not None and (t.startswith("str:") or t.startswith("lstr:")):
            self.next()
        else:
            self.err("function arguments expected")

    def constructor(self):
        self.check("{")
        while self.tok() != "}":
            if self.isname() and self.ahead() == "=":
                self.next()
                self.next()
                self.expr()
            elif self.tok() == "[":
                self.next()
                self.expr()
                self.check("]")
                self.check("=")
                self.expr()
            else:
                self.expr()
            if not (self.test(",") or self.test(";")):
                break
        self.check("}")

    def body(self):
        self.check("(")
        isvararg = False
        if self.tok() != ")":
            while True:
                if self.isname():
                    self.next()
                elif self.tok() == "...":
                    self.next()
                    isvararg = True
                else:
                    self.err("name expected")
                if isvararg or not self.test(","):
                    break
        self.check(")")
        self.vararg.append(isvararg)
        self.block()
        self.vararg.pop()
        self.check("end")


def recognise(toks, what="chunk", allow_multiclose=False):
    """allow_multiclose: golua's documented extension (its own test runtime/lua/locals.lua declares two <close>
    variables in one local list); recorded as finding C12-multiple-close-accepted"""
    r = Rec(toks, allow_multiclose)
    try:
        if what == "chunk":
            r.chunk()
        else:
            r.expr()
            if r.tok() is not None:
                r.err("eof expected")
    except SynErr as e:
        return ("err", e.lo, min(e.hi, len(toks)), e.kind)
    return ("ok",)
