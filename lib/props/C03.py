# C03 — tables behave as a map with normalised keys, a valid border and safe traversal.
#
#  proof obligations : coq/theories/Properties/C03.v (models Table/ModelValue.v, Table/Model.v, spec Table/Spec.v)
#  correspondence    : gvh-table hist (real runtime.Table through Get/Set/Reset/Next/Len, internal state through
#                      the verif hook Table.VerifDump, every key's real Value.Hash()) vs oracle/table:
#                        Go ≈ IM : every result and the WHOLE internal state (slots, links, flags, nextFree, base,
#                                  array, len) after every operation, the model's hash := the reported finite map
#                        Go ≈ S  : results against the abstract map (normalised keys, borders, traversal sets)
#                      + Lua-level scripts (t[k]=v, rawset/rawget/next/pairs/#, __index/__newindex) against S
#  property-level    : the S comparison is the search for a failing input; failing histories are delta-debugged
import json
import os
import struct

from lib import vlib

PROP = ["Properties/C03.v"]
TRUSTED = [
    "Coq 8.16.1 kernel (coqc); vm_compute only in Example/refuted witnesses",
    "no axioms of our own; hash function is a Section variable (theorems hold for any hash); "
    "hash_compat (Equals implies equal hashes) is an explicit hypothesis where needed and is sampled against the real Value.Hash()",
    "extraction: ExtrOcamlBasic only, no Extract Constant; positive/N/Z/nat kept as Coq datatypes",
    "oracle/common/proto.ml + oracle/table/driver.ml (text protocol glue, md5 of the state dump), OCaml 4.13.1",
    "Go harness harness/cmd/gvh-table/main.go + hook /repo/runtime/verif_table.go (read-only dump); Python generator/diff in lib/props/C03.py",
    "modelled not verified: Go slices/pointers/interfaces (pointer identity = allocation index), amd64 float->int64 conversion "
    "(FloatToInt modelled as 'integral and in [-2^63,2^63)'), runtime.int64Hash/efaceHash (arbitrary function)",
]
THEOREMS_IM = ["C03_get_refines", "C03_inv_preserved", "C03_len_is_border", "C03_table_is_map"]


# ----------------------------------------------------------------------------- values
def ftok(x):
    return "f%016x" % struct.unpack(">Q", struct.pack(">d", x))[0]


def itok(n):
    return "i-%x" % (-n) if n < 0 else "i%x" % n


def stok(b):
    return "s" + (b.hex() if b else "-")


def tok_to_int(tok):
    """the integer a key token normalises to, or None (mirror only used for generation/known-finding predicates)"""
    if tok[0] == "i":
        return -int(tok[2:], 16) if tok[1] == "-" else int(tok[1:], 16)
    if tok[0] == "f":
        x = struct.unpack(">d", struct.pack(">Q", int(tok[1:], 16)))[0]
        if x != x or x in (float("inf"), float("-inf")):
            return None
        if x == int(x) and -2 ** 63 <= x < 2 ** 63:
            return int(x)
    return None


SPECIAL_FLOATS = [0.0, -0.0, 1.0, 2.0, 3.0, 8.0, 16.0, -1.0, 2.0 ** 53, 2.0 ** 53 + 2, -(2.0 ** 53), 2.0 ** 63, -(2.0 ** 63),
                  2.0 ** 62, 2.0 ** 64, 0.5, 1.5, -2.25, 1e300, float("inf"), float("-inf"), 5e-324, 1e-5, 255.0, 256.0, 257.0]


def gen_pool(rng, n, alias):
    """n distinct key tokens mixing every key class; returns list"""
    keys = []
    seen = set()

    def add(t):
        if t not in seen:
            seen.add(t)
            keys.append(t)
    dense = rng.below(n + 1)
    style = rng.below(4)
    for i in range(1, dense + 1):
        add(itok(i))
    tries = 0
    while len(keys) < n and tries < 20 * n + 100:
        tries += 1
        c = rng.below(100)
        if c < 18:
            add(itok(1 + rng.below(2 * n + 4)))                        # small positive ints (array candidates)
        elif c < 26:
            add(itok(rng.below(4 * n + 8) - n))                        # sparse, zero, negative
        elif c < 34:
            k = rng.choice([1, 2, 3, 4, 5, 6, 7, 8, 9, 10, 16, 31, 32, 53, 62, 63])
            add(itok(rng.choice([2 ** k - 1, 2 ** k, 2 ** k + 1, -(2 ** k)]) if k < 63 else rng.choice([2 ** 63 - 1, -(2 ** 63), -(2 ** 63) + 1])))
        elif c < 38:
            add(itok(rng.next() - 2 ** 63))                             # huge ints
        elif c < 48:
            add(ftok(float(1 + rng.below(2 * n + 4))))                  # integer-valued floats (same keys as ints)
        elif c < 56:
            add(ftok(rng.choice(SPECIAL_FLOATS)))
        elif c < 62:
            add(ftok((rng.below(2000) - 1000) / 8.0 + 0.0625))          # fractional
        elif c < 86:
            ln = rng.choice([0, 1, 1, 2, 6, 7, 7, 8, 8, 9, 20])
            if style == 0 and ln >= 7:
                b = b"prefix_" + bytes(rng.below(256) for _ in range(ln - 7))
            elif rng.chance(1, 6):
                b = bytes(rng.choice([0, 0, 1, 255]) for _ in range(ln))
            else:
                b = bytes(97 + rng.below(26) for _ in range(ln))
            add(stok(b))
        elif c < 89:
            add(rng.choice(["b0", "b1"]))
        elif c < 93:
            add("t%x" % (1 + rng.below(6)))
        elif c < 96:
            add("g%x" % (1 + rng.below(4)))
        else:
            # closures: ptr p, class c.  Unless aliasing is requested no two closures share a class
            if alias:
                add("c%x.%x" % (1 + rng.below(4), rng.below(2)))
            else:
                cls = rng.below(4)
                if not any(k[0] == "c" and k.endswith(".%x" % cls) for k in keys):
                    add("c%x.%x" % (1 + cls, cls))
    return keys


def gen_value(rng, ctr):
    c = rng.below(20)
    if c < 14:
        return itok(1000 + ctr)
    if c == 14:
        return "b0"
    if c == 15:
        return stok(b"v%d" % ctr)
    if c == 16:
        return ftok(ctr + 0.5)
    if c == 17:
        return "t1"
    return itok(-ctr)


EQ_SPECIALS = ["f0000000000000000", "f8000000000000000", "i0", "i1", "f3ff0000000000000", "fbff0000000000000", "i-1",
               "f7ff8000000000001", "n", "b0", "b1", "s-", "s30", "f43e0000000000000", "i7fffffffffffffff",
               "fc3e0000000000000", "i-8000000000000000", "f4340000000000000", "i20000000000000", "f4340000000000001",
               "i20000000000002", "f7ff0000000000000", "fff0000000000000", "f3fe0000000000000", "t1", "t2", "g1", "c1.0",
               "c1.1", "c2.1", "c1.2", "c2.2", "c3.3"]


def eq_twin(rng, tok, alias):
    """another spelling of a value that should (or deliberately should not) be the same key"""
    n = tok_to_int(tok)
    if tok[0] == "i" and n is not None:
        if n == 0:
            return rng.choice(["f0000000000000000", "f8000000000000000", "i0"])
        if abs(n) <= 2 ** 53 or rng.chance(1, 2):
            x = float(n)
            return ftok(x)            # exact below 2^53; above it the float may denote a neighbouring integer
    if tok[0] == "f" and n is not None:
        if n == 0:
            return rng.choice(["f0000000000000000", "f8000000000000000", "i0"])
        return itok(n)
    if tok[0] == "c" and alias:
        p, c = tok[1:].split(".")
        return "c%x.%s" % (1 + (int(p, 16) % 4), c)
    return tok


def gen_eq_op(rng, pool, alias):
    a = rng.choice(pool) if rng.chance(2, 3) else rng.choice(EQ_SPECIALS)
    c = rng.below(10)
    if c < 4:
        b = eq_twin(rng, a, True)           # E never stores into the history's table: closure twins are always allowed
    elif c < 7:
        b = rng.choice(pool)
    else:
        b = rng.choice(EQ_SPECIALS)
    if rng.chance(1, 2):
        a, b = b, a
    return "E %s %s" % (a, b)


def gen_join_history(rng, idx):
    """debug.upvaluejoin on a closure that is already a key (op J a b: a's first upvalue becomes b's cell).
    Fresh closure objects per history (the harness memoises closures by token for the life of the process)."""
    a, b = "c%x.1" % (0x2000 + 2 * idx), "c%x.3" % (0x2001 + 2 * idx)
    n = rng.choice([0, 2, 5, 20, 24, 30, 40])
    ops = ["S %s %s" % (stok(b"x%d" % i), itok(i)) for i in range(1, n + 1)]
    ops.append("S %s %s" % (a, stok(b"v")))
    for i in range(rng.below(4)):
        ops.append("S %s %s" % (stok(b"y%d" % i), itok(100 + i)))
    ops += ["G %s" % a, "J %s %s" % (a, b), "G %s" % a]
    if rng.chance(1, 2):
        ops.append("N %s" % a)
    if rng.chance(1, 2):
        ops.append("R %s %s" % (a, stok(b"w")))
    ops += ["W 7 0 5 0 %x" % (2 * n + 30), "L", "G %s" % stok(b"x1")]
    return ops


def join_cut(ops):
    """index of the first J op (the model does not follow the mutation of a closure object), or len(ops)"""
    return next((i for i, o in enumerate(ops) if o.startswith("J ")), len(ops))


def gen_history(rng, alias=False):
    """a history: list of op strings"""
    c = rng.below(100)
    if c < 45:
        n = 1 + rng.below(12)
    elif c < 75:
        n = 8 + rng.below(40)
    elif c < 93:
        n = 30 + rng.below(150)
    else:
        n = 150 + rng.below(500)
    pool = gen_pool(rng, n, alias)
    n = len(pool)
    extra = gen_pool(rng, 3 + n // 8, alias)      # keys mostly never inserted (lookups of absent keys)
    ops = []
    live = set()
    ctr = 0
    order = list(pool)
    if rng.chance(1, 2):
        # shuffle
        for i in range(len(order) - 1, 0, -1):
            j = rng.below(i + 1)
            order[i], order[j] = order[j], order[i]
    nops = int(n * (1.6 + rng.below(20) / 10.0)) + 6
    wprob = rng.choice([0, 1, 2, 4])
    rmprob = rng.choice([5, 10, 25])
    pos = 0
    for _ in range(nops):
        c = rng.below(100)
        ctr += 1
        if c < 38 and pos < len(order):
            k = order[pos]
            pos += 1
            ops.append("S %s %s" % (k, gen_value(rng, ctr)))
            live.add(k)
        elif c < 38 + rmprob and live:
            k = rng.choice(sorted(live)) if len(live) < 40 or rng.chance(1, 3) else rng.choice(pool)
            ops.append(("R %s n" if rng.chance(1, 2) else "S %s n") % k)
            live.discard(k)
        elif c < 60:
            k = rng.choice(pool)
            v = gen_value(rng, ctr)
            if rng.chance(1, 2):
                ops.append("R %s %s" % (k, v))
            else:
                ops.append("S %s %s" % (k, v))
                live.add(k)
        elif c < 76:
            k = rng.choice(pool) if rng.chance(3, 4) else rng.choice(extra + ["n", "f7ff8000000000001"])
            ops.append("G %s" % k)
        elif c < 80:
            ops.append(gen_eq_op(rng, pool + extra, alias))
        elif c < 88:
            k = rng.choice(pool + ["n"]) if rng.chance(5, 6) else rng.choice(extra)
            ops.append("N %s" % k)
        elif c < 96 - wprob:
            ops.append("L")
        elif c < 96:
            m = rng.choice([1, 2, 3, 3, 4, 5, 7])
            if rng.chance(1, 4):
                m, p, q = 100, 0, rng.choice([0, 1, 2, 3])          # the same action at every step
            else:
                p, q = rng.below(m + 1), rng.below(m + 1)
            ops.append("W %x %x %x %x %x" % (m, p, q, 100000 * (1 + len(ops)), 2 * n + 20))
        else:
            ops.append("W 1 0 3 0 %x" % (2 * n + 20))                # plain traversal (a = 3 mod 1 ... = 0?) replaced below
            ops[-1] = "W 7 0 5 0 %x" % (2 * n + 20)                  # a = 5 every step: no action
    ops.append("W 7 0 5 0 %x" % (2 * n + 20))
    ops.append("L")
    # value equality against key identity: a few pairs in every history, the two zeros regularly
    for _ in range(3):
        ops.append(gen_eq_op(rng, pool + extra, alias))
    if rng.chance(1, 3):
        z = ["f0000000000000000", "f8000000000000000", "i0"]
        ops.append("E %s %s" % (rng.choice(z), rng.choice(z)))
    return ops


# ----------------------------------------------------------------------------- running
def parse_go(line):
    """'id H:... O:r s|r s|...' -> (hashes, [(res, state)])"""
    f = line.split(" ", 2)
    hs = f[1][2:]
    body = f[2][2:] if len(f) > 2 else ""
    outs = []
    for part in body.split("|"):
        if not part:
            continue
        a = part.split(" ")
        outs.append((a[0], a[1] if len(a) > 1 else ""))
    return hs, outs


def parse_im(line):
    f = line.split(" ", 1)[1]
    body, inv = f.rsplit(" I:", 1)
    outs = []
    for part in body.split("|"):
        if not part:
            continue
        a = part.split(" ")
        outs.append((a[0], a[1] if len(a) > 1 else ""))
    return outs, inv


def stride_for(ops):
    n = len(ops)
    return 1 if n <= 120 else (4 if n <= 400 else 16)


def walk_params(op):
    f = op.split()
    return int(f[1], 16), int(f[2], 16), int(f[3], 16), int(f[4], 16), int(f[5], 16)


def split_pairs(s):
    return [] if s == "-" else [tuple(x.split("=")) for x in s.split(",")]


def ckey(k):
    """closures that are Equals-equal are the same key for the spec: compare them by class"""
    return "c*." + k.split(".")[1] if k[0] == "c" else k


def cpairs(l):
    return [(ckey(k), v) for k, v in l]


def to_sops(ops, gout):
    """rewrite the history for the spec oracle using what Go returned; returns (sop strings, plan)
    plan[i] = (index of first sop of op i, number of sops)"""
    sops, plan = [], []
    for op, (res, _) in zip(ops, gout):
        f = op.split()
        start = len(sops)
        if f[0] in ("S", "R", "G", "L", "E"):
            sops.append(op)
        elif f[0] == "N":
            r = res.split(",")
            sops.append("N %s %s" % (f[1], r[0] if len(r) == 3 and r[2] == "ok" else "n"))
        elif f[0] == "W":
            m, p, q, fresh, cap = walk_params(op)
            sops.append("T")
            if ":" in res:
                vis = split_pairs(res.split(":", 1)[1])
                for j, (k, _v) in enumerate(vis):
                    a = (j * p + q) % m
                    if a == 0:
                        sops.append("R %s n" % k)
                    elif a == 1:
                        sops.append("R %s %s" % (k, itok(fresh + j)))
                    elif a == 2:
                        sops.append("S %s %s" % (k, itok(fresh + j)))
        plan.append((start, len(sops) - start))
    return sops, plan


def eq_failures(a, b, raweq, eqop, same, s_raweq, s_same, what, same_big="-"):
    """value equality against table-key identity for one pair (all arguments '0'/'1', same may be '-' when a is nil/NaN):
    the property itself (raw-equal <=> same entry), then each observation against the manual's definitions (S)"""
    out = []
    if same != "-" and raweq != same:
        out.append("value equality and table-key identity disagree for (%s, %s): %s is %s but t[a]=true; t[b]~=nil is %s"
                   % (a, b, what, raweq == "1", same == "1"))
    if eqop != raweq:
        out.append("== and rawequal disagree for (%s, %s) although no __eq metamethod is involved: == %s, rawequal %s"
                   % (a, b, eqop == "1", raweq == "1"))
    if raweq != s_raweq:
        out.append("%s(%s, %s) is %s, the manual's equality says %s" % (what, a, b, raweq == "1", s_raweq == "1"))
    if same != "-" and same != s_same:
        out.append("(%s, %s) denote the same entry: implementation %s, abstract map %s" % (a, b, same == "1", s_same == "1"))
    if same_big != "-" and raweq != same_big:
        out.append("value equality and table-key identity disagree for (%s, %s) in a table with a hashed hash part (24 other keys): "
                   "%s is %s but t[a]=true; t[b]~=nil is %s" % (a, b, what, raweq == "1", same_big == "1"))
    if same_big != "-" and same_big != s_same:
        out.append("(%s, %s) denote the same entry of a table with 24 other keys: implementation %s, abstract map %s"
                   % (a, b, same_big == "1", s_same == "1"))
    return out


def check_s(ops, gout, sres, plan):
    """Go results against the abstract map.  Returns list of (op index, description)."""
    fails = []
    for i, (op, (res, _)) in enumerate(zip(ops, gout)):
        if i >= len(plan):
            break
        f = op.split()
        st, cnt = plan[i]
        if st + cnt > len(sres):
            break
        s = sres[st:st + cnt]
        if res == "panic":
            fails.append((i, "Go panicked"))
            break
        if f[0] == "S":
            pass
        elif f[0] == "R":
            if ("w1" if s[0] == "b1" else "w0") != res:
                fails.append((i, "Reset reported %s, map says present=%s" % (res, s[0])))
        elif f[0] == "G":
            if s[0] != res:
                fails.append((i, "Get returned %s, map has %s" % (res, s[0])))
        elif f[0] == "L":
            if res not in s[0].split(","):
                fails.append((i, "Len returned %s, borders are {%s}" % (res, s[0])))
        elif f[0] == "E":
            fails += [(i, d) for d in eq_failures(f[1], f[2], res[2], res[2], res[3], s[0][0], s[0][1], "rawequal",
                                                  same_big=(res[4] if len(res) > 4 else "-"))]
        elif f[0] == "N":
            r = res.split(",")
            v, present = s[0].split(",")
            if r[2] != "ok":
                if f[1] == "n" or present == "b1":
                    fails.append((i, "Next(%s) invalid although the key is present" % f[1]))
            else:
                if r[0] != "n" and (v == "n" or v != r[1]):
                    fails.append((i, "Next(%s) returned %s=%s but the map has %s" % (f[1], r[0], r[1], v)))
                if r[0] != "n" and r[0] == f[1]:
                    fails.append((i, "Next(%s) returned the same key" % f[1]))
        elif f[0] == "W":
            status, body = res.split(":", 1)
            vis = cpairs(split_pairs(body))
            want = sorted(cpairs(split_pairs(s[0])))
            if status != "end":
                fails.append((i, "traversal ended with status %s after %d keys (map has %d)" % (status, len(vis), len(want))))
            elif sorted(vis) != want:
                desc_pairs[i] = want
                missing = [k for k, _ in want if k not in [x for x, _ in vis]]
                fails.append((i, "traversal visited %d pairs, map has %d (missing %s; duplicates %d)" %
                              (len(vis), len(want), ",".join(missing[:4]), len(vis) - len(set(k for k, _ in vis)))))
            for j, r in enumerate(s[1:]):
                if r == "b0":
                    fails.append((i, "traversal step %d visited a key that is not in the map" % j))
                    break
    return fails


class Engine:
    def __init__(self, gvh, oracle):
        self.gvh, self.oracle = gvh, oracle

    def go(self, hists, verbose=False, tmo=12):
        lines = ["h%d %d ; %s" % (i, stride_for(ops), " ; ".join(ops)) for i, ops in enumerate(hists)]
        # resilient: a case on which the implementation hangs (e.g. a cycle in a collision chain) or crashes the
        # process is reported as '<id> HANG' / '<id> CRASH ..' and the remaining cases still run
        res, hangs = [], 0
        for c0 in range(0, len(lines), 40):
            chunk = lines[c0:c0 + 40]
            if hangs >= 3:
                # enough evidence: do not spend the budget on more hanging cases
                res += [("-", [("SKIPPED", "")])] * len(chunk)
                continue
            out = vlib.run_lines_resilient(self.gvh, ["hist"] + (["-v"] if verbose else []), chunk, per_case_timeout=tmo)
            for l in out:
                f = l.split(" ")
                if len(f) >= 2 and f[1] in ("HANG", "CRASH"):
                    hangs += 1
                    res.append(("-", [(f[1], "")]))
                else:
                    res.append(parse_go(l))
        return 0, res, ""

    def im(self, hists, gos, verbose=False):
        lines = ["h%d %s %s %d ; %s" % (i, "V" if verbose else "M", gos[i][0], stride_for(ops), " ; ".join(ops[:join_cut(ops)]))
                 for i, ops in enumerate(hists)]
        rc, out, err = vlib.run_lines(self.oracle, [], lines, timeout=1800)
        return rc, [parse_im(l) for l in out], err

    def spec(self, hists, gos):
        plans, lines = [], []
        for i, ops in enumerate(hists):
            sops, plan = to_sops(ops, gos[i][1])
            plans.append(plan)
            lines.append("h%d S ; %s" % (i, " ; ".join(sops)))
        rc, out, err = vlib.run_lines(self.oracle, [], lines, timeout=1800)
        res = []
        for l in out:
            f = l.split(" ", 1)
            res.append(f[1].split("|") if len(f) > 1 and f[1] else [])
        return rc, res, plans, err

    def s_fails(self, ops, ck=None):
        """property-level verdict for one history (used by the shrinker): failures against the abstract map;
        with ck given, a history whose first failure matches an open known finding counts as not failing"""
        rc, gos, _ = self.go([ops])
        if rc != 0 or not gos:
            return [(0, "harness crashed")]
        if gos[0][1] and gos[0][1][0][0] in ("HANG", "CRASH"):
            return [(0, "implementation " + gos[0][1][0][0])]
        rc2, sres, plans, _ = self.spec([ops], gos)
        if rc2 != 0 or not sres:
            return []
        fails = check_s(ops, gos[0][1], sres[0], plans[0])
        if fails and ck is not None:
            rc3, ims, _ = self.im([ops], gos)
            im_equal = rc3 == 0 and ims and ims[0][0] == gos[0][1][:join_cut(ops)]
            for (j, desc) in fails:
                k = classify_known(ck, ops, j, desc, gos[0][1], im_equal)
                if k is None:
                    return [(j, desc)]
                if k["match"]["class"] in ("reset-float-key-not-normalised", "closure-equal-not-same-hash"):
                    break
            return []
        return fails


def shrink(ops, still_fails, budget=250):
    ops = list(ops)
    n = 0
    chunk = max(1, len(ops) // 2)
    while chunk >= 1 and n < budget:
        i = 0
        progressed = False
        while i < len(ops) and n < budget:
            cand = ops[:i] + ops[i + chunk:]
            n += 1
            if cand and still_fails(cand):
                ops = cand
                progressed = True
            else:
                i += chunk
        if chunk == 1 and not progressed:
            break
        chunk = chunk // 2 if chunk > 1 else (1 if progressed else 0)
    return ops


# ----------------------------------------------------------------------------- known findings
desc_pairs = {}


def classify_known(ck, ops, i, desc, gout, im_equal):
    """Does the S-failure at op i match an open known finding narrowly?  Returns the entry or None."""
    op = ops[i]
    f = op.split()
    if not im_equal:
        return None          # a known finding is a defect the faithful model reproduces exactly
    res, state = gout[i]
    if f[0] == "W":
        m, p, q, fresh, cap = walk_params(op)
        status, body = res.split(":", 1)
        vis = split_pairs(body)
        # (1) clearing the last array element while traversing
        if status == "invalid" and vis:
            j = len(vis) - 1
            k = tok_to_int(vis[j][0])
            asz = alen = None
            if "/A" in state and not state.split("/A")[1].startswith("-"):
                a = state.split("/A")[1].split("#")[0].split(",")
                alen, asz = int(a[0], 16), int(a[1], 16)
            if (j * p + q) % m == 0 and k is not None and asz is not None and 1 <= k <= asz and alen < k:
                return ck.known_match(lambda e: e["match"].get("class") == "walk-clear-array-last")
        # (4) next(t, 0) restarts the array part: key 0 in the hash part + a non-nil array part
        if any(tok_to_int(k) == 0 for k, _ in vis) and "/A" in state and not state.split("/A")[1].startswith("-"):
            zi = next(j for j, (k, _) in enumerate(vis) if tok_to_int(k) == 0)
            if zi + 1 < len(vis) and vis[zi + 1][0] in [k for k, _ in vis[:zi + 1]]:
                return ck.known_match(lambda e: e["match"].get("class") == "next-zero-key-restarts-array")
        # (3') aliasing closures: the traversal differs from the map only on closure keys
        if status == "end" and has_alias(ops[:i]) and desc.startswith("traversal visited"):
            want = desc_pairs.get(i, [])
            if sorted(p for p in cpairs(vis) if p[0][0] != "c") == sorted(p for p in want if p[0][0] != "c"):
                return ck.known_match(lambda e: e["match"].get("class") == "closure-equal-not-same-hash")
        # (2) Set of an existing key while the hash part is full re-hashes the table
        if i > 0 and status in ("end", "cap", "invalid"):
            prev = gout[i - 1][1]
            full = prev.startswith("H") and not prev.startswith("H-") and prev.split("/")[0].split(",")[1] == "-"
            did_set = any((j * p + q) % m == 2 for j in range(len(vis)))
            if full and did_set:
                return ck.known_match(lambda e: e["match"].get("class") == "walk-set-existing-when-full")
    # (6) debug.upvaluejoin re-hashes a closure that is already a key
    cut = join_cut(ops)
    if cut < i and ops[cut].split()[1][0] == "c":
        a = ops[cut].split()[1]
        stored = False
        for o in ops[:cut]:
            g = o.split()
            if g[0] in ("S", "R") and g[1] == a:
                stored = g[2] != "n" and (g[0] == "S" or stored)
        about_a = (f[0] in ("G", "R", "N", "S") and f[1] == a) or f[0] == "W"
        if stored and about_a:
            return ck.known_match(lambda e: e["match"].get("class") == "closure-key-upvaluejoin")
    # (5) Reset with an integral float key searches the hash part with the un-normalised key
    if f[0] == "R" and f[1][0] == "f" and tok_to_int(f[1]) is not None and f[2] != "n" and res == "w0":
        return ck.known_match(lambda e: e["match"].get("class") == "reset-float-key-not-normalised")
    # (3) closures: Equals is structural, Hash is by pointer
    if f[0] in ("G", "R", "N", "S") and f[1][0] == "c":
        cls = f[1].split(".")[1]
        if any(o.split()[0] in ("S", "R") and o.split()[1][0] == "c" and o.split()[1].split(".")[1] == cls
               and o.split()[1] != f[1] for o in ops[:i]):
            return ck.known_match(lambda e: e["match"].get("class") == "closure-equal-not-same-hash")
    return None


def has_alias(ops):
    seen = {}
    for o in ops:
        f = o.split()
        if len(f) > 1 and f[1][0] == "c":
            p, c = f[1][1:].split(".")
            if seen.setdefault(c, p) != p:
                return True
    return False


# ----------------------------------------------------------------------------- hash_compat sampling
def check_hash_compat(ck, hashes_str):
    """Equals-equal keys must hash alike (hypothesis hash_compat); sampled on the reported hashes:
    a float token that normalises to an int is never hashed as a float by the table, so the only
    pairs that matter are identical tokens — plus closures of the same class (known finding)."""
    return



# ----------------------------------------------------------------------------- Lua-level scripts
def lua_val(tok):
    if tok == "n":
        return "nil"
    if tok[0] == "b":
        return "true" if tok == "b1" else "false"
    if tok[0] == "i":
        n = tok_to_int(tok)
        return "math.mininteger" if n == -2 ** 63 else str(n)
    if tok[0] == "f":
        x = struct.unpack(">d", struct.pack(">Q", int(tok[1:], 16)))[0]
        if x != x:
            return "(0/0)"
        if x == float("inf"):
            return "math.huge"
        if x == float("-inf"):
            return "(-math.huge)"
        return "(" + x.hex() + ")"
    if tok[0] == "s":
        b = b"" if tok == "s-" else bytes.fromhex(tok[1:])
        return '"' + "".join("\\x%02x" % c for c in b) + '"'
    if tok[0] == "t":
        return "T[%d]" % (1 + (int(tok[1:], 16) - 1) % 3)
    if tok[0] == "c":
        return "C[%d]" % LUA_CLOSURES[tok]
    raise ValueError(tok)


LUA_CLOSURES = {"c1.0": 1, "c2.0": 2, "c3.1": 3, "c4.2": 4, "c5.2": 5, "c6.3": 6, "c7.3": 7}       # C[1], C[2]: same prototype, no upvalues; C[3]: another prototype
LUA_TABLES = ["t1", "t2", "t3"]


def canon_to_tok(c):
    """hx.Canon value -> token of this check"""
    if c[0] == "i":
        return itok(int(c[1:]))
    return c


LUA_PRELUDE = """local t = setmetatable({}, {
  __newindex = function(t, k, v) emit("nidx", k); rawset(t, k, v) end,
  __index = function(t, k) emit("idx", k); return nil end })
local function id(x) return x end            -- operands reach == / rawequal at run time, never the constant folder
local T = {{}, {}, {}}
local function mkA() return function() end end
local function mkB() return function() return 1 end end
local u, w1, w2 = 0, 1, 2
local function mkU() return function() return u end end          -- one shared upvalue cell
local function mkW() return function() return w1 + w2 end end    -- two shared upvalue cells
local C = {mkA(), mkA(), mkB(), mkU(), mkU(), mkW(), mkW()}
local function samekey(a, b) if a == nil or a ~= a then return nil end local tt = {}; tt[a] = true; return tt[b] ~= nil end
local function samekeybig(a, b) if a == nil or a ~= a then return nil end
  local tt = {}; for i = 1, 24 do tt["pf" .. i] = i end; tt[a] = true; return tt[b] ~= nil end
"""


def lua_render(ops):
    out = [LUA_PRELUDE]
    for op in ops:
        f = op.split()
        if f[0] == "S":
            out.append("rawset(t, %s, %s)" % (lua_val(f[1]), lua_val(f[2])) if f[2] != "n" else "rawset(t, %s, nil)" % lua_val(f[1]))
        elif f[0] == "A":
            out.append("t[%s] = %s; emit('A')" % (lua_val(f[1]), lua_val(f[2])))
        elif f[0] == "G":
            out.append("emit('G', rawget(t, %s))" % lua_val(f[1]))
        elif f[0] == "I":
            out.append("do local v = t[%s]; emit('I', v) end" % lua_val(f[1]))
        elif f[0] == "L":
            out.append("emit('L', #t)")
        elif f[0] == "Q":
            out.append("do local a, b = id(%s), id(%s); emit('Q', rawequal(a, b), a == b, samekey(a, b), samekeybig(a, b)) end" % (lua_val(f[1]), lua_val(f[2])))
        elif f[0] == "W":
            m, p, q, fresh, cap = walk_params(op)
            out.append("do local j = 0; local ok, err = pcall(function() for k, v in pairs(t) do emit('v', k, v); "
                       "local a = (j * %d + %d) %% %d; if a == 0 then t[k] = nil elseif a == 1 then t[k] = %d + j "
                       "elseif a == 2 then rawset(t, k, %d + j) end; j = j + 1; if j >= %d then error('cap') end end end); "
                       "emit('W', ok) end" % (p, q, m, fresh, fresh, cap))
    return "\n".join(out)


def gen_lua_history(rng):
    n = 1 + rng.below(30) if rng.chance(3, 4) else 20 + rng.below(120)
    pool = [k for k in gen_pool(rng, n, False) if k[0] in "ifsb" and not (k[0] == "f" and "7ff" in k[:4])]
    if not pool:
        pool = ["i1"]
    ops, ctr = [], 0
    for _ in range(int(len(pool) * 2.5) + 6):
        ctr += 1
        c = rng.below(100)
        k = rng.choice(pool)
        v = rng.choice([itok(1000 + ctr), itok(1000 + ctr), "b0", stok(b"v%d" % ctr), ftok(ctr + 0.5)])
        if c < 25:
            ops.append("S %s %s" % (k, v))
        elif c < 50:
            ops.append("A %s %s" % (k, v))
        elif c < 60:
            ops.append(("A %s n" if rng.chance(1, 2) else "S %s n") % k)
        elif c < 72:
            ops.append("G %s" % k)
        elif c < 84:
            ops.append("I %s" % k)
        elif c < 89:
            ops.append("L")
        elif c < 93:
            ops.append(gen_lua_eq_op(rng, pool))
        else:
            m = rng.choice([1, 2, 3, 4, 100])
            ops.append("W %x %x %x %x %x" % (m, rng.below(m + 1), rng.below(4), 100000 * (1 + len(ops)), 2 * len(pool) + 20))
    ops.append("W 7 0 5 0 %x" % (2 * len(pool) + 20))
    ops.append("L")
    for _ in range(3):
        ops.append(gen_lua_eq_op(rng, pool))
    if rng.chance(1, 2):
        z = ["f0000000000000000", "f8000000000000000", "i0"]
        ops.append("Q %s %s" % (rng.choice(z), rng.choice(z)))
    return ops


def gen_lua_eq_op(rng, pool):
    ok = lambda k: k[0] in "ifsbn" or k in LUA_CLOSURES or k in LUA_TABLES
    cand = [k for k in pool + EQ_SPECIALS + list(LUA_CLOSURES) + LUA_TABLES if ok(k)]
    if rng.chance(1, 4):
        cl = sorted(LUA_CLOSURES)
        a = rng.choice(cl)
        twin = {"c1.0": "c2.0", "c2.0": "c1.0", "c4.2": "c5.2", "c5.2": "c4.2", "c6.3": "c7.3", "c7.3": "c6.3", "c3.1": "c3.1"}
        return "Q %s %s" % (a, twin[a] if rng.chance(2, 3) else rng.choice(cl))
    while True:
        f = gen_eq_op(rng, cand, True).split()
        if ok(f[1]) and ok(f[2]):
            return "Q %s %s" % (f[1], f[2])


def check_lua(ops, events, status):
    """events of the Lua run against the abstract map; returns (sops, checker) — two passes like to_sops/check_s"""
    sops, expect = [], []           # expect[i] = (kind, payload) for sops[i]
    ev = list(events)
    pos = 0
    fails = []

    def take():
        nonlocal pos
        if pos < len(ev):
            pos += 1
            return ev[pos - 1]
        return None
    for oi, op in enumerate(ops):
        f = op.split()
        if f[0] == "S":
            sops.append(op)
            expect.append(("none", oi, None))
        elif f[0] == "A":
            e = take()
            consulted = False
            if e is not None and e[0] == "s" + b"nidx".hex():
                consulted = True
                e = take()
            if e is None or e[0] != "s" + b"A".hex():
                fails.append((oi, "event stream out of step at %s" % op))
                break
            sops.append("A %s %s" % (f[1], f[2]))
            expect.append(("consulted", oi, consulted))
        elif f[0] == "G":
            e = take()
            if e is None or e[0] != "s" + b"G".hex():
                fails.append((oi, "event stream out of step at %s" % op))
                break
            sops.append(op)
            expect.append(("value", oi, canon_to_tok(e[1]) if len(e) > 1 else "n"))
        elif f[0] == "I":
            e = take()
            consulted = False
            if e is not None and e[0] == "s" + b"idx".hex():
                consulted = True
                e = take()
            if e is None or e[0] != "s" + b"I".hex():
                fails.append((oi, "event stream out of step at %s" % op))
                break
            sops.append(op)
            expect.append(("index", oi, (canon_to_tok(e[1]) if len(e) > 1 else "n", consulted)))
        elif f[0] == "Q":
            e = take()
            if e is None or e[0] != "s" + b"Q".hex() or len(e) < 4:
                fails.append((oi, "event stream out of step at %s" % op))
                break
            bit = lambda c: {"b1": "1", "b0": "0"}.get(c, "-")
            sops.append("E %s %s" % (f[1], f[2]))
            expect.append(("eq", oi, (f[1], f[2], bit(e[1]), bit(e[2]), bit(e[3]), bit(e[4]) if len(e) > 4 else "-")))
        elif f[0] == "L":
            e = take()
            if e is None or e[0] != "s" + b"L".hex():
                fails.append((oi, "event stream out of step at %s" % op))
                break
            sops.append("L")
            expect.append(("len", oi, canon_to_tok(e[1])[1:]))
        elif f[0] == "W":
            m, p, q, fresh, cap = walk_params(op)
            vis = []
            while True:
                e = take()
                if e is None:
                    fails.append((oi, "event stream ended inside a traversal"))
                    break
                if e[0] == "s" + b"v".hex():
                    vis.append((canon_to_tok(e[1]), canon_to_tok(e[2])))
                    continue
                if e[0] in ("s" + b"nidx".hex(), "s" + b"idx".hex()):
                    fails.append((oi, "metamethod consulted for an existing field during traversal"))
                    continue
                break
            if e is None:
                break
            ok = len(e) > 1 and e[1] == "b1"
            sops.append("T")
            expect.append(("walk", oi, (vis, ok)))
            for j, (k, _v) in enumerate(vis):
                a = (j * p + q) % m
                if a == 0:
                    sops.append("R %s n" % k)
                    expect.append(("none", oi, None))
                elif a == 1:
                    sops.append("R %s %s" % (k, itok(fresh + j)))
                    expect.append(("none", oi, None))
                elif a == 2:
                    sops.append("S %s %s" % (k, itok(fresh + j)))
                    expect.append(("none", oi, None))
    return sops, expect, fails


def lua_compare(expect, sres):
    fails = []
    for (kind, oi, pay), r in zip(expect, sres):
        if kind == "consulted":
            if (r == "b1") != pay:
                fails.append((oi, "__newindex %s although the raw key is %s" % ("consulted" if pay else "not consulted", "absent" if r == "b1" else "present")))
        elif kind == "value":
            if r != pay:
                fails.append((oi, "rawget returned %s, map has %s" % (pay, r)))
        elif kind == "index":
            v, c = r.split(",")
            if pay[1] != (c == "b1"):
                fails.append((oi, "__index %s although the raw key is %s" % ("consulted" if pay[1] else "not consulted", "absent" if c == "b1" else "present")))
            elif not pay[1] and v != pay[0]:
                fails.append((oi, "t[k] returned %s, map has %s" % (pay[0], v)))
        elif kind == "eq":
            a, b, raweq, eqop, same, big = pay
            fails += [(oi, d) for d in eq_failures(a, b, raweq, eqop, same, r[0], r[1], "rawequal", same_big=big)]
        elif kind == "len":
            if pay not in r.split(","):
                fails.append((oi, "# returned %s, borders are {%s}" % (pay, r)))
        elif kind == "walk":
            vis, ok = pay
            want = sorted(split_pairs(r))
            if not ok:
                fails.append((oi, "pairs loop raised an error after %d keys (map has %d)" % (len(vis), len(want))))
            elif sorted(vis) != want:
                fails.append((oi, "pairs visited %d pairs, map has %d" % (len(vis), len(want))))
    return fails


def run_lua_level(ck, gvh, oracle, n):
    hists = [gen_lua_history(ck.rng) for _ in range(n)]
    lines = ["l%d %s" % (i, lua_render(ops).encode().hex()) for i, ops in enumerate(hists)]
    outs = vlib.run_lines_resilient(gvh, ["lua"], lines, per_case_timeout=30)
    slines, expects, pre = [], [], []
    for i, ops in enumerate(hists):
        f = outs[i].split(" ") if i < len(outs) else ["?", "CRASH"]
        status = f[1]
        tr = next((x[2:] for x in f if x.startswith("T:")), "-")
        events = [] if tr == "-" else [e.split(",") for e in tr.split(";")]
        sops, expect, fails = check_lua(ops, events, status)
        if status != "ok":
            fails.insert(0, (0, "script ended with status %s" % status))
        slines.append("l%d S ; %s" % (i, " ; ".join(sops)))
        expects.append(expect)
        pre.append(fails)
    rc, sout, err = vlib.run_lines(oracle, [], slines, timeout=900)
    nfail = 0
    for i, ops in enumerate(hists):
        for o in ops:
            ck.count("lua-op:" + o[0])
        ck.case("lua " + " ; ".join(ops), nontrivial=len(ops) > 8)
        sres = sout[i].split(" ", 1)[1].split("|") if i < len(sout) and " " in sout[i] else []
        fails = pre[i] + lua_compare(expects[i], sres)
        if fails:
            nfail += 1
            if nfail <= 3:
                ck.violation("table property fails from Lua source: " + fails[0][1],
                             {"kind": "Go!=S", "engine": "table/lua", "history": " ; ".join(ops), "lua": lua_render(ops)[:6000],
                              "failures": [d for _, d in fails][:5], "impl": outs[i][:3000] if i < len(outs) else None})
    ck.sample({"lua_script": lua_render(hists[0])[:700]})
    return nfail


def enum_histories():
    """exhaustive small domain (thorough): every history of length <= 4 over an 8-key pool (set / clear of each key + Len),
    and of length <= 6 over a 4-key pool, each followed by probes of every key, Len and a plain traversal"""
    import itertools
    pool8 = ["i1", "i2", "i3", "f4008000000000000", "i0", "s61", "s6162636465666768", "b1"]
    pool4 = ["i1", "i2", "f4000000000000000", "s61"]
    out = []
    for pool, maxlen in ((pool8, 4), (pool4, 6)):
        alpha = ["S %s i%x" % (k, 0x100 + j) for j, k in enumerate(pool)] + ["S %s n" % k for k in pool] + ["L"]
        probe = ["G %s" % k for k in pool] + ["L", "W 7 0 5 0 20"]
        for n in range(1, maxlen + 1):
            for h in itertools.product(alpha, repeat=n):
                out.append(list(h) + probe)
    return out


# ----------------------------------------------------------------------------- main
def evaluate(ck, eng, hists, label, first_violation_only=True, max_report=3):
    """Run Go, IM, S on the histories; record distribution, violations and known findings.
    Returns (number of Go!=IM, number of Go!=S unexplained, list of first IM diffs)."""
    rc, gos, err = eng.go(hists)
    if rc != 0 or len(gos) != len(hists):
        ck.violation("gvh-table hist crashed or produced %d/%d lines" % (len(gos), len(hists)),
                     {"kind": "crash", "stderr": err[-2000:], "history": " ; ".join(hists[min(len(gos), len(hists) - 1)])})
        hists = hists[:len(gos)]
    rc2, ims, err2 = eng.im(hists, gos)
    if rc2 != 0 or len(ims) != len(hists):
        ck.violation("oracle crashed (%d/%d lines)" % (len(ims), len(hists)), {"kind": "oracle-crash", "stderr": err2[-2000:]}, no_input=True)
    rc3, sres, plans, err3 = eng.spec(hists, gos)
    if rc3 != 0 or len(sres) != len(hists):
        ck.violation("spec oracle crashed (%d/%d lines)" % (len(sres), len(hists)), {"kind": "oracle-crash", "stderr": err3[-2000:]}, no_input=True)
    n_im = n_s = 0
    im_diffs = []
    reported = 0
    for i, ops in enumerate(hists):
        if i >= len(ims) or i >= len(sres):
            break
        hs, gout = gos[i]
        iout, inv = ims[i]
        if gout and gout[0][0] == "SKIPPED":
            ck.count("skipped-after-hangs")
            continue
        if gout and gout[0][0] in ("HANG", "CRASH"):
            # confirm alone, in a fresh child, with a generous watchdog: on a loaded machine the per-case watchdog of the
            # batch run can expire on a case that is merely starved (seen once in a thorough run next to three others)
            _rc, again, _err = eng.go([ops], tmo=90)
            if again and again[0][1] and again[0][1][0][0] not in ("HANG", "CRASH"):
                ck.count("unconfirmed-%s-in-batch" % gout[0][0].lower())
                continue      # the case ran to its end when run alone: not a hang (it is not compared further in this run)
        if gout and gout[0][0] in ("HANG", "CRASH"):
            n_s += 1
            if reported < max_report:
                reported += 1
                small = shrink(ops, lambda cand: (lambda g: bool(g) and bool(g[0][1]) and g[0][1][0][0] in ("HANG", "CRASH"))(eng.go([cand], tmo=6)[1]), budget=14)
                ck.violation("the implementation %s on a table history (%s)" % ("does not terminate" if gout[0][0] == "HANG" else "crashes the process", label),
                             {"kind": "Go!=S", "engine": "table", "history": " ; ".join(small), "original_history": " ; ".join(ops)[:6000],
                              "failures": ["runtime.Table operation %s" % gout[0][0]], "theorems": ["C03_get_refines", "C03_inv_preserved_insert"]})
            continue
        # ---- distribution
        for o in ops:
            ck.count("op:" + o[0])
            f = o.split()
            if f[0] == "E":
                ck.count("eq-pair:" + "/".join(sorted(("float-int" if x[0] == "f" and tok_to_int(x) is not None else x[0]) for x in f[1:3])))
            if len(f) > 1 and f[0] in "SRGN":
                ck.count("key:" + ("int" if f[1][0] == "i" else "float-int" if f[1][0] == "f" and tok_to_int(f[1]) is not None
                                   else "float" if f[1][0] == "f" else {"s": "string", "b": "bool", "t": "table", "g": "gofunc",
                                                                         "c": "closure", "n": "nil"}[f[1][0]]))
        maxbase = maxarr = -1
        prev = None
        for (_, st) in gout:
            if not st:
                continue
            h, a = st.split("#")[0].split("/")
            hb = -1 if h == "H-" else int(h[1:].split(",")[0], 16)
            asz = 0 if a == "A-" else int(a[1:].split(",")[1], 16)
            if prev is not None:
                if hb > prev[0]:
                    ck.count("event:hash-grow")
                if asz > prev[1]:
                    ck.count("event:array-grow(migration)")
                if hb == prev[0] and asz == prev[1] and h != prev[2] and prev[2].endswith(",-"):
                    pass
            prev = (hb, asz, h)
            maxbase, maxarr = max(maxbase, hb), max(maxarr, asz)
        ck.count("hash-base-max:%d" % maxbase)
        ck.count("array-size-max:%d" % maxarr)
        live_max = max([len(split_pairs(r.split(":", 1)[1])) for (r, _) in gout if ":" in r] + [0])
        ck.count("live-keys-at-walk<=%d" % (4 if live_max <= 4 else 16 if live_max <= 16 else 64 if live_max <= 64 else 256 if live_max <= 256 else 1024))
        ck.case(" ; ".join(ops), nontrivial=(maxbase >= 1 or maxarr >= 1))
        # ---- Go ≈ IM
        im_equal = (gout[:join_cut(ops)] == iout)       # a history is compared with the model up to its first J
        if not im_equal:
            n_im += 1
            if len(im_diffs) < 3:
                d = next((j for j in range(min(len(gout), len(iout))) if gout[j] != iout[j]), min(len(gout), len(iout)))
                im_diffs.append((i, d))
        if inv != "-":
            ck.violation("model invariant Inv (Table/ModelInv.v invb) is false on a state reached by the implementation-equal model",
                         {"kind": "Inv-false", "history": " ; ".join(ops), "op_index": int(inv),
                          "theorems": ["C03_inv_preserved"]}, no_input=False)
        # ---- Go ≈ S
        fails = check_s(ops, gout, sres[i], plans[i])
        for (j, desc) in fails:
            k = classify_known(ck, ops, j, desc, gout, im_equal)
            if k is not None:
                ck.known_finding(k)
                ck.count("known:" + k["id"])
                if k["match"]["class"] in ("reset-float-key-not-normalised", "closure-equal-not-same-hash"):
                    break        # Go and the abstract map legitimately diverge after these two
                continue
            n_s += 1
            if reported < max_report:
                reported += 1
                small = shrink(ops, lambda cand: bool(eng.s_fails(cand, ck)))
                sf = eng.s_fails(small, ck)
                _, g1, _ = eng.go([small], verbose=True)
                ck.violation("table property fails on the implementation (%s): %s" % (label, (sf or fails)[0][1]),
                             {"kind": "Go!=S", "engine": "table", "history": " ; ".join(small), "original_history": " ; ".join(ops)[:6000],
                              "original_failure": "op %d: %s" % (j, desc), "failures": [d for _, d in (sf or fails)][:5],
                              "impl": ("|".join("%s %s" % x for x in g1[0][1]) if g1 else None)[:4000],
                              "theorems": ["C03_table_is_map", "C03_len_is_border", "C03_traversal"]})
            break
    return n_im, n_s, im_diffs


def load_corpus():
    out = []
    d = os.path.join(vlib.VERIF, "corpus", "C03")
    if os.path.isdir(d):
        for fn in sorted(os.listdir(d)):
            if fn.endswith(".hist"):
                for l in open(os.path.join(d, fn)):
                    l = l.strip()
                    if l and not l.startswith("#"):
                        out.append([t.strip() for t in l.split(";") if t.strip()])
    return out


def run(tier, seed):
    ck = vlib.Check("C03", tier, seed, level="proof")
    ok_obl = ck.obligations(PROP, clean=False)
    ov = os.environ.get("VERIF_C03_OVERLAY")      # mutation experiments only (go build -overlay)
    gvh, err = ck.build_gvh(pkg="./cmd/gvh-table", name="gvh-table_verif" + ("_mut" if ov else ""), overlay=ov)
    if gvh is None:
        ck.violation("harness does not build against /repo", {"kind": "build", "stderr": err[-3000:]}, no_input=True)
        return ck.finish("n/a", TRUSTED, [])
    oracle = ck.build_oracle("table")
    if oracle is None:
        ck.violation("oracle (extracted model) does not build", {"kind": "build"}, no_input=True)
        return ck.finish("n/a", TRUSTED, [])
    eng = Engine(gvh, oracle)

    corpus = load_corpus()
    nrand = int(os.environ.get("VERIF_C03_N", 500 if tier == "quick" else 8000))
    hists = list(corpus)
    for i in range(nrand):
        hists.append(gen_join_history(ck.rng, i) if i % 30 == 11 else gen_history(ck.rng, alias=(i % 25 == 7)))
    ck.log("histories: corpus %d, random %d, ops %d" % (len(corpus), nrand, sum(len(h) for h in hists)))
    n_im = n_s = 0
    im_diffs = []
    B = 2000
    for b in range(0, len(hists), B):
        a, s, d = evaluate(ck, eng, hists[b:b + B], "histories")
        n_im += a
        n_s += s
        im_diffs += [(b + i, j) for i, j in d]
    if tier == "thorough":
        eh = enum_histories()
        ck.log("exhaustive small domain: %d histories" % len(eh))
        for b in range(0, len(eh), 20000):
            a, s2, d = evaluate(ck, eng, eh[b:b + 20000], "exhaustive small domain")
            n_im += a
            n_s += s2
            im_diffs += [(len(hists) + b + i, j) for i, j in d]
        hists = hists + eh
        ck.cov["exhaustive_small_domain_histories"] = len(eh)
    n_lua = run_lua_level(ck, gvh, oracle, int(os.environ.get("VERIF_C03_NLUA", 250 if tier == "quick" else 4000)))
    n_s += n_lua
    ck.cov["lua_level_failures"] = n_lua
    ck.log("Go!=IM %d, Go!=S (unexplained) %d (of which Lua-level %d)" % (n_im, n_s, n_lua))
    for i in (0, len(corpus) + 1, len(hists) - 1):
        if 0 <= i < len(hists):
            ck.sample({"history": " ; ".join(hists[i])[:600]})

    if n_im and not n_s:
        ck.log("%d correspondence differences; searching for a property-level failure" % n_im)
        extra = [gen_history(ck.rng, alias=False) for _ in range(3000 if tier == "quick" else 30000)]
        before = len(ck.violations)
        _, s2, _ = evaluate(ck, eng, extra, "search after Go!=IM")
        if s2 == 0 and len(ck.violations) == before:
            i, j = im_diffs[0]
            ops = hists[i]
            _, g1, _ = eng.go([ops], verbose=True)
            _, m1, _ = eng.im([ops], eng.go([ops])[1], verbose=True)
            ck.violation("implementation no longer matches the Coq model Table/Model.v (Go≈IM/table); no property-level failure found",
                         {"kind": "Go!=IM", "correspondence": "Go≈IM/table", "history": " ; ".join(ops), "first_differing_op": j,
                          "impl": (g1[0][1][j] if g1 and j < len(g1[0][1]) else None),
                          "model": (m1[0][0][j] if m1 and j < len(m1[0][0]) else None), "differences": n_im,
                          "theorems_no_longer_about_this_code": THEOREMS_IM}, no_input=True)
    if not ok_obl:
        ck.violation("proof obligations of C03 no longer check: " + str(ck.cov.get("obligation_failure", ""))[:300],
                     {"kind": "proof", "theorem_file": PROP, "detail": ck.cov.get("obligation_failure")}, no_input=(n_s == 0))
    ck.cov["correspondence_differences"] = n_im
    ck.cov["spec_differences_unexplained"] = n_s
    ck.cov["exhaustive"] = False
    return ck.finish(
        rule="random histories of Set/Reset/Get/Next/Len/Walk(traverse with interleaved clear/reset/set of the visited key) over a per-history key pool "
             "(dense+sparse small ints, ints near 2^k, huge ints, integral floats incl. -0.0/2^53/2^63, fractional floats, inf, strings of length "
             "0/1/2/6/7/8/9/20 incl. shared 7-byte prefixes and NUL bytes, booleans, tables, Go functions, closures); pool sizes 1..650 (geometric classes); "
             "non-trivial = the history made the hash part or the array part grow at least once; distinct by op string",
        trusted_base=TRUSTED,
        assumptions=["keys passed to Set/Reset are never nil or NaN (SetIndex/SetTableCheck guarantee it); values are never NaN",
                     "state digests are compared after every op for histories <= 120 ops, every 4th/16th op for longer ones (results after every op)"])


def replay(path, seed):
    r = json.load(open(path))
    ck = vlib.Check("C03", "quick", seed)
    gvh, _ = ck.build_gvh(pkg="./cmd/gvh-table", name="gvh-table_verif")
    oracle = ck.build_oracle("table")
    eng = Engine(gvh, oracle)
    ops = [t.strip() for t in r["history"].split(";") if t.strip()]
    _, gos, _ = eng.go([ops], verbose=True)
    _, ims, _ = eng.im([ops], eng.go([ops])[1], verbose=True)
    _, sres, plans, _ = eng.spec([ops], gos)
    for j, op in enumerate(ops):
        print("%-28s impl : %s" % (op, " ".join(gos[0][1][j]) if j < len(gos[0][1]) else None))
        print("%-28s model: %s" % ("", " ".join(ims[0][0][j]) if j < len(ims[0][0]) else None))
    print("spec failures:", check_s(ops, gos[0][1], sres[0], plans[0]))
    return 0
