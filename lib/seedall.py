#!/usr/bin/env python3
"""seedall.py [seed ids...] — run each seeded change against its property's quick check (overlay; /repo untouched),
record the outcome in seeded/<id>/meta.json (check_results) and print a table.  Extra checks per seed: EXTRA below."""
import json, os, re, subprocess, sys, time
V = "/verif"
EXTRA = {"C04-m1": ["C19"], "C07-m1": ["C05"], "C05-m2": ["C18"], "C06-m1": ["C05", "C09"], "C08-m1": ["C07"]}
ids = sys.argv[1:] or sorted(os.listdir(os.path.join(V, "seeded")))
for sid in ids:
    d = os.path.join(V, "seeded", sid)
    mp = os.path.join(d, "meta.json")
    if not os.path.exists(mp):
        continue
    m = json.load(open(mp))
    patch = os.path.join(d, "patch_ported_to_current_head.diff")
    if not os.path.exists(patch):
        patch = os.path.join(d, "patch.diff")
    if subprocess.call(["git", "-C", "/repo", "apply", "--check", patch], stderr=subprocess.DEVNULL) != 0:
        print("%-8s patch does not apply to current /repo HEAD" % sid)
        m.setdefault("check_results", {})["apply"] = "does not apply to current HEAD (needs porting)"
        json.dump(m, open(mp, "w"), indent=1)
        continue
    for pid in [m["property"]] + EXTRA.get(sid, []):
        if not os.path.exists(os.path.join(V, "lib", "props", pid + ".py")):
            continue
        t0 = time.time()
        p = subprocess.run(["python3", "lib/seedtest.py", patch, pid, "quick"], cwd=V, stdout=subprocess.PIPE, stderr=subprocess.STDOUT)
        out = p.stdout.decode("utf-8", "replace")
        nv = len(re.findall(r"^VIOLATION ", out, re.M))
        nn = len(re.findall(r"no-failing-input-found", out))
        first = re.search(r"VIOLATION: (.*)", out)
        rc = re.search(r"check exit code (\d+)", out)
        res = ("REPORTED (%d VIOLATION lines%s): %s" % (nv, ", %d no-failing-input-found" % nn if nn else "", first.group(1)[:160] if first else "")
               if rc and rc.group(1) == "1" else "missed (exit %s)" % (rc.group(1) if rc else "?"))
        m.setdefault("check_results", {})[pid] = res
        head = subprocess.check_output(["git", "-C", "/repo", "rev-parse", "--short", "HEAD"]).decode().strip()
        vh = subprocess.check_output(["git", "-C", V, "rev-parse", "--short", "HEAD"]).decode().strip()
        m.setdefault("check_history", []).append({"check": pid, "repo_head": head, "verif_head": vh, "result": res[:120]})
        print("%-8s vs %s: %s  [%.0fs]" % (sid, pid, res[:200], time.time() - t0), flush=True)
        json.dump(m, open(mp, "w"), indent=1)
