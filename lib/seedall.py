#!/usr/bin/env python3
"""seedall.py [seed ids...] — run each seeded change against its property's quick check (overlay; /repo untouched),
record the outcome in seeded/<id>/meta.json (check_results) and print a table.  Extra checks per seed: EXTRA below."""
import json, os, re, subprocess, sys, time
V = "/verif"
EXTRA = {"C04-m1": ["C19"], "C07-m1": ["C05"], "C05-m2": ["C18"], "C06-m1": ["C05", "C09"], "C08-m1": ["C07"],
         # second wave: checks of neighbouring properties whose subject the change also touches
         "C07-m3": ["C05", "C06"], "C05-m3": ["C07"], "C07-m4": ["C06"], "C08-m3": ["C10"], "C04-m4": ["C09", "C10"],
         "C09-m3": ["C10"], "C10-m3": ["C09"], "C17-m3": ["C02"], "C02-m4": ["C17"], "C14-m4": ["C11"], "C11-m3": ["C09"],
         "C05-m4": ["C15"], "C01-m4": ["C12"], "C12-m3": ["C01"], "C16-m3": ["C01"], "C13-m3": ["C04"], "C04-m3": ["C13"]}
MODE = "all"            # --no-extra: only the property's own check; --only-extra: only the neighbouring checks
args = [a for a in sys.argv[1:] if not a.startswith("--")]
for a in sys.argv[1:]:
    if a in ("--no-extra", "--only-extra"):
        MODE = a
ids = args or sorted(os.listdir(os.path.join(V, "seeded")))
for sid in ids:
    d = os.path.join(V, "seeded", sid)
    mp = os.path.join(d, "meta.json")
    if not os.path.exists(mp):
        continue
    m = json.load(open(mp))
    patch = os.path.join(d, "patch_ported_to_current_head.diff")
    if not os.path.exists(patch):
        patch = os.path.join(d, "patch.diff")
    if subprocess.call(["git", "-C", "/repo", "apply", "--check", patch], stderr=subprocess.DEVNULL) != 0:
        print("%-8s patch does not apply to current /repo HEAD" % sid)
        m.setdefault("check_results", {})["apply"] = "does not apply to current HEAD (needs porting)"
        json.dump(m, open(mp, "w"), indent=1)
        continue
    for pid in ([] if MODE == "--only-extra" else [m["property"]]) + ([] if MODE == "--no-extra" else EXTRA.get(sid, [])):
        if not os.path.exists(os.path.join(V, "lib", "props", pid + ".py")):
            continue
        t0 = time.time()
        p = subprocess.run(["python3", "lib/seedtest.py", patch, pid, "quick"], cwd=V, stdout=subprocess.PIPE, stderr=subprocess.STDOUT)
        out = p.stdout.decode("utf-8", "replace")
        nv = len(re.findall(r"^VIOLATION ", out, re.M))
        nn = len(re.findall(r"no-failing-input-found", out))
        first = re.search(r"VIOLATION: (.*)", out)
        rc = re.search(r"check exit code (\d+)", out)
        res = ("REPORTED (%d VIOLATION lines%s): %s" % (nv, ", %d no-failing-input-found" % nn if nn else "", first.group(1)[:160] if first else "")
               if rc and rc.group(1) == "1" else "missed (exit %s)" % (rc.group(1) if rc else "?"))
        m.setdefault("check_results", {})[pid] = res
        head = subprocess.check_output(["git", "-C", "/repo", "rev-parse", "--short", "HEAD"]).decode().strip()
        vh = subprocess.check_output(["git", "-C", V, "rev-parse", "--short", "HEAD"]).decode().strip()
        m.setdefault("check_history", []).append({"check": pid, "repo_head": head, "verif_head": vh, "result": res[:120]})
        print("%-8s vs %s: %s  [%.0fs]" % (sid, pid, res[:200], time.time() - t0), flush=True)
        json.dump(m, open(mp, "w"), indent=1)
