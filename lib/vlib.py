# vlib.py — shared machinery of the /verif checks (see DESIGN.md §2, §3).
#
# One Check object per run of one property.  It
#   * rebuilds the Go harness (gvh) from /repo's current working tree,
#   * re-checks the property's proof obligations with coqc (Properties/Cxx.v is
#     recompiled on every run, Print Assumptions parsed, forbidden vernacular
#     scanned for),
#   * builds/uses the OCaml oracle extracted from the Coq model,
#   * collects violations / known findings, writes evidence/<id>.json and the
#     replay files, prints the VIOLATION / KNOWN-FINDING lines, sets the exit code.
import hashlib
import json
import os
import re
import shutil
import subprocess
import sys
import time

VERIF = os.path.dirname(os.path.dirname(os.path.abspath(__file__)))
REPO = os.environ.get("VERIF_REPO", "/repo")
WORK = os.path.join(VERIF, ".work")
COQ = os.path.join(VERIF, "coq")
ORACLE = os.path.join(VERIF, "oracle")
HARNESS = os.path.join(VERIF, "harness")
# a run against a seeded change (lib/seedtest.py sets VERIF_SEEDED_WT) must not overwrite the evidence and replays
# of the real tree: they go to .work/seeded-run/ instead
_OUT = os.path.join(WORK, "seeded-run") if os.environ.get("VERIF_SEEDED_WT") else VERIF
EVID = os.path.join(_OUT, "evidence")
REPLAYS = os.path.join(_OUT, "replays")

GOENV = {
    "GOFLAGS": "-mod=mod", "GOPROXY": "off", "GOSUMDB": "off", "GOTOOLCHAIN": "local",
    "GOCACHE": os.path.join(WORK, "gocache"), "CGO_ENABLED": "1",
}

FORBIDDEN = re.compile(
    r"\b(Admitted|admit|Axiom|Axioms|Parameter|Parameters|Conjecture|Conjectures|Hypothesis|Hypotheses|Variable|Variables|"
    r"Admit Obligations|bypass_check|native_compute)\b|Unset\s+Guard|Unset\s+Positivity|Unset\s+Universe|type-in-type|impredicative-set")

# axioms of the Coq standard library that theorems may depend on (each use is
# reported in evidence); anything else in a Print Assumptions output fails the run
STDLIB_AXIOMS = {
    "Classical_Prop.classic", "ClassicalDedekindReals.sig_not_dec", "ClassicalDedekindReals.sig_forall_dec",
    "FunctionalExtensionality.functional_extensionality_dep", "functional_extensionality_dep",
    "classic", "sig_not_dec", "sig_forall_dec",
    "ProofIrrelevance.proof_irrelevance", "proof_irrelevance", "JMeq.JMeq_eq", "JMeq_eq",
    "Eqdep.Eq_rect_eq.eq_rect_eq", "eq_rect_eq",
    "ClassicalEpsilon.constructive_indefinite_description", "constructive_indefinite_description",
}


class SplitMix64:
    """The one PRNG (mirrored in Go where the harness needs it)."""
    M = (1 << 64) - 1

    def __init__(self, seed):
        self.s = seed & self.M

    def next(self):
        self.s = (self.s + 0x9E3779B97F4A7C15) & self.M
        z = self.s
        z = ((z ^ (z >> 30)) * 0xBF58476D1CE4E5B9) & self.M
        z = ((z ^ (z >> 27)) * 0x94D049BB133111EB) & self.M
        return z ^ (z >> 31)

    def below(self, n):
        return self.next() % n if n > 0 else 0

    def choice(self, seq):
        return seq[self.below(len(seq))]

    def chance(self, num, den):
        return self.below(den) < num

    def geometric(self, mean, cap):
        n = 0
        while n < cap and self.below(mean + 1) != 0:
            n += 1
        return n

    def fork(self):
        return SplitMix64(self.next())


def sh(cmd, cwd=None, env=None, timeout=None, inp=None):
    e = dict(os.environ)
    e.update(GOENV)
    if env:
        e.update(env)
    p = subprocess.run(cmd, cwd=cwd, env=e, input=inp, stdout=subprocess.PIPE, stderr=subprocess.PIPE,
                       timeout=timeout, shell=isinstance(cmd, str))
    return p.returncode, p.stdout.decode("utf-8", "replace"), p.stderr.decode("utf-8", "replace")


def run_lines(binary, args, lines, timeout=600, env=None, cwd=None):
    """Feed lines to a line-protocol process; returns (rc, list of output lines, stderr)."""
    data = ("\n".join(lines) + "\n").encode()
    e = dict(os.environ)
    e.update(GOENV)
    if env:
        e.update(env)
    try:
        p = subprocess.run([binary] + list(args), input=data, stdout=subprocess.PIPE, stderr=subprocess.PIPE,
                           timeout=timeout, env=e, cwd=cwd)
    except subprocess.TimeoutExpired as ex:
        out = (ex.stdout or b"").decode("utf-8", "replace").splitlines()
        return -9, out, "timeout"
    return p.returncode, p.stdout.decode("utf-8", "replace").splitlines(), p.stderr.decode("utf-8", "replace")


def run_lines_resilient(binary, args, lines, per_case_timeout=20, env=None, mem_kb=4 * 1024 * 1024, cwd=None,
                         restart_every=1500):
    """Chunked front end of _run_lines_resilient: a fresh child every `restart_every` cases, because a
    long-lived harness process accumulates memory (abandoned coroutines keep their goroutines) and would
    eventually die under ulimit -v, blaming an innocent case."""
    out = []
    for i in range(0, len(lines), restart_every):
        out += _run_lines_resilient(binary, args, lines[i:i + restart_every], per_case_timeout, env, mem_kb, cwd)
    return out


def _run_lines_resilient(binary, args, lines, per_case_timeout=20, env=None, mem_kb=4 * 1024 * 1024, cwd=None):
    """Like run_lines, but survives a crash or hang of the child: the case being processed when
    the child died / stalled gets the pseudo-output '<id> CRASH <rc> <stderr tail hex>' or
    '<id> HANG', and the remaining cases are fed to a fresh child.  Requires that the child
    prints (and flushes) exactly one line per input line, starting with the case id."""
    import select
    import threading
    e = dict(os.environ)
    e.update(GOENV)
    if env:
        e.update(env)
    results = []
    i = 0
    n = len(lines)
    while i < n:
        chunk = lines[i:]
        pre = "ulimit -v %d; exec \"$0\" \"$@\"" % mem_kb
        p = subprocess.Popen(["sh", "-c", pre, binary] + list(args), stdin=subprocess.PIPE, stdout=subprocess.PIPE,
                             stderr=subprocess.PIPE, env=e, cwd=cwd)

        def feed(proc=p, data=chunk):
            try:
                for l in data:
                    proc.stdin.write((l + "\n").encode())
                proc.stdin.close()
            except (BrokenPipeError, OSError):
                pass
        th = threading.Thread(target=feed, daemon=True)
        th.start()
        errbuf = []

        def drain(proc=p):
            try:
                errbuf.append(proc.stderr.read())
            except Exception:
                pass
        te = threading.Thread(target=drain, daemon=True)
        te.start()
        got = 0
        status = "eof"
        fd = p.stdout
        while got < len(chunk):
            r, _, _ = select.select([fd], [], [], per_case_timeout)
            if not r:
                status = "hang"
                break
            line = fd.readline()
            if not line:
                status = "eof"
                break
            results.append(line.decode("utf-8", "replace").rstrip("\n"))
            got += 1
        if got == len(chunk):
            try:
                p.wait(timeout=10)
            except subprocess.TimeoutExpired:
                p.kill()
            i = n
            break
        # the child stopped before finishing
        if status == "hang":
            p.kill()
            p.wait()
            cid = chunk[got].split(" ", 1)[0]
            results.append("%s HANG" % cid)
        else:
            try:
                rc = p.wait(timeout=10)
            except subprocess.TimeoutExpired:
                p.kill()
                rc = -9
            te.join(timeout=2)
            eb = (errbuf[0] if errbuf else b"")
            tail = eb[:6000] + (b" ... " + eb[-300:] if len(eb) > 6300 else b"")
            cid = chunk[got].split(" ", 1)[0]
            results.append("%s CRASH %d %s" % (cid, rc, tail.hex() or "-"))
        i += got + 1
    return results


class Check:
    def __init__(self, pid, tier, seed, level="proof"):
        self.pid = pid
        self.tier = tier
        self.seed = seed
        self.level = level
        self.t0 = time.time()
        self.rng = SplitMix64(seed ^ int(hashlib.sha256(pid.encode()).hexdigest()[:12], 16))
        self.violations = []      # (replay_path, no_input, summary)
        self.known_lines = []
        self.cov = {"evaluations": 0, "distinct_nontrivial": 0, "rule": "", "samples": [],
                    "obligations": 0, "discharged": 0, "checker_cmd": "", "trusted_base": [],
                    "theorems": [], "axioms": [], "distribution": {}, "known_findings_hit": {}}
        self.assumptions = []
        self.notes = []
        self._distinct = set()
        os.makedirs(WORK, exist_ok=True)
        os.makedirs(EVID, exist_ok=True)
        os.makedirs(REPLAYS, exist_ok=True)
        self.work = os.path.join(WORK, pid)
        os.makedirs(self.work, exist_ok=True)
        for fn in os.listdir(REPLAYS):          # replays of earlier runs of this property are stale
            if fn.startswith(pid + "-"):
                try:
                    os.remove(os.path.join(REPLAYS, fn))
                except OSError:
                    pass
        self.known = [k for k in load_known() if k.get("property") == pid]

    # ------------------------------------------------------------------ logging
    def log(self, *a):
        print("[%s %6.1fs]" % (self.pid, time.time() - self.t0), *a, file=sys.stderr, flush=True)

    # ------------------------------------------------------------------ Go side
    def build_gvh(self, tags=("verif",), race=False, name=None, pkg="./cmd/gvh", overlay=None):
        """go build of the harness against /repo's working tree (replace directive)."""
        name = name or ("gvh_" + "_".join(tags) + ("_race" if race else ""))
        out = os.path.join(WORK, "bin", name)
        os.makedirs(os.path.dirname(out), exist_ok=True)
        gosum = os.path.join(REPO, "go.sum")
        if os.path.exists(gosum):
            shutil.copy(gosum, os.path.join(HARNESS, "go.sum"))
        cmd = ["go", "build", "-tags", " ".join(tags), "-ldflags=-checklinkname=0"]
        if race:
            cmd.append("-race")
        # VERIF_OVERLAY=<overlay.json>: mutation experiments without touching /repo (go build -overlay)
        overlay = overlay or os.environ.get("VERIF_OVERLAY")
        if overlay:
            cmd += ["-overlay", overlay]
            name_suffix = "_ov" + hashlib.md5(open(overlay, "rb").read()).hexdigest()[:8]
            out = out + name_suffix
            cmd_out_fix = True
        cmd += ["-o", out, pkg]
        rc, so, se = sh(cmd, cwd=HARNESS, timeout=900)
        if rc != 0:
            self.log("go build failed:\n" + se[-4000:])
            return None, se
        return out, ""

    def clock_overlay(self):
        """A go build -overlay file that replaces /repo/runtime/runtimecontextmanager.go by a copy, regenerated from
        the current source (or from the seeded version when VERIF_OVERLAY replaces that file), in which now() reads
        rt.VerifClock when it is set.  /repo is not touched.  -> (overlay path, None) or (None, reason)."""
        target = os.path.join(REPO, "runtime", "runtimecontextmanager.go")
        base = {}
        env_ov = os.environ.get("VERIF_OVERLAY")
        if env_ov:
            base = dict(json.load(open(env_ov)).get("Replace", {}))
        # lib/seedtest.py maps /repo/<f> to the worktree's file
        srcpath = base.get(target) or base.get("/repo/runtime/runtimecontextmanager.go") or target
        src = open(srcpath).read()
        m = re.search(r"func now\(\) uint64 \{\n(.*?)\n\}", src, re.S)
        if not m or "time.Now()" not in m.group(1):
            return None, "func now() of runtime/runtimecontextmanager.go no longer has the shape the clock overlay rewrites"
        body = "\tif VerifClock != nil {\n\t\treturn VerifClock()\n\t}\n" + m.group(1)
        gen = src[:m.start(1)] + body + src[m.end(1):] + "\n// VerifClock replaces the wall clock (verification harness only; build overlay).\nvar VerifClock func() uint64\n"
        d = os.path.join(WORK, "clock")
        os.makedirs(d, exist_ok=True)
        h = hashlib.md5((gen + json.dumps(base, sort_keys=True)).encode()).hexdigest()[:10]
        gpath = os.path.join(d, "runtimecontextmanager_%s.go" % h)
        open(gpath, "w").write(gen)
        repl = dict(base)
        repl[target] = gpath
        opath = os.path.join(d, "overlay_%s.json" % h)
        json.dump({"Replace": repl}, open(opath, "w"))
        return opath, None

    # ------------------------------------------------------------------ Coq side
    def coq_make(self, targets=None):
        """Full .vo build (no -vos) of the given targets' dependency cones (default: everything).
        _CoqProject is regenerated from the directory tree; builds are serialised by a lock
        because several checks may run at once."""
        rc, so, se = coq_make(targets)
        return rc == 0, (so + se)[-6000:]

    def obligations(self, prop_files, extra_scan_dirs=None, clean=False):
        """Recompile the property statement files; count theorems; parse Print Assumptions.

        Returns True iff every obligation is discharged with allowed assumptions only."""
        ok_all = True
        if clean:
            sh("make clean", cwd=COQ, timeout=300)
        # build the dependencies of the statement files (each statement file itself is compiled
        # exactly once below, by coqc, so that its Print Assumptions output is captured)
        cone0 = coq_cone(prop_files)
        propset = {os.path.join(COQ, "theories", pf) for pf in prop_files}
        deps0 = [os.path.relpath(p, COQ)[:-2] + ".vo" for p in cone0 if p not in propset]
        ok, out = self.coq_make(deps0 or None)
        if not ok:
            self.log("coq make failed:\n" + out[-3000:])
            self.cov["obligation_failure"] = out[-3000:]
            ok_all = False
        theorems, axioms = [], set()
        for pf in prop_files:
            path = os.path.join(COQ, "theories", pf)
            src = open(path).read()
            names = re.findall(r"^\s*(?:Theorem|Lemma|Corollary)\s+([A-Za-z0-9_']+)", src, re.M)
            theorems += names
            vo = path[:-2] + ".vo"
            if os.path.exists(vo):
                os.remove(vo)
            rc, so, se = sh(["coqc", "-R", "theories", "GV", os.path.join("theories", pf)], cwd=COQ, timeout=1800)
            if rc != 0:
                ok_all = False
                self.cov["obligation_failure"] = (so + se)[-3000:]
                self.log("coqc %s failed:\n%s" % (pf, (so + se)[-3000:]))
                continue
            # Print Assumptions output
            closed, blocks = parse_assumptions(so, axioms)
            nprint = len(re.findall(r"Print Assumptions", src))
            if nprint < len(names):
                ok_all = False
                self.cov["obligation_failure"] = "%s: %d theorems but %d Print Assumptions" % (pf, len(names), nprint)
            if closed + blocks < nprint:
                # could not account for every Print Assumptions
                self.notes.append("%s: %d Print Assumptions, parsed %d" % (pf, nprint, closed + blocks))
        bad_axioms = sorted(a for a in axioms if a not in STDLIB_AXIOMS and a.split(".")[-1] not in STDLIB_AXIOMS)
        if bad_axioms:
            ok_all = False
            self.cov["obligation_failure"] = "unexpected axioms: " + ", ".join(bad_axioms)
        # forbidden vernacular anywhere in the development
        hits = []
        cone = coq_cone(prop_files)
        self.cov["coq_files_in_cone"] = [os.path.relpath(p, COQ) for p in cone]
        for p in cone:
            if True:
                if True:
                    txt = strip_coq_comments(open(p).read())
                    for m in FORBIDDEN.finditer(txt):
                        if m.group(0) in ("Variable", "Variables", "Hypothesis", "Hypotheses"):
                            if inside_section(txt, m.start()):
                                continue
                        hits.append("%s: %s" % (os.path.relpath(p, COQ), m.group(0)))
        if hits:
            ok_all = False
            self.cov["obligation_failure"] = "forbidden vernacular: " + "; ".join(hits[:10])
        self.cov["theorems"] = theorems
        self.cov["axioms"] = sorted(axioms)
        self.cov["obligations"] = len(theorems)
        self.cov["discharged"] = len(theorems) if ok_all else 0
        self.cov["checker_cmd"] = "make -C coq -j16 (coq_makefile, full .vo) && coqc -R theories GV theories/{%s}" % ",".join(prop_files)
        return ok_all

    def coqchk(self, modules):
        rc, so, se = sh(["coqchk", "-silent", "-o", "-R", "theories", "GV"] + modules, cwd=COQ, timeout=3000)
        self.cov["coqchk"] = {"rc": rc, "tail": (so + se)[-1500:]}
        return rc == 0

    def build_oracle(self, engine):
        """Extract the model (coqc Extract.v in oracle/<engine>) and build its driver."""
        d = os.path.join(ORACLE, engine)
        exe = os.path.join(d, "oracle.exe")
        srcs = [os.path.join(d, "Extract.v"), os.path.join(d, "driver.ml"), os.path.join(ORACLE, "common", "proto.ml")]
        # only the model files this extraction depends on (transitively)
        ext0 = strip_coq_comments(open(os.path.join(d, "Extract.v")).read())
        roots = []
        for m in re.finditer(r"\b(?:GV\.)?([A-Z][A-Za-z0-9_]*(?:\.[A-Z][A-Za-z0-9_]*)+)\b", ext0):
            cand = os.path.join(*m.group(1).split(".")) + ".v"
            if os.path.exists(os.path.join(COQ, "theories", cand)):
                roots.append(cand)
        deps = coq_cone(sorted(set(roots)))
        newest = max(os.path.getmtime(p) for p in srcs + deps)
        if os.path.exists(exe) and os.path.getmtime(exe) >= newest:
            return exe
        ext = strip_coq_comments(open(os.path.join(d, "Extract.v")).read())
        tg = []
        for m in re.finditer(r"\b(?:GV\.)?([A-Z][A-Za-z0-9_]*(?:\.[A-Z][A-Za-z0-9_]*)+)\b", ext):
            cand = os.path.join(COQ, "theories", *m.group(1).split(".")) + ".v"
            if os.path.exists(cand):
                tg.append(os.path.relpath(cand, COQ)[:-2] + ".vo")
        ok, out = self.coq_make(sorted(set(tg)) or None)
        if not ok:
            self.log("coq make failed:\n" + out[-3000:])
            return None
        shutil.copy(os.path.join(ORACLE, "common", "proto.ml"), os.path.join(d, "proto.ml"))
        rc, so, se = sh(["coqc", "-R", os.path.join(COQ, "theories"), "GV", "Extract.v"], cwd=d, timeout=1200)
        if rc != 0:
            self.log("extraction failed: " + (so + se)[-2000:])
            return None
        extra = []
        if os.path.exists(os.path.join(d, "extra_ml.txt")):
            extra = open(os.path.join(d, "extra_ml.txt")).read().split()
        rc, so, se = sh(["ocamlfind", "ocamlopt", "-w", "-a", "-I", ".",
                         "model.mli", "model.ml", "proto.ml"] + extra + ["driver.ml", "-o", "oracle.exe"], cwd=d, timeout=1200)
        if rc != 0:
            self.log("ocaml build failed: " + (so + se)[-2000:])
            return None
        return exe

    # ------------------------------------------------------------------ results
    def count(self, key, n=1):
        d = self.cov["distribution"]
        d[key] = d.get(key, 0) + n

    def case(self, canon, nontrivial=True):
        """Record one evaluated case; canon identifies it for distinctness."""
        self.cov["evaluations"] += 1
        if nontrivial:
            h = hashlib.md5(canon.encode() if isinstance(canon, str) else repr(canon).encode()).digest()[:8]
            self._distinct.add(h)

    def sample(self, s, cap=6):
        if len(self.cov["samples"]) < cap:
            self.cov["samples"].append(s)

    def known_match(self, pred):
        for k in self.known:
            if k.get("status") == "open" and pred(k):
                return k
        return None

    def violation(self, summary, replay, no_input=False):
        """Record a violation; replay is a JSON-able dict written to replays/."""
        n = len(self.violations)
        path = os.path.join(REPLAYS, "%s-%d-%d.json" % (self.pid, self.seed, n))
        replay = dict(replay)
        replay.update({"property": self.pid, "seed": self.seed, "tier": self.tier, "summary": summary,
                       "no_failing_input_found": no_input})
        with open(path, "w") as f:
            json.dump(replay, f, indent=1, default=str)
        self.violations.append((path, no_input, summary))
        self.log("VIOLATION:", summary)

    def known_finding(self, k, detail=""):
        kid = k["id"]
        hit = self.cov["known_findings_hit"]
        if kid not in hit:
            hit[kid] = 0
            self.known_lines.append("KNOWN-FINDING: property=%s %s — %s" % (self.pid, kid, k["what"]))
        hit[kid] += 1

    def finish(self, rule, trusted_base, assumptions, explanation=None, extra=None):
        self.cov["rule"] = rule
        self.cov["distinct_nontrivial"] = len(self._distinct)
        self.cov["trusted_base"] = trusted_base
        if explanation:
            self.cov["explanation"] = explanation
        if extra:
            self.cov.update(extra)
        if self.notes:
            self.cov["notes"] = self.notes
        ev = {"property_id": self.pid, "tier": self.tier, "seed": self.seed, "level": self.level,
              "coverage": self.cov, "assumptions": assumptions,
              "wall_s": round(time.time() - self.t0, 2), "violations": len(self.violations)}
        with open(os.path.join(EVID, self.pid + ".json"), "w") as f:
            json.dump(ev, f, indent=1, default=str)
        for l in self.known_lines:
            print(l)
        seen = set()
        for path, no_input, summary in self.violations[:20]:
            line = "VIOLATION property=%s replay=%s" % (self.pid, path)
            if no_input:
                line += " no-failing-input-found"
            print(line)
        sys.stdout.flush()
        return 1 if self.violations else 0


def parse_assumptions(out, axioms):
    """Parse coqc's output of Print Assumptions commands; adds axiom names to the set."""
    closed = blocks = 0
    inblock = False
    for line in out.splitlines():
        if line.startswith("Closed under the global context"):
            closed += 1
            inblock = False
        elif line.strip() == "Axioms:":
            blocks += 1
            inblock = True
        elif inblock:
            m = re.match(r"^([A-Za-z_][A-Za-z0-9_.']*)\s*(:|$)", line)
            if m:
                axioms.add(m.group(1))
            elif line and not line[0].isspace():
                inblock = False
    return closed, blocks


def coq_cone(prop_files):
    """The .v files (under coq/theories) that the given property files transitively depend on."""
    seen, todo = set(), [os.path.join(COQ, "theories", pf) for pf in prop_files]
    while todo:
        p = todo.pop()
        if p in seen or not os.path.exists(p):
            continue
        seen.add(p)
        txt = strip_coq_comments(open(p).read())
        for m in re.finditer(r"(?:From\s+GV\s+)?Require\s+(?:Import\s+|Export\s+)?([^.]*(?:\.[A-Za-z_][^.\s]*)*)\s*\.", txt):
            pass
        for m in re.finditer(r"\b(?:GV\.)?([A-Z][A-Za-z0-9_]*(?:\.[A-Z][A-Za-z0-9_]*)+)\b", txt):
            cand = os.path.join(COQ, "theories", *m.group(1).split(".")) + ".v"
            if os.path.exists(cand):
                todo.append(cand)
    return sorted(seen)


def coq_project():
    """Regenerate coq/_CoqProject and the Makefile from the tree when the set of .v files changed."""
    files = []
    for root, _, fs in os.walk(os.path.join(COQ, "theories")):
        for f in fs:
            if f.endswith(".v"):
                files.append(os.path.relpath(os.path.join(root, f), COQ))
    files.sort()
    txt = "-R theories GV\n" + "\n".join(files) + "\n"
    p = os.path.join(COQ, "_CoqProject")
    old = open(p).read() if os.path.exists(p) else ""
    if old != txt or not os.path.exists(os.path.join(COQ, "Makefile")):
        with open(p, "w") as f:
            f.write(txt)
        for stale in (".Makefile.d", "Makefile.conf"):
            try:
                os.remove(os.path.join(COQ, stale))
            except OSError:
                pass
        sh("coq_makefile -f _CoqProject -o Makefile", cwd=COQ, timeout=120)


def coq_make(targets=None, keep_going=False):
    os.makedirs(WORK, exist_ok=True)
    lock = os.path.join(WORK, "coq.lock")
    tg = " ".join(targets) if targets else ""
    import fcntl
    with open(lock, "w") as lf:
        fcntl.flock(lf, fcntl.LOCK_EX)
        try:
            coq_project()
            r = sh("timeout 1500 make -j16 %s %s" % ("-k" if keep_going else "", tg), cwd=COQ, timeout=1600)
            if r[0] != 0 and "No rule to make target" in (r[1] + r[2]):
                # a .v file disappeared since the dependency file was written: regenerate and retry once
                try:
                    os.remove(os.path.join(COQ, "_CoqProject"))
                except OSError:
                    pass
                coq_project()
                r = sh("timeout 1500 make -j16 %s %s" % ("-k" if keep_going else "", tg), cwd=COQ, timeout=1600)
            return r
        finally:
            fcntl.flock(lf, fcntl.LOCK_UN)


def strip_coq_comments(s):
    out, depth, i, n = [], 0, 0, len(s)
    while i < n:
        if s.startswith("(*", i):
            depth += 1
            i += 2
        elif s.startswith("*)", i) and depth > 0:
            depth -= 1
            i += 2
        else:
            if depth == 0:
                out.append(s[i])
            i += 1
    return "".join(out)


def inside_section(txt, pos):
    """True iff position pos is inside an open Section."""
    depth = 0
    for m in re.finditer(r"^\s*(Section|End)\s+([A-Za-z0-9_']+)\s*\.", txt[:pos], re.M):
        if m.group(1) == "Section":
            depth += 1
        else:
            # End also closes Modules; only count down to zero
            depth = max(0, depth - 1)
    return depth > 0


def load_known():
    """known_findings.json: {"findings": [{"property","id","status":"open"|"fixed","what", ...match keys...}]}"""
    out = []
    p = os.path.join(VERIF, "known_findings.json")
    if os.path.exists(p):
        out += json.load(open(p)).get("findings", [])
    d = os.path.join(VERIF, "known_findings.d")
    if os.path.isdir(d):
        for fn in sorted(os.listdir(d)):
            if fn.endswith(".json"):
                out += json.load(open(os.path.join(d, fn))).get("findings", [])
    return out


def env_seed(default=20260923):
    try:
        return int(os.environ.get("VERIF_SEED", default))
    except ValueError:
        return default
