# luacore.py — run Lua programs on the real runtime (`gvh lua`) and on LuaCore
# (oracle/luacore, extracted from coq/theories/Lua) and return comparable lines.
#
#   cases: list of dicts {"ast": block, "style": int|dict, "args": [canonical values], "rseed": int}
#   run_both(ck, cases) -> list of (go_line, oracle_line), both normalised:
#       "<status> T:<ev>;<ev> R:<vals> E:<hex>"
#   Normalisation (both sides): run-time error messages — whose text the manual does not
#   fix — are replaced by "chunk:LINE: #class" (class from a table of message patterns);
#   library argument errors by "#badarg".
import os
import re

from lib import vlib, gen_lua

FUEL_EXP = 19          # 2^21 machine steps

RT_CLASSES = [
    (re.compile(rb"^attempt to perform arithmetic on"), b"arith"),
    (re.compile(rb"^attempt to unm "), b"arith"),
    (re.compile(rb"^attempt to concatenate"), b"concat"),
    (re.compile(rb"^attempt to compare"), b"compare"),
    (re.compile(rb"^attempt to get length of"), b"len"),
    (re.compile(rb"^attempt to index"), b"index"),
    (re.compile(rb"^attempt to call"), b"call"),
    (re.compile(rb"^attempt to divide by zero"), b"divzero"),
    (re.compile(rb"^attempt to perform 'n//0'"), b"divzero"),
    (re.compile(rb"^attempt to perform 'n%%0'"), b"modzero"),
    (re.compile(rb"^attempt to perform 'n%0'"), b"modzero"),
    (re.compile(rb"^number has no integer representation"), b"intrep"),
    (re.compile(rb"^attempt to perform bitwise"), b"bitwise"),
    (re.compile(rb"^attempt to bnot"), b"bitwise"),
    (re.compile(rb"^index is nil"), b"keynil"),
    (re.compile(rb"^table index is nil"), b"keynil"),
    (re.compile(rb"^(table )?index is NaN"), b"keynan"),
    (re.compile(rb"^'for' step is zero"), b"forstep"),
    (re.compile(rb"^'for' (initial value|limit|step)"), b"forprep"),
]
CO_MSGS = re.compile(rb"^cannot resume (dead|non-suspended|running) coroutine|^cannot resume")
BADARG = re.compile(rb"(#\d+ must be|arguments? needed|bad argument|out of range|must be an? |expected, got|value expected|wrong number of arguments|invalid option)")
POS = re.compile(rb"^((?:chunk:\d+: )*)(.*)$", re.S)


def norm_str(b):
    m = POS.match(b)
    pre, msg = m.group(1), m.group(2)
    if re.match(rb"^#[a-z0-9]+$", msg):
        if msg in (b"#badarg", b"#costate", b"#yieldoutside"):
            return msg
        return b
    if CO_MSGS.search(msg):
        return b"#costate"
    if msg.startswith(b"attempt to yield from outside") or msg.startswith(b"cannot yield from main"):
        return b"#yieldoutside"
    for rx, cls in RT_CLASSES:
        if rx.search(msg):
            return pre + b"#" + cls if pre else b"?:#" + cls
    if BADARG.search(msg):
        return b"#badarg"
    return b


def norm_val(v):
    if len(v) > 1 and v[0] == "s" and v != "s-":
        try:
            b = bytes.fromhex(v[1:])
        except ValueError:
            return v
        nb = norm_str(b)
        return "s" + nb.hex() if nb else "s-"
    return v


def norm_line(line):
    """'<id> <status> T:.. R:.. E:.. [O:.. X:..]' -> (id, normalised 'status T R E')"""
    f = line.split(" ")
    cid = f[0]
    if len(f) < 5 or not f[2].startswith("T:"):
        return cid, " ".join(f[1:])
    status = f[1]
    t = f[2][2:]
    if t != "-":
        t = ";".join(",".join(norm_val(v) for v in ev.split(",")) for ev in t.split(";"))
    r = f[3][2:]
    if r not in ("-", "s"):
        r = ",".join(norm_val(v) for v in r.split(","))
    e = f[4][2:]
    if e != "-":
        e = norm_str(bytes.fromhex(e)).hex()
    return cid, "%s T:%s R:%s E:%s" % (status, t, r, e)


def oracle_arg(a):
    """integers travel to the oracle in hexadecimal (exact at any size)"""
    if a[0] == "i":
        z = int(a[1:])
        return "I" + (("-%x" % -z) if z < 0 else ("%x" % z))
    return a


def make_lines(cases):
    """render + serialise every case; returns (go_lines, oracle_lines, sources)"""
    go, orc, srcs = [], [], []
    for i, c in enumerate(cases):
        if "src" in c:
            src, sx = c["src"], c["sx"]          # stored case (corpus / replay)
        else:
            rng = vlib.SplitMix64(c.get("rseed", 1))
            src = gen_lua.render(c["ast"], c.get("style", 0), rng, c.get("eol", "\n"))
            sx = gen_lua.serialize(c["ast"])
        c["_src"], c["_sx"] = src, sx
        args = ",".join(c.get("args") or []) or "-"
        oargs = ",".join(oracle_arg(a) for a in (c.get("args") or [])) or "-"
        cid = "p%d" % i
        go.append("%s %s args=%s" % (cid, src.encode("latin1").hex(), args))
        orc.append("%s %d %s %s" % (cid, c.get("fuel", FUEL_EXP), oargs, sx))
        srcs.append(src)
    return go, orc, srcs


def run_both(ck, cases, gvh=None, oracle=None, want_sources=False, timeout=None):
    gvh = gvh or ck.build_gvh()[0]
    oracle = oracle or ck.build_oracle("luacore")
    go, orc, srcs = make_lines(cases)
    out_go, out_or, err = [], [], ""
    CH = 60
    bad = 0
    for i in range(0, len(go), CH):
        if bad > 12:
            # the implementation hangs/crashes on case after case: do not wait for thousands of time-outs
            out_go += ["%s SKIPPED" % l.split(" ", 1)[0] for l in go[i:i + CH]]
            out_or += ["%s SKIPPED" % l.split(" ", 1)[0] for l in orc[i:i + CH]]
            continue
        g = vlib.run_lines_resilient(gvh, ["lua"], go[i:i + CH], per_case_timeout=timeout or 8)
        bad += sum(1 for l in g if " HANG" in l or " CRASH" in l)
        out_go += g
        out_or += vlib.run_lines_resilient(oracle, [], orc[i:i + CH], per_case_timeout=timeout or 30)
    gmap = dict(norm_line(l) for l in out_go if l)
    omap = dict(norm_line(l) for l in out_or if l)
    res = []
    for i in range(len(cases)):
        cid = "p%d" % i
        res.append((gmap.get(cid, "MISSING"), omap.get(cid, "MISSING " + err[-200:])))
    if want_sources:
        return res, srcs
    return res


# ---------------------------------------------------------------------------------------
# second reference: PUC-Rio Lua 5.3.6 (system liblua5.3), oracle/luacore/reflua.c
# ---------------------------------------------------------------------------------------
# 5.3 and 5.4 differ on string arithmetic (5.3 always yields a float), so coercions are left out
REF53_PROFILE = dict(ref53=True, coerce=False)


def build_ref(ck):
    """compile oracle/luacore/reflua.c against liblua5.3; None when gcc / the library is missing"""
    src = os.path.join(vlib.ORACLE, "luacore", "reflua.c")
    out = os.path.join(vlib.WORK, "bin", "reflua53")
    os.makedirs(os.path.dirname(out), exist_ok=True)
    if os.path.exists(out) and os.path.getmtime(out) >= os.path.getmtime(src):
        return out
    rc, so, se = vlib.sh(["gcc", "-O1", src, "-o", out, "-llua5.3"], timeout=120)
    if rc != 0:
        ck.log("reference Lua (liblua5.3) runner not built: " + se[-300:])
        return None
    return out


def run_ref(ref, cases, timeout=10):
    """run the (already rendered) cases on PUC-Lua 5.3; returns normalised lines"""
    lines = []
    for i, c in enumerate(cases):
        args = ",".join(c.get("args") or []) or "-"
        lines.append("p%d %s args=%s" % (i, c["_src"].encode("latin1").hex(), args))
    out = vlib.run_lines_resilient(ref, [], lines, per_case_timeout=timeout)
    m = dict(norm_line(l) for l in out if l)
    return [m.get("p%d" % i, "MISSING") for i in range(len(cases))]
