#!/usr/bin/env python3
"""seedverify.py <seed dir (patch.diff, demo.*, meta.json)> <dest id, e.g. C10-m1>
Independent confirmation of a seeded change, in a scratch worktree of /repo HEAD (removed afterwards):
 baseline: demo output; with patch: whole repo compiles, pinned suite passes, demo output differs.
Copies the seed to /verif/seeded/<id>/ with the confirmation recorded in meta.json."""
import json, os, shutil, subprocess, sys, tempfile
src, sid = os.path.abspath(sys.argv[1]), sys.argv[2]
env = dict(os.environ, GOFLAGS="-mod=mod", GOPROXY="off", GOSUMDB="off", GOTOOLCHAIN="local",
           GOCACHE="/verif/.work/gocache")
SUITE = "go test -vet=off -count=1 ./scanner/... ./parsing/... ./luastrings/... ./lib/stringlib/pattern/... ./runtime/internal/luagc/... ./lib/golib/goimports/..."
wt = tempfile.mkdtemp(prefix="seedverify-", dir="/tmp"); os.rmdir(wt)
subprocess.check_call(["git", "-C", "/repo", "worktree", "add", "--detach", "-q", wt, "HEAD"])
res = {}
try:
    meta = json.load(open(os.path.join(src, "meta.json")))
    sub = os.path.basename(src.rstrip("/"))
    os.makedirs(os.path.join(wt, "out"), exist_ok=True)
    shutil.copytree(src, os.path.join(wt, "out", sub))
    def run(cmd):
        p = subprocess.run(cmd, shell=True, cwd=wt, env=env, stdout=subprocess.PIPE, stderr=subprocess.STDOUT, timeout=1800)
        return p.returncode, p.stdout.decode("utf-8", "replace")
    demo = meta["demo_cmd"]
    rc0, out0 = run(demo)
    res["baseline"] = {"rc": rc0, "out": out0[-1500:]}
    rc, o = run("git apply out/%s/patch.diff" % sub)
    res["apply_rc"] = rc
    rc, o = run("go build -ldflags=-checklinkname=0 ./...")
    res["build_rc"] = rc
    rc, o = run(SUITE)
    res["suite_rc"] = rc
    res["suite_tail"] = o[-600:]
    rc1, out1 = run(demo)
    res["patched"] = {"rc": rc1, "out": out1[-1500:]}
    res["confirmed"] = (res["apply_rc"] == 0 and res["build_rc"] == 0 and res["suite_rc"] == 0 and
                        (rc0, out0) != (rc1, out1) and rc0 == 0)
    meta["confirmed_by_coordinator"] = res
    dest = os.path.join("/verif/seeded", sid)
    if os.path.exists(dest):
        shutil.rmtree(dest)
    shutil.copytree(src, dest)
    json.dump(meta, open(os.path.join(dest, "meta.json"), "w"), indent=1)
    print(sid, "confirmed" if res["confirmed"] else "NOT CONFIRMED", json.dumps({k: v for k, v in res.items() if k.endswith("_rc")}))
    print(" baseline rc", rc0, "|", out0.strip().splitlines()[-1:] , "\n patched rc", rc1, "|", out1.strip().splitlines()[-1:])
finally:
    subprocess.call(["git", "-C", "/repo", "worktree", "remove", "--force", wt])
    shutil.rmtree(wt, ignore_errors=True)
