# qprogs.py — Lua program families for the quota properties (C05 CPU, C06 memory).
#
# Every program is deterministic, observes itself only through emit(...), and does not read
# the context's own counters, so its stream of requests to the context manager does not depend
# on the limit it runs under (the hypothesis of the kill_exact theorem).
#
# body(rng) -> Lua source of a *finite* computation that emits as it goes.
# wrap(kind, body) -> the same computation behind something that could try to intercept a kill.
# amplifiers() -> library calls with a size parameter N (for the "no unmetered operation" clause).


def bodies(rng):
    n = 3 + rng.below(40)
    m = 1 + rng.below(12)
    k = 1 + rng.below(6)
    fam = [
        ("loop", "for i=1,%d do emit(i) end" % n),
        ("while", "local i=0 while i<%d do i=i+1 if i%%%d==0 then emit(i) end end emit('end')" % (n * 3, m)),
        ("nested", "for i=1,%d do for j=1,%d do emit(i*100+j) end end" % (k + 1, m)),
        ("rec", "local function f(n) if n==0 then return 0 end emit(n) return 1+f(n-1) end emit(f(%d))" % n),
        ("tail", "local function f(n,a) if n==0 then return a end return f(n-1,a+n) end emit(f(%d,0))" % (n * 5)),
        ("closure", "local fs={} for i=1,%d do fs[i]=function() return i end end local s=0 for i=1,#fs do s=s+fs[i]() emit(s) end" % n),
        ("concat", "local s='' for i=1,%d do s=s..'x' if i%%%d==0 then emit(#s) end end emit(#s)" % (n * 2, m)),
        ("table", "local t={} for i=1,%d do t[i]=i*2 end local s=0 for i,v in ipairs(t) do s=s+v end emit(s) emit(#t)" % (n * 2)),
        ("tinsert", "local t={} for i=1,%d do table.insert(t,1,i) end emit(t[1],#t) emit(table.concat(t,','))" % n),
        ("sort", "local t={} for i=1,%d do t[i]=(i*7919)%%%d end table.sort(t) emit(t[1],t[#t])" % (n + 2, n + 5)),
        ("sortcmp", "local t={} for i=1,%d do t[i]=(i*7919)%%%d end table.sort(t,function(a,b) return a>b end) emit(t[1],t[#t])" % (n + 2, n + 5)),
        ("strlib", "local s=string.rep('ab',%d) emit(#s) emit(#s:upper()) emit(s:find('ba',%d,true)) emit(#s:sub(2,-2)) emit(#s:reverse())" % (n * 3, m)),
        ("gsub", "local s=string.rep('a1b2',%d) emit((s:gsub('%%d','#'))) emit(select(2,s:gsub('%%a','')))" % n),
        ("format", "for i=1,%d do emit(string.format('%%5d|%%s|%%x',i,'v'..i,i*31)) end" % m),
        ("meta", "local mt={__index=function(t,k) return k*2 end,__add=function(a,b) return 7 end} local o=setmetatable({},mt) local s=0 for i=1,%d do s=s+o[i] end emit(s) emit(o+o)" % n),
        ("varargs", "local function f(...) return select('#',...),... end for i=1,%d do emit(f(i,i+1,i+2)) end" % m),
        ("pcallerr", "for i=1,%d do local ok,e=pcall(error,{code=i}) emit(ok,type(e)) end" % m),
        ("coro", "local co=coroutine.wrap(function() for i=1,%d do coroutine.yield(i) end return 'done' end) for i=1,%d do emit(co()) end" % (n, n + 1)),
        ("coro2", "local function gen(n) return coroutine.wrap(function() for i=1,n do coroutine.yield(i) end end) end local a,b=gen(%d),gen(%d) for i=1,%d do emit(a(),b()) end" % (m + 2, m + 2, m + 2)),
        ("close", "do local x<close> = setmetatable({},{__close=function(_,e) emit('closed',e) end}) for i=1,%d do emit(i) end end emit('after')" % n),
        ("load", "local f=load('local s=0 for i=1,%d do s=s+i end return s') emit(f())" % n),
        ("goto", "local i=0 ::top:: i=i+1 if i<%d then emit(i) goto top end emit('out')" % n),
        ("strbuild", "local parts={} for i=1,%d do parts[#parts+1]=tostring(i) end emit(#table.concat(parts))" % (n * 2)),
        ("unpack", "local t={} for i=1,%d do t[i]=i end emit(select('#',table.unpack(t))) emit(math.max(table.unpack(t)))" % (n + 1)),
        ("utf8", "local s=utf8.char(%d,228,8364,66) emit(#s, utf8.len(s)) for p,c in utf8.codes(s) do emit(p,c) end" % (65 + m)),
        ("pack", "local s=string.pack('<i4 z s2',%d,'hey','you') emit(#s) emit(string.unpack('<i4 z s2',s))" % n),
        # bodies that end by raising an error (value of any type), possibly after some work
        ("err_str", "for i=1,%d do emit(i) end error('boom')" % m),
        ("err_tab", "local s=0 for i=1,%d do s=s+i end emit(s) error({code=s})" % n),
        ("err_deep", "local function f(n) if n==0 then error('deep',2) end emit(n) f(n-1) end f(%d)" % m),
        ("err_arith", "for i=1,%d do emit(i) end local x=nil emit(x+1)" % k),
    ]
    return fam


# constructs that must NOT be able to intercept a termination
WRAPS = ["plain", "pcall", "pcall_loop", "xpcall", "coroutine", "close", "pcall_in_coro", "nested_pcall",
         "close_in_coro", "close_work", "close_work_pcall", "gc_guard"]
# explicit child contexts ARE boundaries: the child is killed, the parent goes on with what is left
WRAPS_EXPLICIT = ["callctx", "close_in_callctx"]


def wrap(kind, body):
    """Put the body behind a construct that must not be able to intercept a termination.
    Every wrapper emits a marker if control reaches the code after the protected region,
    together with what it was told."""
    if kind == "plain":
        return body
    if kind == "pcall":
        return "local ok,e=pcall(function() %s end) emit('after-pcall',ok,e)" % body
    if kind == "pcall_loop":
        return ("local n=0 while n<3 do n=n+1 local ok,e=pcall(function() %s end) emit('after-pcall',n,ok,e) end" % body)
    if kind == "xpcall":
        return ("local ok,e=xpcall(function() %s end,function(m) emit('handler',m) return m end) emit('after-xpcall',ok,e)" % body)
    if kind == "coroutine":
        return ("local co=coroutine.create(function() %s end) local ok,e=coroutine.resume(co) emit('after-resume',ok,e,coroutine.status(co))" % body)
    if kind == "close":
        return ("do local g<close> = setmetatable({},{__close=function(_,e) emit('guard-closed',e) for i=1,3 do emit('in-close',i) end end}) %s end emit('after-scope')" % body)
    if kind == "pcall_in_coro":
        return ("local co=coroutine.wrap(function() local ok,e=pcall(function() %s end) emit('after-pcall',ok,e) return 'r' end) emit('after-wrap',pcall(co))" % body)
    if kind == "nested_pcall":
        return ("local ok,e=pcall(function() local ok2,e2=pcall(function() %s end) emit('inner',ok2,e2) end) emit('outer',ok,e)" % body)
    if kind == "callctx":
        # an explicit child context WITHOUT its own limits: it inherits what is left
        return ("local c=runtime.callcontext({},function() %s end) emit('after-callctx',c.status)" % body)
    if kind == "close_in_coro":
        return ("local co=coroutine.wrap(function() local g<close> = setmetatable({},{__close=function(_,e) emit('guard-closed',e) "
                "local n=0 for i=1,200 do n=n+i end emit('in-close',n) end}) %s end) co() emit('after-wrap')" % body)
    if kind == "close_in_callctx":
        return ("local c=runtime.callcontext({},function() local g<close> = setmetatable({},{__close=function(_,e) emit('guard-closed',e) end}) "
                "%s end) emit('after-callctx',c.status)" % body)
    if kind == "close_work":
        # the handler does real work: it must be metered like everything else
        return ("do local g<close> = setmetatable({},{__close=function(_,e) local n=0 for i=1,300 do n=n+i end emit('guard-closed',n) end}) %s end emit('after-scope')" % body)
    if kind == "close_work_pcall":
        return ("local ok,e=pcall(function() local g<close> = setmetatable({},{__close=function(_,e) local n=0 for i=1,300 do n=n+i end emit('guard-closed',n) end}) %s end) emit('after-pcall',ok,e)" % body)
    if kind == "gc_guard":
        return ("setmetatable({},{__gc=function() emit('gc-ran') end}) %s collectgarbage() emit('after-gc')" % body)
    raise ValueError(kind)


def amplifiers():
    """(name, template with %d for N, kind) — kind 'cpu+mem' : work and output both grow with N."""
    return [
        ("rep", "local s=string.rep('x',%d) emit(#s)"),
        ("rep_sep", "local s=string.rep('x',%d,'yy') emit(#s)"),
        ("rep_empty", "local s=string.rep('',%d) emit(#s)"),
        ("rep_empty_sep", "local s=string.rep('',%d,'') emit(#s)"),
        ("concat_dbl", "local s='x' local n=%d while #s<n do s=s..s end emit(#s)"),
        ("tconcat", "local t={} local n=%d for i=1,1000 do t[i]='x' end emit(#table.concat(t,string.rep('s',n//1000)))"),
        ("format_width", "emit(#string.format('%%'..tostring(math.min(%d,99))..'d',1))"),
        ("format_prec_d", "emit(#select(2, pcall(string.format, '%%.'..tostring(%d)..'d', 1)))"),
        ("format_prec_x", "emit(#select(2, pcall(string.format, '%%#.'..tostring(%d)..'x', 1)))"),
        ("format_prec_f", "emit(#select(2, pcall(string.format, '%%.'..tostring(%d)..'f', 1.5)))"),
        ("format_width_big", "emit(#select(2, pcall(string.format, '%%'..tostring(%d)..'d', 1)))"),
        ("load_reader", "local n=math.min(%d,20000) local piece=string.rep(' ',50000) local i=0 "
                        "emit(type(load(function() i=i+1 if i<=n then return piece end end)))"),
        ("load_reader_then_error", "local n=math.min(%d,20000) local piece=string.rep(' ',50000) local i=0 "
                                   "emit(pcall(load, function() i=i+1 if i<=n then return piece end error('stop') end))"),
        ("format_rep", "local n=%d emit(#string.format(string.rep('%%s',math.min(n,100000)),table.unpack({}) ))"),
        ("pack_c", "emit(#string.pack('c'..tostring(%d),'x'))"),
        ("pack_x", "local n=%d emit(#string.pack(string.rep('x',math.min(n,1000000))))"),
        ("utf8char", "local n=math.min(%d,200) local t={} for i=1,n do t[i]=65 end emit(#utf8.char(table.unpack(t)))"),
        ("unpack_n", "emit(select('#',table.unpack({},1,%d)))"),
        ("tmove", "local t={} table.move({1},1,1,%d,t) emit(t[1])"),
        ("tinsert_big", "local t={} t[%d]=1 emit(#t)"),
        ("for_big", "local c=0 for i=1,%d do c=c+1 end emit(c)"),
        ("sub_big", "local s=string.rep('x',1000) emit(#s:sub(1,%d))"),
        ("find_big", "local s=string.rep('a',math.min(%d,100000)) emit(s:find('b',1,true))"),
        ("match_exp", "local n=math.min(%d,40) local s=string.rep('a',n) emit(s:match(string.rep('a*',n)..'b'))"),
        ("gsub_big", "local s=string.rep('a',math.min(%d,100000)) emit(#s:gsub('a','bb'))"),
        ("byte_big", "local s=string.rep('a',math.min(%d,1000000)) emit(select('#',s:byte(1,-1)))"),
        ("char_big", "local n=math.min(%d,200) emit(#string.char(table.unpack((function() local t={} for i=1,n do t[i]=65 end return t end)())))"),
        ("load_big", "local n=math.min(%d,200000) local f=load('return '..string.rep('1+',n)..'1') emit(f and f())"),
        ("coro_many", "local n=math.min(%d,1000000) local t={} for i=1,n do t[i]=coroutine.create(function() end) end emit(#t)"),
        ("vararg_big", "local function f(...) return select('#',...) end local n=math.min(%d,250) local t={} for i=1,n do t[i]=i end emit(f(table.unpack(t)))"),
        ("tostring_loop", "local n=math.min(%d,1000000) local s for i=1,n do s=tostring(i) end emit(s)"),
        ("lower_big", "local s=string.rep('A',math.min(%d,5000000)) emit(#s:lower())"),
        ("reverse_big", "local s=string.rep('A',math.min(%d,5000000)) emit(#s:reverse())"),
        ("sort_big", "local n=math.min(%d,200000) local t={} for i=1,n do t[i]=(i*7919)%%1000 end table.sort(t) emit(t[1])"),
        ("dump_big", "local n=math.min(%d,50000) local f=load('return '..string.rep('1+',n)..'1') emit(#string.dump(f))"),
        # pattern matching: every way of backtracking must be paid for (quadratic work on a linear subject)
        ("find_lazy", "local s=string.rep('a',math.min(%d,300000)) emit(s:find('.-b'))"),
        ("match_lazy_capture", "local s=string.rep('a',math.min(%d,300000)) emit(s:match('(.-)b'))"),
        ("gsub_lazy", "local s=string.rep('a',math.min(%d,300000)) emit((s:gsub('a-b','')))"),
        ("gmatch_lazy", "local s=string.rep('a',math.min(%d,300000)) local n=0 for _ in s:gmatch('.-b') do n=n+1 end emit(n)"),
        ("find_greedy_backtrack", "local s=string.rep('a',math.min(%d,300000)) emit(s:find('.*b'))"),
        ("find_class_star", "local s=string.rep('a',math.min(%d,300000)) emit(s:find('[a-c]*d'))"),
        ("find_plus_fail", "local s=string.rep('a',math.min(%d,300000)) emit(s:find('a+b'))"),
        ("find_opt_chain", "local n=math.min(%d,28) local s=string.rep('a',n) emit(s:find(string.rep('a?',n)..string.rep('a',n)..'b'))"),
        ("find_balanced", "local s=string.rep('(',math.min(%d,300000)) emit(s:find('%%b()'))"),
        ("find_frontier", "local s=string.rep('a',math.min(%d,300000)) emit(s:find('%%f[b]'))"),
        ("find_backref", "local s=string.rep('a',math.min(%d,300000)) emit(s:find('(a*)%%1b'))"),
        ("find_backref_anchored", "local s=string.rep('a',math.min(%d,2000000)) emit(s:find('^(a*)%%1c'))"),
        ("gsub_anchored_fail", "local s=string.rep('ab',math.min(%d,200000)) emit((s:gsub('^(a.-)c','')))"),
        ("find_init_loop", "local s=string.rep('a',math.min(%d,300000)) emit(s:find('a-b',1))"),
        # library loops driven by a size the program chooses
        ("tmove_range", "local n=%d local ok,e=pcall(table.move,{},1,n,2,{}) emit(ok)"),
        ("tinsert_len_mm", "local n=%d local t=setmetatable({},{__len=function() return n end}) emit(pcall(table.insert,t,1,0))"),
        ("tremove_len_mm", "local n=%d local t=setmetatable({},{__len=function() return n end}) emit(pcall(table.remove,t,1))"),
        ("tconcat_range", "local n=%d emit(pcall(table.concat,setmetatable({},{__index=function() return '' end}),'',1,n))"),
        ("sort_bad_order", "local n=math.min(%d,100000) local t={} for i=1,n do t[i]=i%%7 end emit(pcall(table.sort,t,function(a,b) return true end))"),
        ("utf8_len_big", "local s=string.rep('\\xe2\\x82\\xac',math.min(%d,2000000)) emit(utf8.len(s))"),
        ("utf8_codepoint_all", "local s=string.rep('a',math.min(%d,200)) emit(select('#',utf8.codepoint(s,1,-1)))"),
        ("utf8_offset_far", "local s=string.rep('a',math.min(%d,3000000)) emit(utf8.offset(s,#s))"),
        ("tonumber_long", "local s=string.rep('1',math.min(%d,3000000)) emit(tonumber(s)~=nil)"),
        ("tostring_mm_chain", "local n=math.min(%d,150) local t={} for i=1,n do t=setmetatable({},{__index=t}) end emit(t.x)"),
        ("rep_gsub_expand", "local s=string.rep('a',math.min(%d,100000)) emit(#(s:gsub('a','%%0%%0%%0%%0')))"),
        ("format_many", "local n=math.min(%d,200) local t={} for i=1,n do t[i]=i end emit(#string.format(string.rep('%%d',n),table.unpack(t)))"),
        ("select_far", "emit(select(math.min(%d,250),table.unpack((function() local t={} for i=1,250 do t[i]=i end return t end)())))"),
        ("next_big_table", "local n=math.min(%d,300000) local t={} for i=1,n do t[i]=i end for i=1,n-1 do t[i]=nil end emit(next(t))"),
        # file reads and buffers whose size the program chooses (lib/iolib): charged before they are allocated
        ("io_read_n", "local f=io.open('/dev/zero') emit(#f:read(%d))"),
        ("io_read_n_twice", "local n=%d local f=io.open('/dev/zero') emit(#f:read(n//2, n//2))"),
        ("io_read_line", "local n=%d local f=io.open('/dev/zero') emit(#f:read('l'))"),
        ("io_read_all", "local n=%d local f=io.open('/dev/zero') emit(#f:read('a'))"),
        ("io_lines_n", "for s in io.lines('/dev/zero', %d) do emit(#s) break end"),
        ("io_setvbuf", "local f=io.open('/dev/null','w') emit(f:setvbuf('full',%d))"),
        ("len_border", "local n=math.min(%d,300000) local t={} for i=1,n do t[i]=i end for i=n,2,-1 do t[i]=nil end emit(#t)"),
    ]
