#!/usr/bin/env python3
"""commit_hunks.py <repo> <message> <file>:<hunk idx,idx..|all> [...]  — stage selected hunks of the working-tree diff and commit them."""
import subprocess, sys, re, tempfile, os
repo, msg = sys.argv[1], sys.argv[2]
patch = ""
for spec in sys.argv[3:]:
    f, sel = spec.rsplit(":", 1)
    d = subprocess.check_output(["git", "-C", repo, "diff", "-U3", "--", f]).decode()
    if not d.strip():
        sys.exit("no diff for " + f)
    parts = re.split(r"(?m)^(?=@@ )", d)
    head, hunks = parts[0], parts[1:]
    idx = range(len(hunks)) if sel == "all" else [int(x) for x in sel.split(",")]
    patch += head + "".join(hunks[i] for i in idx)
with tempfile.NamedTemporaryFile("w", suffix=".diff", delete=False) as tf:
    tf.write(patch)
subprocess.check_call(["git", "-C", repo, "apply", "--cached", "--recount", tf.name])
os.unlink(tf.name)
subprocess.check_call(["git", "-C", repo, "commit", "-q", "-m", msg])
print(subprocess.check_output(["git", "-C", repo, "log", "--oneline", "-1"]).decode().strip())
