#!/usr/bin/env python3
# Rebuild MANIFEST.json from lib/props/*.manifest.json (one entry per claimed property).
import glob, json, os
V = os.path.dirname(os.path.dirname(os.path.abspath(__file__)))
m = json.load(open(os.path.join(V, "MANIFEST.json")))
registered = set(open(os.path.join(V, "lib", "registered.txt")).read().split())
checks = []
for p in sorted(glob.glob(os.path.join(V, "lib", "props", "C*.manifest.json"))):
    e = json.load(open(p))
    pid = e["property_id"]
    if not os.path.exists(os.path.join(V, "lib", "props", pid + ".py")) or pid not in registered:
        continue
    checks.append(e)
m["checks"] = checks
claimed = {c["property_id"] for c in checks}
allp = [json.loads(l)["id"] for l in open(os.path.join(V, "properties.jsonl"))]
reasons = {}
rp = os.path.join(V, "lib", "not_applicable.json")
if os.path.exists(rp):
    reasons = json.load(open(rp))
m["not_applicable"] = [{"property_id": p, "reason": reasons.get(p, "check under construction (not yet registered)")} for p in allp if p not in claimed]
json.dump(m, open(os.path.join(V, "MANIFEST.json"), "w"), indent=1)
print("claimed:", sorted(claimed))
