#!/usr/bin/env python3
"""seedtest.py <patch.diff> <Cxx> [quick|thorough]
Run a check against /repo + patch WITHOUT touching /repo: the patch is applied in a scratch
worktree under /tmp, an overlay maps the changed files, and the check runs with VERIF_OVERLAY.
(Checks that read /repo's source directly — translators — are pointed at the worktree through VERIF_REPO.)"""
import json, os, subprocess, sys, tempfile, shutil
patch, pid = os.path.abspath(sys.argv[1]), sys.argv[2]
tier = sys.argv[3] if len(sys.argv) > 3 else "quick"
wt = tempfile.mkdtemp(prefix="seedwt-", dir="/tmp")
os.rmdir(wt)
subprocess.check_call(["git", "-C", "/repo", "worktree", "add", "--detach", "-q", wt, "HEAD"])
try:
    subprocess.check_call(["git", "-C", wt, "apply", patch])
    changed = subprocess.check_output(["git", "-C", wt, "status", "--porcelain"]).decode().split("\n")
    repl = {}
    for line in changed:
        if not line.strip():
            continue
        f = line[3:].strip()
        repl[os.path.join("/repo", f)] = os.path.join(wt, f)
    ov = os.path.join(wt, "overlay.json")
    json.dump({"Replace": repl}, open(ov, "w"))
    env = dict(os.environ, VERIF_OVERLAY=ov, VERIF_SEEDED_WT=wt)
    rc = subprocess.call(["./check", pid, tier], cwd="/verif", env=env)
    print("seedtest: check exit code", rc)
    sys.exit(rc)
finally:
    # the translators of C08/C20 regenerate these from the PATCHED source during a seeded run: put the committed
    # (= generated from the unchanged tree) versions back so that nothing seeded is ever left in the working tree
    subprocess.call(["git", "-C", "/verif", "checkout", "--", "coq/theories/Flags/Generated.v", "coq/theories/Iso/Generated.v"])
    subprocess.call(["git", "-C", "/repo", "worktree", "remove", "--force", wt])
    shutil.rmtree(wt, ignore_errors=True)
