# gen_lua.py — Lua program generator shared by the language-level checks
# (C01, C11; reusable by C09/C10/C13/C14/C05).
#
#   * AST: `Node(kind, *args)`; constructors E_*/S_* below.  The AST is the one of
#     coq/theories/Lua/Syntax.v plus the syntactic sugar the renderer can spell
#     (`function t.a:m() end`).
#   * render(block, style, rng)  -> Lua source text; as a side effect every statement
#     node gets `.line` (if-arms: `.armlines`, repeat: `.until_line`) for THIS rendering.
#     Styles differ in parenthesisation, whitespace/comments/line breaks, literal
#     spellings and sugar; all styles denote the same AST.
#   * serialize(block) -> the S-expression read by oracle/luacore (uses the line
#     numbers of the most recent render()).
#   * ProgramGen(rng, profile).program() -> (block, [argument tuples], features)
#     Definedness discipline (DESIGN.md Appendix C.3): the generated programs never
#     observe pairs/next order, addresses, tostring of floats/tables, closure
#     identity, error-message text of run-time errors, `#` of tables with holes;
#     an expression (statement) contains at most one impure sub-expression unless
#     sequenced by and/or; expressions that share a statement with an impure call
#     read no state a function may write; loops are bounded by construction.
#   * shrink(block, still_fails) -> smaller block (AST reduction).
import struct


class Node:
    __slots__ = ("k", "a", "line", "armlines", "until_line")

    def __init__(self, k, *a):
        self.k = k
        self.a = list(a)
        self.line = 0
        self.armlines = None
        self.until_line = 0

    def __repr__(self):
        return "%s%r" % (self.k, tuple(self.a))


def N(k, *a):
    return Node(k, *a)


# ---- expression constructors
def Nil(): return N("nil")
def TrueE(): return N("true")
def FalseE(): return N("false")
def Int(z):
    """integer literal; negative values are spelled with unary minus"""
    if z < 0:
        if z == -(1 << 63):
            return N("ix", N("var", "math"), N("str", b"mininteger"))
        return N("un", "neg", N("int", -z))
    return N("int", z)
def Flt(x):
    """float literal from a python float (finite, non-negative sign handled by unary minus)"""
    bits = struct.unpack("<Q", struct.pack("<d", x))[0]
    if bits >> 63:
        return N("un", "neg", N("flt", bits & ((1 << 63) - 1)))
    return N("flt", bits)
def Str(b):
    if isinstance(b, str):
        b = b.encode("latin1")
    return N("str", b)
def Dots(): return N("dots")
def Var(x): return N("var", x)
def Ix(e, k): return N("ix", e, k)
def Fld(e, name): return N("ix", e, Str(name))
def Call(f, *args): return N("call", f, list(args))
def Meth(o, m, *args): return N("meth", o, m, list(args))
def Fn(params, va, body): return N("fn", list(params), bool(va), body)
def Bin(op, a, b): return N("bin", op, a, b)
def And(a, b): return N("and", a, b)
def Or(a, b): return N("or", a, b)
def Un(op, a): return N("un", op, a)
def Par(e): return N("par", e)
def Tab(*fields): return N("tab", list(fields))
def FPos(e): return ("p", e)
def FNamed(k, e): return ("n", k, e)
def FKey(k, e): return ("k", k, e)


# ---- statement constructors
def Local(names, es, attribs=None):
    attribs = attribs or ["-"] * len(names)
    return N("local", list(zip(names, attribs)), list(es))
def Assign(lhs, es): return N("assign", list(lhs), list(es))
def SCall(e): return N("scall", e)
def Do(b): return N("do", b)
def While(c, b): return N("while", c, b)
def Repeat(b, c): return N("repeat", b, c)
def If(arms, els=None): return N("if", list(arms), els)
def For(x, e1, e2, e3, b): return N("for", x, e1, e2, e3, b)
def ForIn(xs, es, b): return N("forin", list(xs), list(es), b)
def Goto(l): return N("goto", l)
def Label(l): return N("label", l)
def Break(): return N("break")
def Return(*es): return N("return", list(es))
def LocalFn(f, fn): return N("localfn", f, fn)
def FunStat(path, meth, fn):
    """function a.b.c:m(...) ... end  ==  a.b.c.m = function(self, ...) ... end"""
    return N("funstat", list(path), meth, fn)


BINOPS = {
    "or": (1, 1, "or"), "and": (2, 2, "and"),
    "lt": (3, 3, "<"), "gt": (3, 3, ">"), "le": (3, 3, "<="), "ge": (3, 3, ">="), "ne": (3, 3, "~="), "eq": (3, 3, "=="),
    "bor": (4, 4, "|"), "bxor": (5, 5, "~"), "band": (6, 6, "&"), "shl": (7, 7, "<<"), "shr": (7, 7, ">>"),
    "concat": (9, 8, ".."), "add": (10, 10, "+"), "sub": (10, 10, "-"),
    "mul": (11, 11, "*"), "div": (11, 11, "/"), "idiv": (11, 11, "//"), "mod": (11, 11, "%"),
    "pow": (14, 13, "^"),
}
UNARY_PRIORITY = 12
UNOPS = {"neg": "-", "not": "not ", "len": "#", "bnot": "~"}


# =====================================================================================
# Renderer
# =====================================================================================
class Renderer:
    """style keys: parens (0..3: frequency of redundant parentheses), hexints, strq
    ('d' double quotes, 's' single quotes + hex escapes, 'mix' incl. long brackets),
    sugar (f"str", f{tab}, t["k"] spellings, `;` field separators, function statements),
    compact (several statements per line), comments, semis, blank, longflt."""

    def __init__(self, style, rng):
        self.st = style
        self.rng = rng
        self.marks = []

    def mark(self, node, attr, idx=None):
        self.marks.append((node, attr, idx))
        return "\x00%d\x00" % (len(self.marks) - 1)

    def nl(self, ind):
        if self.st.get("compact") and self.rng.chance(2, 3):
            return " "
        r = "\n"
        if self.st.get("blank") and self.rng.chance(1, 5):
            r += "\n"
        if self.st.get("comments") and self.rng.chance(1, 6):
            r += self.rng.choice(["-- c\n", "--[[ block\n comment ]]\n", "--[==[ x ]==]\n", "--\n", "--[[\nlong\n]]\n", "--[=[\n]=]\n"])
        return r + ("" if self.st.get("compact") else "  " * ind)

    # -------------------------------------------------------------- literals
    def str_lit(self, b):
        mode = self.st.get("strq", "d")
        if mode == "mix":
            mode = self.rng.choice(["d", "s", "l", "x"])
        # multi-line long strings only where no error position can depend on the layout
        printable = all(32 <= c < 127 or (c == 10 and getattr(self, "ml_ok", False)) for c in b)
        if mode == "l" and printable and b and b"]" not in b:
            eq = "=" * self.rng.below(3)
            # a line end directly after the opening bracket is skipped; raw line ends inside are \n
            lead = "\n" if (b[:1] == b"\n" or (getattr(self, "ml_ok", False) and self.rng.chance(1, 2))) else ""
            return "[%s[%s%s]%s]" % (eq, lead, b.decode("latin1"), eq)
        q = "'" if mode == "s" else '"'
        r = [q]
        for i, c in enumerate(b):
            ch = chr(c)
            if ch == q or ch == "\\":
                r.append("\\" + ch)
            elif c == 10:
                r.append("\\n")
            elif 32 <= c < 127 and not (mode == "x" and self.rng.chance(1, 3)):
                r.append(ch)
            elif mode in ("x", "s"):
                r.append("\\x%02x" % c)
            else:
                nxt = b[i + 1] if i + 1 < len(b) else 0
                r.append("\\%03d" % c if (48 <= nxt <= 57 or self.rng.chance(1, 2)) else "\\%d" % c)
        r.append(q)
        return "".join(r)

    def int_lit(self, z):
        if self.st.get("hexints") and self.rng.chance(1, 2):
            return ("0x%x" if self.rng.chance(1, 2) else "0X%X") % z
        return "%d" % z

    def flt_lit(self, bits):
        x = struct.unpack("<d", struct.pack("<Q", bits))[0]
        if x != x or x in (float("inf"), float("-inf")):
            raise ValueError("no literal for inf/nan")
        s = repr(x) if not self.st.get("longflt") else "%.17g" % x
        if not any(ch in s for ch in ".en"):
            s += ".0"
        return s

    # -------------------------------------------------------------- expressions
    def prefix(self, e, ind):
        if e.k in ("var", "ix", "call", "meth", "par"):
            return self.exp(e, 0, ind)
        return "(" + self.exp(e, 0, ind) + ")"

    def args(self, es, ind):
        if self.st.get("sugar") and len(es) == 1 and es[0].k == "str" and self.rng.chance(1, 2):
            return " " + self.str_lit(es[0].a[0])
        if self.st.get("sugar") and len(es) == 1 and es[0].k == "tab" and self.rng.chance(1, 2):
            return self.exp(es[0], 0, ind)
        sep = "," if self.st.get("compact") else ", "
        return "(" + sep.join(self.exp(x, 0, ind, single=(i < len(es) - 1)) for i, x in enumerate(es)) + ")"

    def exp(self, e, prec, ind, single=False):
        """single: the position keeps one value only, so redundant parentheses are harmless"""
        k = e.k
        p = self.st.get("parens", 0)
        if k == "nil": return "nil"
        if k == "true": return "true"
        if k == "false": return "false"
        if k == "int": return self.int_lit(e.a[0])
        if k == "flt": return self.flt_lit(e.a[0])
        if k == "str": return self.str_lit(e.a[0])
        if k == "dots": return "..."
        if k == "var":
            if single and p > 1 and self.rng.chance(1, 6):
                return "(" + e.a[0] + ")"
            return e.a[0]
        if k == "par": return "(" + self.exp(e.a[0], 0, ind) + ")"
        if k == "ix":
            base, key = e.a
            if key.k == "str" and is_name(key.a[0]) and not (self.st.get("sugar") and self.rng.chance(1, 3)):
                return self.prefix(base, ind) + "." + key.a[0].decode()
            return self.prefix(base, ind) + "[ " + self.exp(key, 0, ind, True) + " ]"
        if k == "call":
            return self.prefix(e.a[0], ind) + self.args(e.a[1], ind)
        if k == "meth":
            return self.prefix(e.a[0], ind) + ":" + e.a[1] + self.args(e.a[2], ind)
        if k == "fn":
            return self.fn_text(e, "function", ind)
        if k == "tab":
            parts = []
            n = len(e.a[0])
            for i, f in enumerate(e.a[0]):
                if f[0] == "p":
                    parts.append(self.exp(f[1], 0, ind, single=(i < n - 1)))
                elif f[0] == "n":
                    parts.append("%s = %s" % (f[1], self.exp(f[2], 0, ind, True)))
                else:
                    parts.append("[ %s ] = %s" % (self.exp(f[1], 0, ind, True), self.exp(f[2], 0, ind, True)))
            sep = self.rng.choice([", ", "; "]) if self.st.get("sugar") else ", "
            trail = sep.strip() if (parts and self.st.get("sugar") and self.rng.chance(1, 4)) else ""
            return "{" + sep.join(parts) + trail + "}"
        if k in ("bin", "and", "or"):
            if k == "bin":
                op, a, b = e.a
            else:
                op, (a, b) = k, e.a
            lp, rp, sym = BINOPS[op]
            # Lua's operator-precedence parser: the left operand is parsed with limit lp-? ; we
            # parenthesise a child whenever its own priority is not strictly higher, except
            # for the associativity side
            sa = self.exp(a, lp if lp <= rp else lp - 1, ind, True) if False else self.exp(a, self._lim_left(op), ind, True)
            sb = self.exp(b, self._lim_right(op), ind, True)
            s = "%s %s %s" % (sa, sym, sb)
            if lp <= prec or (p and single and self.rng.chance(p, 6)):
                return "(" + s + ")"
            return s
        if k == "un":
            op, a = e.a
            sa = self.exp(a, UNARY_PRIORITY - 1, ind, True)
            sym = UNOPS[op]
            if sym in ("-", "~") and sa[:1] in ("-", "~"):
                sa = " " + sa
            s = sym + sa
            if UNARY_PRIORITY <= prec or (p and single and self.rng.chance(p, 8)):
                return "(" + s + ")"
            return s
        raise ValueError("exp kind " + k)

    # a child expression with (left) priority q is parenthesised iff q <= limit.
    # For a left-associative operator of priority P: left child limit P-1 (same priority
    # may stay), right child limit P.  For right-associative (.. and ^): left limit P,
    # right limit P-1.  Unary operators have priority 12, so `-x^2` is -(x^2) and
    # `(-x)^2` needs parentheses: the left operand of ^ gets limit 14 >= 12.
    def _lim_left(self, op):
        lp, rp, _ = BINOPS[op]
        return lp - 1 if lp <= rp else lp
    def _lim_right(self, op):
        lp, rp, _ = BINOPS[op]
        return lp if lp <= rp else lp - 1

    def fn_text(self, e, head, ind, skip_self=False):
        params, va, body = e.a
        ps = list(params[1:] if skip_self else params) + (["..."] if va else [])
        return "%s(%s)" % (head, ", ".join(ps)) + self.block(body, ind + 1) + self.nl(ind) + "end"

    # -------------------------------------------------------------- statements
    def block(self, b, ind):
        return "".join(self.nl(ind) + self.stat(s, ind) for s in b)

    def explist(self, es, ind, single_last=False):
        return ", ".join(self.exp(x, 0, ind, single=(i < len(es) - 1) or single_last) for i, x in enumerate(es))

    def stat(self, s, ind):
        k = s.k
        semi = ";" if (self.st.get("semis") and self.rng.chance(1, 3)) else ""
        m = self.mark(s, "line")
        if k == "local":
            names = ", ".join(n + ("" if a == "-" else " <%s>" % a) for n, a in s.a[0])
            t = "local " + names
            if s.a[1]:
                self.ml_ok = all(e.k == "str" for e in s.a[1])
                t += " = " + self.explist(s.a[1], ind)
                self.ml_ok = False
        elif k == "assign":
            t = ", ".join(self.exp(x, 0, ind) for x in s.a[0]) + " = " + self.explist(s.a[1], ind)
        elif k == "scall":
            t = self.exp(s.a[0], 0, ind)
        elif k == "do":
            t = "do" + self.block(s.a[0], ind + 1) + self.nl(ind) + "end"
        elif k == "while":
            t = "while " + self.exp(s.a[0], 0, ind, True) + " do" + self.block(s.a[1], ind + 1) + self.nl(ind) + "end"
        elif k == "repeat":
            t = ("repeat" + self.block(s.a[0], ind + 1) + self.nl(ind) + self.mark(s, "until_line") + "until "
                 + self.exp(s.a[1], 0, ind, True))
        elif k == "if":
            s.armlines = [0] * len(s.a[0])
            t = ""
            for i, (c, b) in enumerate(s.a[0]):
                if i:
                    t += self.nl(ind)
                t += self.mark(s, "armlines", i) + ("if " if i == 0 else "elseif ") + self.exp(c, 0, ind, True) + " then"
                t += self.block(b, ind + 1)
            if s.a[1] is not None:
                t += self.nl(ind) + "else" + self.block(s.a[1], ind + 1)
            t += self.nl(ind) + "end"
        elif k == "for":
            x, e1, e2, e3, b = s.a
            t = "for %s = %s, %s" % (x, self.exp(e1, 0, ind, True), self.exp(e2, 0, ind, True))
            if e3 is not None:
                t += ", " + self.exp(e3, 0, ind, True)
            t += " do" + self.block(b, ind + 1) + self.nl(ind) + "end"
        elif k == "forin":
            xs, es, b = s.a
            t = "for %s in %s do" % (", ".join(xs), self.explist(es, ind)) + self.block(b, ind + 1) + self.nl(ind) + "end"
        elif k == "goto":
            t = "goto " + s.a[0]
        elif k == "label":
            t = "::" + s.a[0] + "::"
        elif k == "break":
            t = "break"
        elif k == "return":
            t = "return" + ((" " + self.explist(s.a[0], ind)) if s.a[0] else "")
        elif k == "localfn":
            t = self.fn_text(s.a[1], "local function " + s.a[0], ind)
        elif k == "funstat":
            path, meth, fn = s.a
            if self.st.get("sugar", True) or meth:
                t = self.fn_text(fn, "function " + ".".join(path) + ((":" + meth) if meth else ""), ind, skip_self=bool(meth))
            else:
                t = ".".join(path) + " = " + self.exp(fn, 0, ind)
        else:
            raise ValueError("stat kind " + k)
        if t.startswith("("):
            t = ";" + t
        return m + t + semi

    def render(self, block):
        self.marks = []
        text = self.block(block, 0).lstrip("\n ") if False else self.block(block, 0)
        text += "\n"
        out = []
        line = 1
        parts = text.split("\x00")
        # parts alternate: text, mark index, text, mark index, ...
        for i, p in enumerate(parts):
            if i % 2 == 0:
                out.append(p)
                line += p.count("\n")
            else:
                node, attr, idx = self.marks[int(p)]
                if idx is None:
                    setattr(node, attr, line)
                else:
                    getattr(node, attr)[idx] = line
        return "".join(out)


def is_name(b):
    try:
        s = b.decode("ascii")
    except UnicodeDecodeError:
        return False
    if not s or not (s[0].isalpha() or s[0] == "_"):
        return False
    if not all(c.isalnum() or c == "_" for c in s):
        return False
    return s not in KEYWORDS


KEYWORDS = {"and", "break", "do", "else", "elseif", "end", "false", "for", "function", "goto", "if", "in", "local",
            "nil", "not", "or", "repeat", "return", "then", "true", "until", "while"}

STYLES = [
    {"name": "plain"},
    {"name": "parens", "parens": 3, "hexints": True, "strq": "mix", "comments": True, "blank": True, "longflt": True},
    {"name": "compact", "compact": True, "semis": True, "parens": 1, "strq": "s", "sugar": True},
    {"name": "sugar", "sugar": True, "parens": 2, "strq": "mix", "semis": True, "comments": True},
]


EOLS = ["\n", "\r\n", "\r", "\n\r"]


def render(block, style, rng, eol="\n"):
    """Lua source for the block; sets .line/.armlines/.until_line on the statements.
    eol: the line end used in the text (LF, CRLF, CR, LFCR all count as one line end in Lua;
    inside long strings they denote \n)"""
    if isinstance(style, int):
        style = STYLES[style % len(STYLES)]
    text = Renderer(style, rng).render(block)
    if eol != "\n":
        text = text.replace("\n", eol)
    return text


# =====================================================================================
# Serialiser (S-expression for oracle/luacore; see oracle/luacore/driver.ml)
# =====================================================================================
def hx(b):
    if isinstance(b, str):
        b = b.encode("latin1")
    return b.hex() if b else "-"


def zh(z):
    return ("-%x" % -z) if z < 0 else ("%x" % z)


def ser_exp(e):
    k = e.k
    if k in ("nil", "true", "false"):
        return k
    if k == "dots":
        return "..."
    if k == "int":
        return "(i %s)" % zh(e.a[0])
    if k == "flt":
        return "(f %x)" % e.a[0]
    if k == "str":
        return "(s %s)" % hx(e.a[0])
    if k == "var":
        return "(v %s)" % hx(e.a[0])
    if k == "ix":
        return "(ix %s %s)" % (ser_exp(e.a[0]), ser_exp(e.a[1]))
    if k == "call":
        return "(call %s)" % " ".join([ser_exp(e.a[0])] + [ser_exp(x) for x in e.a[1]])
    if k == "meth":
        return "(meth %s %s)" % (ser_exp(e.a[0]), " ".join([hx(e.a[1])] + [ser_exp(x) for x in e.a[2]]))
    if k == "fn":
        return "(fn (%s) %d %s)" % (" ".join(hx(p) for p in e.a[0]), 1 if e.a[1] else 0, ser_block(e.a[2]))
    if k == "bin":
        return "(bin %s %s %s)" % (e.a[0], ser_exp(e.a[1]), ser_exp(e.a[2]))
    if k in ("and", "or"):
        return "(%s %s %s)" % (k, ser_exp(e.a[0]), ser_exp(e.a[1]))
    if k == "un":
        return "(un %s %s)" % (e.a[0], ser_exp(e.a[1]))
    if k == "par":
        return "(par %s)" % ser_exp(e.a[0])
    if k == "tab":
        fs = []
        for f in e.a[0]:
            if f[0] == "p":
                fs.append("(p %s)" % ser_exp(f[1]))
            elif f[0] == "n":
                fs.append("(n %s %s)" % (hx(f[1]), ser_exp(f[2])))
            else:
                fs.append("(k %s %s)" % (ser_exp(f[1]), ser_exp(f[2])))
        return "(tab %s)" % " ".join(fs) if fs else "(tab)"
    raise ValueError("ser_exp " + k)


def ser_stat(s):
    k = s.k
    if k == "local":
        return "(local (%s) (%s))" % (" ".join("(%s %s)" % (hx(n), a) for n, a in s.a[0]),
                                      " ".join(ser_exp(x) for x in s.a[1]))
    if k == "assign":
        return "(assign (%s) (%s))" % (" ".join(ser_exp(x) for x in s.a[0]), " ".join(ser_exp(x) for x in s.a[1]))
    if k == "scall":
        return "(scall %s)" % ser_exp(s.a[0])
    if k == "do":
        return "(do %s)" % ser_block(s.a[0])
    if k == "while":
        return "(while %s %s)" % (ser_exp(s.a[0]), ser_block(s.a[1]))
    if k == "repeat":
        return "(repeat %s %x %s)" % (ser_block(s.a[0]), s.until_line, ser_exp(s.a[1]))
    if k == "if":
        arms = " ".join("(%x %s %s)" % (s.armlines[i] if s.armlines else 0, ser_exp(c), ser_block(b))
                        for i, (c, b) in enumerate(s.a[0]))
        return "(if (%s) %s)" % (arms, ser_block(s.a[1] or []))
    if k == "for":
        x, e1, e2, e3, b = s.a
        return "(for %s %s %s %s %s)" % (hx(x), ser_exp(e1), ser_exp(e2), ser_exp(e3) if e3 is not None else "(i 1)",
                                         ser_block(b))
    if k == "forin":
        return "(forin (%s) (%s) %s)" % (" ".join(hx(x) for x in s.a[0]), " ".join(ser_exp(x) for x in s.a[1]),
                                         ser_block(s.a[2]))
    if k == "goto":
        return "(goto %s)" % hx(s.a[0])
    if k == "label":
        return "(label %s)" % hx(s.a[0])
    if k == "break":
        return "(break)"
    if k == "return":
        return "(return %s)" % " ".join(ser_exp(x) for x in s.a[0]) if s.a[0] else "(return)"
    if k == "localfn":
        return "(localfn %s %s)" % (hx(s.a[0]), ser_exp(s.a[1]))
    if k == "funstat":
        # manual 3.4.11: function t.a.b:m(ps) body end  ==  t.a.b.m = function(self, ps) body end
        path, meth, fn = s.a
        tgt = Var(path[0])
        for p in path[1:]:
            tgt = Fld(tgt, p)
        if meth:
            tgt = Fld(tgt, meth)
        return "(assign (%s) (%s))" % (ser_exp(tgt), ser_exp(fn))
    raise ValueError("ser_stat " + k)


def ser_block(b):
    return "(%s)" % " ".join("(%x %s)" % (s.line, ser_stat(s)) for s in b)


def serialize(block):
    return ser_block(block)


# =====================================================================================
# Program generator
# =====================================================================================
class V:
    """a local variable known to the generator"""
    __slots__ = ("name", "ty", "mutable", "info", "shared", "level")

    def __init__(self, name, ty, mutable=True, info=None, level=0):
        self.name = name
        self.ty = ty
        self.mutable = mutable
        self.info = info or {}
        self.shared = False       # assigned inside some function body
        self.level = level        # function nesting level of the declaration


INT_BOUNDARY = [0, 1, 2, 3, 7, 10, 255, 256, 65535, 1 << 31, (1 << 31) - 1, 1 << 32, (1 << 53), (1 << 53) + 1,
                (1 << 62), (1 << 63) - 1]
STR_POOL = [b"", b"a", b"ab", b"abc", b"hello", b"x y", b"10", b"0x10", b" 7 ", b"3.5", b"-2", b"1e2", b"a\nb", b"\x00\xff", b"q\"'\\",
            b"key", b"k1", b"]]", b"--", b"nil", b"Z"]
NUMERIC_STRS = [b"10", b"0x10", b" 7 ", b"-2", b"3", b"007", b"2.5", b"1e2", b"0.5"]
FLT_POOL = [0.0, 0.5, 1.0, 1.5, 2.0, -0.5, 0.25, 3.0, 10.0, 0.1, 1e10, 1e100, 2.0 ** 53, 1e-3, 123.456, 7.0, -3.75]


class ProgramGen:
    def __init__(self, rng, profile=None):
        self.rng = rng
        self.pf = dict(floats=True, meta=True, errors=True, goto=True, strings=True, coerce=True, level2=True, stage4=True,
                       paren_dots=True, unary_dummy=True, forin_capture=True, pow_error=True, assert_str=True, xpcall_co=True)
        if profile:
            self.pf.update(profile)
        self.scopes = [[]]
        self.nname = 0
        self.budget = 30 + rng.below(40)
        self.loop_depth = 0
        self.fn_level = 0
        self.in_va = True
        self.pure = False
        self.impc = 0            # number of impure sub-expressions generated so far
        self.feats = {}
        self.nlabel = 0
        self.block_depth = 0

    # ------------------------------------------------------------------ helpers
    def feat(self, k):
        self.feats[k] = self.feats.get(k, 0) + 1

    def fresh(self, prefix="v"):
        # sometimes reuse a visible name (shadowing)
        if prefix == "v" and self.rng.chance(1, 12):
            vs = [v for v in self.visible() if v.name.startswith("v")]
            if vs:
                self.feat("shadowing")
                return self.rng.choice(vs).name
        self.nname += 1
        return "%s%d" % (prefix, self.nname)

    def visible(self):
        seen, out = set(), []
        for sc in reversed(self.scopes):
            for v in reversed(sc):
                if v.name not in seen:
                    seen.add(v.name)
                    out.append(v)
        return out

    def declare(self, v):
        v.level = self.fn_level
        self.scopes[-1].append(v)
        return v

    def vars_of(self, ty, strict=False, assignable=False):
        out = []
        for v in self.visible():
            if v.ty != ty:
                continue
            if strict and (v.shared or (v.mutable and v.level < self.fn_level and False)):
                continue
            if self.pure and v.level < self.fn_level and (v.mutable or v.shared):
                continue
            if assignable:
                if not v.mutable:
                    continue
                if self.pure and v.level < self.fn_level:
                    continue
            out.append(v)
        return out

    def push(self):
        self.scopes.append([])

    def pop(self):
        self.scopes.pop()

    # ------------------------------------------------------------------ expressions
    def small_int(self):
        r = self.rng
        k = r.below(10)
        if k < 6:
            return r.below(12) - 2
        if k < 8:
            return r.below(200) - 50
        z = r.choice(INT_BOUNDARY)
        return -z if r.chance(1, 4) else z

    def int_leaf(self, strict):
        vs = self.vars_of("int", strict)
        if vs and self.rng.chance(3, 5):
            return Var(self.rng.choice(vs).name)
        return Int(self.small_int())

    def exp(self, ty, d=0, imp=False, strict=False):
        return getattr(self, "e_" + ty)(d, imp, strict)

    def two(self, ta, tb, d, imp, strict):
        """two operands; at most one of them may be impure; the other is then strict"""
        if imp and self.rng.chance(1, 2):
            first = self.rng.below(2)
            c0 = self.impc
            if first == 0:
                a = self.exp(ta, d + 1, True, strict)
                used = self.impc != c0
                b = self.exp(tb, d + 1, False, strict or used)
            else:
                b = self.exp(tb, d + 1, True, strict)
                used = self.impc != c0
                a = self.exp(ta, d + 1, False, strict or used)
            return a, b
        return self.exp(ta, d + 1, False, strict), self.exp(tb, d + 1, False, strict)

    def args_for(self, tys, d, imp, strict):
        """argument list; at most one impure argument"""
        n = len(tys)
        res = [None] * n
        order = list(range(n))
        fav = self.rng.below(n) if (n and imp and self.rng.chance(1, 2)) else -1
        used = False
        if fav >= 0:
            c0 = self.impc
            res[fav] = self.exp(tys[fav], d + 1, True, strict)
            used = self.impc != c0
        for i in order:
            if res[i] is None:
                res[i] = self.exp(tys[i], d + 1, False, strict or used)
        return res

    def call_fn(self, v, d, imp, strict):
        """a call of generator-known function v (all parameters are ints)"""
        info = v.info
        args = self.args_for(["int"] * info["np"], d, imp and info["pure"], strict)
        if info["va"]:
            extra = self.rng.below(3)
            args += [self.exp(self.rng.choice(["int", "str"]), d + 1, False, True) for _ in range(extra)]
        if not info["pure"]:
            self.impc += 1
        self.feat("call:" + ("pure" if info["pure"] else "impure"))
        return Call(Var(v.name), *args)

    def fns(self, imp, strict, ret0=None):
        out = []
        for v in self.visible():
            if v.ty != "fn":
                continue
            i = v.info
            if not i["pure"] and (not imp or self.pure):
                continue
            if self.pure and v.level < self.fn_level and v.mutable:
                continue
            if i.get("busy"):
                continue
            if ret0 is not None and (not i["rets"] or i["rets"][0] != ret0):
                continue
            out.append(v)
        return out

    def e_int(self, d, imp, strict):
        r = self.rng
        if d >= 3 or r.chance(1, 4):
            return self.int_leaf(strict)
        k = r.below(100)
        if k < 30:
            op = r.choice(["add", "sub", "mul", "add", "sub", "band", "bor", "bxor"])
            a, b = self.two("int", "int", d, imp, strict)
            return Bin(op, a, b)
        if k < 38:
            op = r.choice(["idiv", "mod"])
            a = self.exp("int", d + 1, imp, strict)
            dv = r.choice([1, 2, 3, 5, 7, -1, -2, -3, 10, 256])
            self.feat("op:" + op)
            return Bin(op, a, Int(dv))
        if k < 43:
            a = self.exp("int", d + 1, imp, strict)
            self.feat("op:shift")
            return Bin(r.choice(["shl", "shr"]), a, Int(r.choice([0, 1, 2, 3, 31, 32, 63, 64, 65, -1, -2])))
        if k < 48:
            return Un(r.choice(["neg", "bnot"]), self.exp("int", d + 1, imp, strict))
        if k < 54:
            if self.pf["strings"]:
                return Un("len", self.exp("str", d + 1, imp, strict))
        if k < 60:
            fs = self.fns(imp, strict, "int")
            if fs:
                return self.call_fn(r.choice(fs), d, imp, strict)
        if k < 65 and imp and not self.pure:
            self.impc += 1
            self.feat("emit-in-exp")
            return Call(Var("emit"), self.exp("int", d + 1, False, strict))
        if k < 70:
            c = self.exp("bool", d + 1, imp, strict)
            self.feat("and-or-select")
            return Or(And(c, self.exp("int", d + 1, False, True)), self.exp("int", d + 1, False, True))
        if k < 74 and self.in_va and not strict:
            self.feat("select#")
            return Call(Var("select"), Str("#"), Dots())
        if k < 80 and not strict:
            vs = self.vars_of("seq")
            if vs:
                v = r.choice(vs)
                self.feat("seq-read")
                if r.chance(1, 2):
                    return Un("len", Var(v.name))
                return Par(Or(Ix(Var(v.name), self.exp("int", d + 1, False, True)), Int(self.small_int())))
        if k < 86 and not strict:
            vs = self.vars_of("rec")
            if vs:
                v = r.choice(vs)
                self.feat("rec-read")
                return Fld(Var(v.name), r.choice(v.info["fields"]))
        if k < 90 and self.pf["coerce"]:
            self.feat("coerce:str-arith")
            s = r.choice([b"10", b"0x10", b" 7 ", b"-2", b"3"])
            return Bin(r.choice(["add", "mul", "sub"]), Str(s), self.exp("int", d + 1, imp, strict))
        if k < 93 and self.pf["floats"]:
            self.feat("math.tointeger")
            return Par(Or(Call(Fld(Var("math"), "tointeger"), self.exp("flt", d + 1, imp, strict)), Int(-1)))
        if k < 96:
            return Par(self.exp("int", d + 1, imp, strict))
        return self.int_leaf(strict)

    def e_flt(self, d, imp, strict):
        r = self.rng
        if not self.pf["floats"]:
            return Flt(1.5)
        vs = self.vars_of("flt", strict)
        if d >= 3 or r.chance(1, 3):
            if vs and r.chance(1, 2):
                return Var(r.choice(vs).name)
            return Flt(r.choice(FLT_POOL))
        k = r.below(100)
        self.feat("float-op")
        if k < 40:
            a, b = self.two("flt", r.choice(["flt", "int"]), d, imp, strict)
            if r.chance(1, 2):
                a, b = b, a
            return Bin(r.choice(["add", "sub", "mul", "div"]), a, b)
        if k < 55:
            a, b = self.two("int", "int", d, imp, strict)
            return Bin("div", a, b)
        if k < 65:
            return Un("neg", self.exp("flt", d + 1, imp, strict))
        if k < 75:
            a = self.exp("flt", d + 1, imp, strict)
            return Bin("idiv", a, r.choice([Flt(2.0), Flt(0.5), Int(3), Flt(1.0)]))
        if k < 82:
            self.feat("pow")
            return Bin("pow", Int(r.choice([2, 3, 10, -2])), Int(r.below(6)))
        if k < 88:
            self.feat("float-mod")
            return Bin("mod", Flt(r.choice([5.5, -5.5, 7.0, 0.75, -3.25])), Flt(r.choice([2.0, -2.0, 0.5, 1.25])))
        if k < 94:
            return Bin("add", self.exp("int", d + 1, imp, strict), Flt(r.choice([0.0, 0.5, 1.0])))
        return Flt(r.choice(FLT_POOL))

    def e_str(self, d, imp, strict):
        r = self.rng
        vs = self.vars_of("str", strict)
        if d >= 3 or r.chance(1, 3) or not self.pf["strings"]:
            if vs and r.chance(1, 2):
                return Var(r.choice(vs).name)
            return Str(r.choice(STR_POOL))
        k = r.below(100)
        if k < 35:
            a, b = self.two(r.choice(["str", "int"]), r.choice(["str", "str", "int"]), d, imp, strict)
            self.feat("concat")
            return Bin("concat", a, b)
        if k < 45:
            self.feat("tostring")
            return Call(Var("tostring"), self.exp(r.choice(["int", "bool", "str"]), d + 1, imp, strict))
        if k < 60:
            s = self.exp("str", d + 1, imp, strict)
            i, j = r.below(7) - 3, r.below(8) - 3
            self.feat("str:sub")
            if r.chance(1, 2):
                return Meth(s, "sub", Int(i), Int(j))
            return Call(Fld(Var("string"), "sub"), s, Int(i))
        if k < 68:
            self.feat("str:rep")
            return Meth(self.exp("str", d + 1, imp, strict), "rep", Int(r.below(4)))
        if k < 75:
            self.feat("type()")
            return Call(Var("type"), self.exp(r.choice(["int", "str", "bool", "any", "flt"]), d + 1, imp, strict))
        if k < 80:
            self.feat("string.char")
            return Call(Fld(Var("string"), "char"), Int(65 + r.below(26)), Int(r.below(256)))
        if k < 86:
            fs = self.fns(imp, strict, "str")
            if fs:
                return self.call_fn(r.choice(fs), d, imp, strict)
        if k < 92:
            self.feat("math.type")
            return Par(Or(Call(Fld(Var("math"), "type"), self.exp(r.choice(["int", "flt"]) if self.pf["floats"] else "int", d + 1, imp, strict)), Str("none")))
        return Str(r.choice(STR_POOL))

    def e_bool(self, d, imp, strict):
        r = self.rng
        vs = self.vars_of("bool", strict)
        if d >= 3 or r.chance(1, 5):
            if vs and r.chance(1, 2):
                return Var(r.choice(vs).name)
            return TrueE() if r.chance(1, 2) else FalseE()
        k = r.below(100)
        if k < 45:
            op = r.choice(["lt", "le", "gt", "ge", "eq", "ne"])
            a, b = self.two("int", "int", d, imp, strict)
            self.feat("cmp:int")
            return Bin(op, a, b)
        if k < 55 and self.pf["strings"]:
            op = r.choice(["lt", "le", "gt", "ge", "eq", "ne"])
            a, b = self.two("str", "str", d, imp, strict)
            self.feat("cmp:str")
            return Bin(op, a, b)
        if k < 63 and self.pf["floats"]:
            op = r.choice(["lt", "le", "gt", "ge", "eq", "ne"])
            a, b = self.two("flt", r.choice(["flt", "int"]), d, imp, strict)
            self.feat("cmp:mixed")
            return Bin(op, a, b)
        if k < 72:
            return Un("not", self.exp(r.choice(["bool", "any", "int"]), d + 1, imp, strict))
        if k < 80:
            a = self.exp("bool", d + 1, imp, strict)
            b = self.exp("bool", d + 1, imp, strict)     # sequenced by and/or: both may be impure
            self.feat("and-or")
            return (And if r.chance(1, 2) else Or)(a, b)
        if k < 88:
            a, b = self.two("any", "any", d, imp, strict)
            self.feat("eq:any")
            return Bin(r.choice(["eq", "ne"]), a, b)
        if k < 92:
            a, b = self.two("any", "any", d, imp, strict)
            return Call(Var("rawequal"), a, b)
        return TrueE() if r.chance(1, 2) else FalseE()

    def e_any(self, d, imp, strict):
        r = self.rng
        k = r.below(100)
        if k < 25:
            return self.exp("int", d, imp, strict)
        if k < 40:
            return self.exp("str", d, imp, strict)
        if k < 50:
            return self.exp("bool", d, imp, strict)
        if k < 58 and self.pf["floats"]:
            return self.exp("flt", d, imp, strict)
        if k < 64:
            return Nil()
        if k < 72 and not strict:
            vs = self.vars_of("seq") + self.vars_of("rec")
            if vs:
                v = r.choice(vs)
                return Ix(Var(v.name), self.exp(r.choice(["int", "str"]), d + 1, False, True))
        if k < 78 and self.in_va and not strict:
            self.feat("select-n")
            return Par(Call(Var("select"), Int(r.choice([1, 2, -1])), Str("pad"), Dots()))
        if k < 84 and self.in_va and not strict and self.pf.get("paren_dots"):
            self.feat("dots-paren")
            return Par(Dots())
        if k < 90:
            vs = [v for v in self.vars_of("any", strict)]
            if vs:
                return Var(r.choice(vs).name)
        if k < 94:
            a = self.exp("any", d + 1, imp, strict)
            b = self.exp("any", d + 1, imp, strict)
            self.feat("and-or")
            return (And if r.chance(1, 2) else Or)(a, b)
        return self.exp("int", d, imp, strict)

    def e_seq(self, d, imp, strict):
        n = self.rng.below(5)
        self.feat("ctor:seq")
        return Tab(*[FPos(self.exp("int", d + 1, False, True)) for _ in range(n)])

    # ------------------------------------------------------------------ statements
    def emit_stat(self, es):
        return SCall(Call(Var("emit"), *es))

    def observe(self):
        """emit the observable variables"""
        es = []
        for v in self.visible():
            if v.ty in ("int", "str", "bool", "flt", "any") and len(es) < 6:
                es.append(Var(v.name))
            elif v.ty == "seq" and len(es) < 6:
                es.append(Un("len", Var(v.name)))
            elif v.ty == "rec" and len(es) < 6:
                es.append(Fld(Var(v.name), v.info["fields"][0]))
        if not es:
            es = [Int(0)]
        self.rng.below(2)
        return self.emit_stat(es)

    def block(self, n, new_scope=True):
        if new_scope:
            self.push()
        self.block_depth += 1
        out = []
        for _ in range(n):
            if self.budget <= 0:
                break
            out += self.stat()
        self.block_depth -= 1
        if new_scope:
            self.pop()
        return out

    def stat(self):
        self.budget -= 1
        r = self.rng
        table = [
            (14, self.s_local), (10, self.s_assign), (10, self.s_emit), (8, self.s_if), (4, self.s_while),
            (3, self.s_repeat), (5, self.s_fornum), (3, self.s_forin), (2, self.s_do), (7, self.s_fn),
            (4, self.s_callstat), (3, self.s_closure_loop), (4, self.s_seq), (4, self.s_rec), (3, self.s_obj),
            (4, self.s_meta), (5, self.s_pcall), (2, self.s_goto), (4, self.s_varargs), (2, self.s_tailrec),
            (2, self.s_multi), (2, self.s_break), (2, self.s_forfloat), (2, self.s_xpcall), (2, self.s_method_str),
            (2, self.s_iter_closure), (2, self.s_const), (1, self.s_return_early), (4, self.s_close), (5, self.s_co), (4, self.s_assign_alias), (4, self.s_jump_fresh), (4, self.s_forin_false), (5, self.s_excess), (2, self.s_longstr), (5, self.s_meta_chain), (6, self.s_builtin_few), (3, self.s_goto_capture_late),
        ]
        tot = sum(w for w, _ in table)
        x = r.below(tot)
        for w, f in table:
            if x < w:
                res = f()
                if res is None:
                    return self.s_local()
                return res
            x -= w
        return self.s_local()

    def s_local(self):
        r = self.rng
        n = 1 + (r.below(3) if r.chance(1, 3) else 0)
        tys = [r.choice(["int", "int", "int", "str", "bool", "flt" if self.pf["floats"] else "int"]) for _ in range(n)]
        es = []
        used = False
        for i, t in enumerate(tys):
            c0 = self.impc
            es.append(self.exp(t, 0, not used and not self.pure, used))
            used = used or self.impc != c0
        names = [self.fresh() for _ in range(n)]
        if len(set(names)) < n:
            names = [self.fresh("w") for _ in range(n)]
        vs = [V(nm, t, mutable=r.chance(3, 4)) for nm, t in zip(names, tys)]
        if r.chance(1, 10):
            # fewer expressions than names: the rest are nil
            es = es[:max(1, n - 1)] if n > 1 else []
            for v in vs[len(es):]:
                v.ty = "any"
            self.feat("local:fewer-exps")
        for v in vs:
            self.declare(v)
        self.feat("stat:local")
        return [Local(names, es)]

    def s_assign(self):
        r = self.rng
        cands = [v for v in self.visible() if v.mutable and v.ty in ("int", "str", "bool", "flt")
                 and not (self.pure and v.level < self.fn_level)]
        if not cands:
            return None
        n = 1 + (r.below(2) if r.chance(1, 4) and len(cands) > 1 else 0)
        tg = []
        for _ in range(n):
            v = r.choice(cands)
            if v not in tg:
                tg.append(v)
        es = []
        used = False
        for v in tg:
            c0 = self.impc
            if v.ty == "str" and (self.loop_depth > 0 or self.fn_level > 0):
                # linear growth only: no self-concatenation inside loops / functions
                es.append(Bin("concat", Var(v.name), Str(r.choice([b"a", b"", b"xy"]))) if r.chance(1, 2) else Str(r.choice(STR_POOL)))
                continue
            es.append(self.exp(v.ty, 0, not used and not self.pure, used))
            used = used or self.impc != c0
            if v.level < self.fn_level:
                v.shared = True
                self.feat("upvalue-write")
        self.feat("stat:assign%d" % len(tg))
        return [Assign([Var(v.name) for v in tg], es)]

    def s_emit(self):
        if self.pure:
            return None
        r = self.rng
        n = 1 + r.below(3)
        tys = [r.choice(["int", "str", "bool", "any", "flt" if self.pf["floats"] else "int"]) for _ in range(n)]
        es = self.args_for(tys, 0, True, False)
        self.feat("stat:emit")
        return [self.emit_stat(es)]

    def s_if(self):
        r = self.rng
        if self.block_depth > 3:
            return None
        arms = []
        for _ in range(1 + (r.below(2) if r.chance(1, 3) else 0)):
            c = self.exp(r.choice(["bool", "bool", "any"]), 0, not self.pure, False)
            arms.append((c, self.block(1 + r.below(3))))
        els = self.block(1 + r.below(2)) if r.chance(1, 2) else None
        self.feat("stat:if" + ("-elseif" if len(arms) > 1 else "") + ("-else" if els is not None else ""))
        return [If(arms, els)]

    def loop_body(self, n, extra_vars=()):
        self.push()
        for v in extra_vars:
            self.declare(v)
        self.loop_depth += 1
        saved_pure = self.pure
        b = self.block(n, new_scope=False)
        self.loop_depth -= 1
        self.pop()
        return b

    def s_while(self):
        r = self.rng
        if self.block_depth > 2:
            return None
        i = self.fresh("i")
        lim = 1 + r.below(4)
        cv = V(i, "int", mutable=False)
        self.declare(cv)
        body = self.loop_body(1 + r.below(3))
        inc = Assign([Var(i)], [Bin("add", Var(i), Int(1))])
        self.feat("stat:while")
        if r.chance(1, 2):
            return [Local([i], [Int(0)]), While(Bin("lt", Var(i), Int(lim)), [inc] + body)]
        return [Local([i], [Int(0)]), While(Bin("lt", Var(i), Int(lim)), body + [inc])] if not self._ends_abruptly(body) else \
               [Local([i], [Int(0)]), While(Bin("lt", Var(i), Int(lim)), [inc] + body)]

    def _ends_abruptly(self, body):
        return bool(body) and body[-1].k in ("break", "return", "goto")

    def s_repeat(self):
        r = self.rng
        if self.block_depth > 2:
            return None
        i = self.fresh("i")
        lim = 1 + r.below(3)
        self.declare(V(i, "int", mutable=False))
        self.push()
        self.loop_depth += 1
        loc = self.fresh("u")
        self.declare(V(loc, "int", mutable=False))
        first = Local([loc], [Bin("add", Var(i), Int(1))])
        body = self.block(r.below(3), new_scope=False)
        if self._ends_abruptly(body):
            body = body[:-1]
        self.loop_depth -= 1
        self.pop()
        inc = Assign([Var(i)], [Var(loc)])
        self.feat("stat:repeat(until sees body local)")
        return [Local([i], [Int(0)]), Repeat([first, inc] + body, Bin("ge", Var(loc), Int(lim)))]

    def s_fornum(self):
        r = self.rng
        if self.block_depth > 2:
            return None
        x = self.fresh("i")
        k = r.below(10)
        if k < 5:
            e1, e2, e3 = Int(1), Int(1 + r.below(4)), None
        elif k < 7:
            e1, e2, e3 = Int(r.below(5)), Int(r.below(8)), Int(r.choice([1, 2, 3]))
        elif k < 9:
            e1, e2, e3 = Int(3 + r.below(3)), Int(r.below(3)), Int(r.choice([-1, -2]))
        elif self.pf.get("ref53"):
            e1, e2, e3 = Int(2), Int(9), Int(4)
        else:
            hi = (1 << 63) - 1
            e1, e2, e3 = Int(hi - 2), Int(hi), Int(r.choice([1, 2]))
            self.feat("for:near-maxint")
        body = self.loop_body(1 + r.below(3), [V(x, "int", mutable=False)])
        self.feat("stat:fornum")
        return [For(x, e1, e2, e3, body)]

    def s_forfloat(self):
        r = self.rng
        if not self.pf["floats"] or self.block_depth > 2:
            return None
        x = self.fresh("i")
        body = self.loop_body(1 + r.below(2), [V(x, "flt", mutable=False)])
        self.feat("stat:fornum-float")
        e1, e2, e3 = r.choice([(Flt(0.0), Flt(1.0), Flt(0.25)), (Int(1), Flt(2.5), None), (Flt(1.0), Int(3), None),
                               (Flt(2.0), Flt(0.5), Flt(-0.5)), (Int(1), Int(2), Flt(0.5))])
        return [For(x, e1, e2, e3, body)]

    def s_forin(self):
        r = self.rng
        if self.block_depth > 2:
            return None
        i, v = self.fresh("i"), self.fresh("e")
        vs = self.vars_of("seq")
        busy = None
        if vs and r.chance(2, 3):
            busy = r.choice(vs)
            src = Var(busy.name)
        else:
            src = self.e_seq(0, False, True)
        was = busy.info.get("busy") if busy else None
        if busy:
            busy.info["busy"] = True       # the sequence being traversed is not modified in the body
        body = self.loop_body(1 + r.below(2), [V(i, "int", mutable=False), V(v, "any", mutable=False)])
        if busy:
            busy.info["busy"] = was
        self.feat("stat:forin-ipairs")
        return [ForIn([i, v], [Call(Var("ipairs"), src)], body)]

    def s_iter_closure(self):
        """generic for over a closure iterator (stateful) or a stateless iterator function"""
        r = self.rng
        if self.block_depth > 2 or self.pure:
            return None
        it = self.fresh("it")
        x = self.fresh("i")
        n = 1 + r.below(4)
        body = self.loop_body(1 + r.below(2), [V(x, "int", mutable=False)])
        if r.chance(1, 2):
            self.feat("stat:forin-closure")
            c = self.fresh("c")
            mk = LocalFn(it, Fn(["n"], False, [
                Local([c], [Int(0)]),
                Return(Fn([], False, [
                    Assign([Var(c)], [Bin("add", Var(c), Int(1))]),
                    If([(Bin("le", Var(c), Var("n")), [Return(Var(c))])], None)]))]))
            return [mk, ForIn([x], [Call(Var(it), Int(n))], body)]
        self.feat("stat:forin-stateless")
        mk = LocalFn(it, Fn(["s", "c"], False, [
            If([(Bin("lt", Var("c"), Var("s")), [Return(Bin("add", Var("c"), Int(1)))])], None)]))
        return [mk, ForIn([x], [Var(it), Int(n), Int(0)], body)]

    def s_do(self):
        if self.block_depth > 3:
            return None
        self.feat("stat:do")
        return [Do(self.block(1 + self.rng.below(3)))]

    def s_break(self):
        if self.loop_depth == 0 or self.block_depth > 3:
            return None
        c = self.exp("bool", 0, not self.pure, False)
        self.feat("stat:break")
        return [If([(c, [Break()])], None)]

    def s_return_early(self):
        if self.fn_level == 0 or self.block_depth > 3 or not self.cur_rets:
            return None
        c = self.exp("bool", 0, False, False)
        self.feat("stat:return-early")
        return [If([(c, [Return(*self.ret_exps(self.cur_rets))])], None)]

    def ret_exps(self, rets):
        es = []
        used = False
        for t in rets:
            c0 = self.impc
            es.append(self.exp(t, 1, not used and not self.pure, used))
            used = used or self.impc != c0
        return es

    cur_rets = None

    def make_fn(self, np, va, rets, pure, body_n, extra_body=None):
        """generate a function literal with np int parameters"""
        saved = (self.loop_depth, self.in_va, self.pure, self.cur_rets, self.block_depth)
        self.loop_depth, self.in_va, self.pure, self.cur_rets = 0, va, pure or self.pure, rets
        self.block_depth = 1
        self.fn_level += 1
        self.push()
        params = []
        for _ in range(np):
            p = self.fresh("p")
            params.append(p)
            self.declare(V(p, "int", mutable=self.rng.chance(1, 2)))
        body = self.block(body_n, new_scope=False)
        body = [s for s in body]
        if extra_body:
            body += extra_body()
        if not self._ends_abruptly(body):
            body.append(Return(*self.ret_exps(rets)))
        self.pop()
        self.fn_level -= 1
        self.loop_depth, self.in_va, self.pure, self.cur_rets, self.block_depth = saved
        return Fn(params, va, body)

    def s_fn(self):
        r = self.rng
        if self.fn_level >= 2 or self.block_depth > 3:
            return None
        np = r.below(4)
        va = r.chance(1, 4)
        nret = r.choice([1, 1, 1, 2, 3, 0, 4, 5])
        rets = [r.choice(["int", "int", "str"]) for _ in range(nret)]
        pure = r.chance(1, 3) or self.pure
        name = self.fresh("f")
        info = {"np": np, "va": va, "rets": rets, "pure": pure, "busy": True}
        fv = V(name, "fn", mutable=False, info=info)
        style = r.below(3)
        if style == 0:
            self.declare(fv)      # local function: visible in its own body (but not called: busy)
        fn = self.make_fn(np, va, rets, pure, r.below(4))
        if style != 0:
            self.declare(fv)
        info["busy"] = False
        self.feat("fn:%s%s/ret%d" % ("pure" if pure else "impure", "-va" if va else "", nret))
        if style == 0:
            return [LocalFn(name, fn)]
        return [Local([name], [fn])]

    def s_callstat(self):
        if self.pure:
            return None
        fs = self.fns(True, False)
        if not fs:
            return None
        self.feat("stat:call")
        return [SCall(self.call_fn(self.rng.choice(fs), 0, True, False))]

    def s_multi(self):
        """multiple results: adjustment in local lists, argument lists, table constructors, parentheses"""
        r = self.rng
        fs = [v for v in self.fns(not self.pure, False) if len(v.info["rets"]) >= 2]
        if not fs or self.pure:
            return None
        v = r.choice(fs)
        k = r.below(5)
        call = self.call_fn(v, 0, True, False)
        self.feat("multi:%d" % k)
        if k == 0:
            return [self.emit_stat([call])]
        if k == 1:
            return [self.emit_stat([call, Int(1)])]
        if k == 2:
            return [self.emit_stat([Par(call)])]
        if k == 3:
            t = self.fresh("t")
            return [Local([t], [Tab(FPos(call))]), self.emit_stat([Un("len", Var(t))])]
        a, b, c = self.fresh("m"), self.fresh("m"), self.fresh("m")
        for nm, ty in zip((a, b, c), (v.info["rets"] + ["any", "any"])[:3]):
            self.declare(V(nm, ty if len(v.info["rets"]) >= 3 or nm != c else "any", mutable=False))
        return [Local([a, b, c], [call])]

    def s_closure_loop(self):
        """closures created in a loop capture fresh variables per iteration"""
        r = self.rng
        if self.pure or self.block_depth > 2:
            return None
        fs, i, j, k = self.fresh("fs"), self.fresh("i"), self.fresh("j"), self.fresh("k")
        n = 2 + r.below(3)
        inner = Fn(["x"], False, [Assign([Var(j)], [Bin("add", Var(j), Var("x"))]), Return(Bin("add", Bin("mul", Var(i), Int(100)), Var(j)))])
        kind = r.below(3)
        self.feat("closure-in-loop:%d" % kind)
        mk = [Local([j], [Bin("mul", Var(i), Int(10))]), Assign([Ix(Var(fs), Bin("add", Un("len", Var(fs)), Int(1)))], [inner])]
        if kind == 0:
            loop = For(i, Int(1), Int(n), None, mk)
        elif kind == 1:
            if self.pf.get("forin_capture"):
                loop = ForIn([i], [Call(Var("ipairs"), Tab(*[FPos(Int(7 + q)) for q in range(n)]))], mk)
            else:
                i0 = self.fresh("i")
                loop = ForIn([i0], [Call(Var("ipairs"), Tab(*[FPos(Int(7 + q)) for q in range(n)]))], [Local([i], [Var(i0)])] + mk)
        else:
            w = self.fresh("w")
            loop = Do([Local([w], [Int(0)]),
                       While(Bin("lt", Var(w), Int(n)), [Assign([Var(w)], [Bin("add", Var(w), Int(1))]), Local([i], [Var(w)])] + mk)])
        use = For(k, Int(1), Un("len", Var(fs)), None,
                  [self.emit_stat([Call(Ix(Var(fs), Var(k)), Var(k))]), self.emit_stat([Call(Ix(Var(fs), Var(k)), Int(1))])])
        return [Local([fs], [Tab()]), loop, use]

    def s_seq(self):
        r = self.rng
        if self.pure:
            return None
        vs = [v for v in self.vars_of("seq") if not v.info.get("busy")] if self.fn_level == 0 else []
        if not vs or r.chance(1, 3):
            t = self.fresh("t")
            e = self.e_seq(0, False, True)
            self.declare(V(t, "seq", mutable=False))
            return [Local([t], [e])]
        v = r.choice(vs)
        k = r.below(6)
        val = self.exp("int", 0, True, True)
        if val.k in ("call", "meth"):
            val = Par(val)      # the library's behaviour with surplus arguments is not fixed by the manual
        self.feat("seq-op:%d" % k)
        if k == 0:
            return [Assign([Ix(Var(v.name), Bin("add", Un("len", Var(v.name)), Int(1)))], [val])]
        if k == 1:
            return [SCall(Call(Fld(Var("table"), "insert"), Var(v.name), val))]
        if k == 2:
            return [self.emit_stat([Call(Fld(Var("table"), "remove"), Var(v.name))])]
        if k == 3:
            return [self.emit_stat([Call(Fld(Var("table"), "unpack"), Var(v.name))])]
        if k == 4:
            return [SCall(Call(Fld(Var("table"), "insert"), Var(v.name), Int(1), val))]
        return [self.emit_stat([Call(Fld(Var("table"), "concat"), Var(v.name), Str(","))])]

    def s_rec(self):
        r = self.rng
        if self.pure:
            return None
        vs = self.vars_of("rec")
        if not vs or r.chance(1, 3):
            t = self.fresh("r")
            fields = r.choice([["x", "y"], ["a"], ["n", "m", "k"], ["x"]])
            fl = []
            for f in fields:
                e = self.exp("int", 1, False, True)
                fl.append(FNamed(f, e) if r.chance(2, 3) else FKey(Str(f), e))
            self.declare(V(t, "rec", mutable=False, info={"fields": fields}))
            self.feat("ctor:rec")
            if r.chance(1, 3):
                # round 8 (seeded change C01-m9 was missed): keyed fields FOLLOWED by positional ones and a trailing
                # multiple-value field — the expansion goes to the next positional index, keyed fields do not count
                self.feat("ctor:rec+multi")
                npos = r.below(3)
                fl = fl + [FPos(Int(40 + q)) for q in range(npos)]
                if r.chance(1, 2):
                    fl.insert(r.below(len(fl) + 1), FKey(Int(100), Int(0)))
                fl.append(FPos(Call(Var("select"), Int(2), Int(10), Int(20), Int(30), Int(31))))
                return [Local([t], [Tab(*fl)]),
                        self.emit_stat([Ix(Var(t), Int(q)) for q in range(1, 6)])]   # no #t: with [100]= present the border is not unique
            return [Local([t], [Tab(*fl)])]
        v = r.choice(vs)
        f = r.choice(v.info["fields"])
        self.feat("rec-write")
        val = self.exp("int", 0, True, True)
        tgt = Fld(Var(v.name), f) if r.chance(1, 2) else Ix(Var(v.name), Str(f))
        return [Assign([tgt], [val])]

    def s_obj(self):
        """class-like object with methods, `:` calls and chaining"""
        r = self.rng
        if self.pure or self.fn_level > 0 or self.block_depth > 2:
            return None
        C, o = self.fresh("C"), self.fresh("o")
        self.feat("object-methods")
        stm = [Local([C], [Tab()]),
               Assign([Fld(Var(C), "__index")], [Var(C)]),
               FunStat([C, "new"], None, Fn(["v"], False, [Return(Call(Var("setmetatable"), Tab(FNamed("v", Var("v"))), Var(C)))])),
               FunStat([C], "add", Fn(["self", "d"], False, [Assign([Fld(Var("self"), "v")], [Bin("add", Fld(Var("self"), "v"), Var("d"))]), Return(Var("self"))])),
               FunStat([C], "get", Fn(["self"], True, [Return(Fld(Var("self"), "v"), Dots())])),
               Local([o], [Call(Fld(Var(C), "new"), self.exp("int", 1, False, True))])]
        chain = Var(o)
        for _ in range(1 + r.below(3)):
            chain = Meth(chain, "add", self.exp("int", 1, False, True))
        stm.append(self.emit_stat([Meth(chain, "get", Int(r.below(5)))]))
        stm.append(self.emit_stat([Fld(Var(o), "v"), Bin("eq", Call(Var("getmetatable"), Var(o)), Var(C))]))
        return stm

    def s_method_str(self):
        if not self.pf["strings"]:
            return None
        r = self.rng
        s = self.exp("str", 1, False, True)
        self.feat("string-method")
        k = r.below(3)
        if k == 0:
            return [self.emit_stat([Meth(s, "len"), Meth(s, "byte", Int(1), Int(-1))])]
        if k == 1:
            return [self.emit_stat([Meth(Par(s) if s.k not in ("var",) else s, "sub", Int(2)), Call(Fld(Var("string"), "len"), s)])]
        return [self.emit_stat([Call(Fld(Var("string"), "rep"), s, Int(2)), Call(Fld(Var("string"), "byte"), s, Int(r.below(4)))])]

    def s_meta(self):
        r = self.rng
        if not self.pf["meta"] or self.pure or self.fn_level > 0 or self.block_depth > 2:
            return None
        mt, a, b = self.fresh("mt"), self.fresh("a"), self.fresh("b")
        k = r.below(12)
        if k == 10 and self.pf.get("ref53"):
            k = 8                       # chains of __call are 5.4 only
        self.feat("meta:%d" % k)
        newobj = lambda val: Call(Var("setmetatable"), Tab(FNamed("v", val)), Var(mt))
        pre = [Local([mt], [Tab()])]
        va, vb = self.exp("int", 1, False, True), self.exp("int", 1, False, True)
        mk = [Local([a, b], [newobj(va), newobj(vb)])]
        val = lambda e: Par(Or(And(Bin("eq", Call(Var("type"), e), Str("table")), Fld(e, "v")), e))
        if k == 0:
            ev, op = r.choice([("__add", "add"), ("__sub", "sub"), ("__mul", "mul"), ("__idiv", "idiv"), ("__mod", "mod"),
                               ("__div", "div"), ("__pow", "pow"), ("__band", "band"), ("__bor", "bor"), ("__bxor", "bxor"),
                               ("__shl", "shl"), ("__shr", "shr"), ("__concat", "concat")])
            self.feat("metaevent:" + ev)
            h = Fn(["x", "y"], False, [self.emit_stat([Str(ev), Call(Var("type"), Var("x")), Call(Var("type"), Var("y"))]),
                                       Return(Bin("add", val(Var("x")), val(Var("y"))))])
            other = r.choice([Var(b), Int(5), Int(5)])
            if ev == "__concat" and other.k == "int":
                other = Str("s")
                h = Fn(["x", "y"], False, [self.emit_stat([Str(ev), Call(Var("type"), Var("x")), Call(Var("type"), Var("y"))]), Return(Int(1))])
            use = Bin(op, Var(a), other) if r.chance(2, 3) else Bin(op, other, Var(a))
            return pre + [Assign([Fld(Var(mt), ev)], [h])] + mk + [self.emit_stat([use])]
        if k == 1:
            ev, op = r.choice([("__unm", "neg"), ("__bnot", "bnot"), ("__len", "len")])
            self.feat("metaevent:" + ev)
            h = Fn(["x", "y"], False, [self.emit_stat([Str(ev), Bin("eq", Var("x"), Var("y")) if self.pf.get("unary_dummy") else Fld(Var("x"), "v")]), Return(Bin("add", Fld(Var("x"), "v"), Int(1)), Int(99))])
            return pre + [Assign([Fld(Var(mt), ev)], [h])] + mk + [self.emit_stat([Un(op, Var(a))])]
        if k == 2:
            ev, op = r.choice([("__lt", "lt"), ("__le", "le"), ("__lt", "gt"), ("__le", "ge")])
            self.feat("metaevent:" + ev)
            h = Fn(["x", "y"], False, [self.emit_stat([Str(ev), val(Var("x")), val(Var("y"))]),
                                       Return(r.choice([Bin("lt", val(Var("x")), val(Var("y"))), Int(0), Nil(), Str("yes")]))])
            other = r.choice([Var(b), Int(3)])
            use = Bin(op, Var(a), other) if r.chance(1, 2) else Bin(op, other, Var(a))
            return pre + [Assign([Fld(Var(mt), ev)], [h])] + mk + [self.emit_stat([use])]
        if k == 3:
            self.feat("metaevent:__eq")
            h = Fn(["x", "y"], False, [self.emit_stat([Str("__eq")]), Return(r.choice([Bin("eq", Fld(Var("x"), "v"), Fld(Var("y"), "v")), Int(1), Nil()]))])
            return pre + [Assign([Fld(Var(mt), "__eq")], [h])] + mk + [
                self.emit_stat([Bin("eq", Var(a), Var(b)), Bin("ne", Var(a), Var(b)), Bin("eq", Var(a), Var(a)), Bin("eq", Var(a), Int(1)),
                                Call(Var("rawequal"), Var(a), Var(b))])]
        if k == 4:
            self.feat("metaevent:__index-fn")
            h = Fn(["t", "key"], False, [self.emit_stat([Str("__index"), Var("key")]), Return(Bin("concat", Var("key"), Str("!")), Int(2))])
            return pre + [Assign([Fld(Var(mt), "__index")], [h])] + mk + [
                self.emit_stat([Fld(Var(a), "v"), Fld(Var(a), "zz")]), self.emit_stat([Call(Var("rawget"), Var(a), Str("zz"))])]
        if k == 5:
            self.feat("metaevent:__index-chain")
            base, mid = self.fresh("b"), self.fresh("b")
            return pre + [Local([base], [Tab(FNamed("deep", Int(42)), FNamed("v", Int(-1)))]),
                          Local([mid], [Call(Var("setmetatable"), Tab(FNamed("mid", Int(7))), Tab(FNamed("__index", Var(base))))]),
                          Assign([Fld(Var(mt), "__index")], [Var(mid)])] + mk + [
                self.emit_stat([Fld(Var(a), "deep"), Fld(Var(a), "mid"), Fld(Var(a), "v"), Fld(Var(a), "none")])]
        if k == 6:
            self.feat("metaevent:__newindex-fn")
            h = Fn(["t", "key", "value"], False, [self.emit_stat([Str("__newindex"), Var("key"), Var("value")]),
                                                  SCall(Call(Var("rawset"), Var("t"), Var("key"), Bin("add", Var("value"), Int(1))))])
            return pre + [Assign([Fld(Var(mt), "__newindex")], [h])] + mk + [
                Assign([Fld(Var(a), "v")], [Int(10)]), Assign([Fld(Var(a), "w")], [Int(20)]), Assign([Fld(Var(a), "w")], [Int(30)]),
                self.emit_stat([Fld(Var(a), "v"), Fld(Var(a), "w")])]
        if k == 7:
            self.feat("metaevent:__newindex-table")
            store = self.fresh("st")
            return pre + [Local([store], [Tab()]), Assign([Fld(Var(mt), "__newindex")], [Var(store)])] + mk + [
                Assign([Fld(Var(a), "q")], [Int(5)]), Assign([Fld(Var(a), "v")], [Int(6)]),
                self.emit_stat([Call(Var("rawget"), Var(a), Str("q")), Fld(Var(store), "q"), Fld(Var(a), "v")])]
        if k == 8:
            self.feat("metaevent:__call")
            h = Fn(["self", "x"], True, [self.emit_stat([Str("__call"), Fld(Var("self"), "v"), Var("x"), Call(Var("select"), Str("#"), Dots())]),
                                         Return(Var("x"), Dots())])
            return pre + [Assign([Fld(Var(mt), "__call")], [h])] + mk + [self.emit_stat([Call(Var(a), Int(1), Int(2), Int(3))]),
                                                                         self.emit_stat([Call(Var(b))])]
        if k == 9:
            self.feat("metaevent:__tostring")
            h = Fn(["x"], False, [Return(Bin("concat", Str("obj:"), Fld(Var("x"), "v")))])
            return pre + [Assign([Fld(Var(mt), "__tostring")], [h])] + mk + [self.emit_stat([Call(Var("tostring"), Var(a))])]
        if k == 10:
            self.feat("metaevent:__call-chain")
            mt2, c = self.fresh("mt"), self.fresh("c")
            h = Fn(["s1", "s2", "x"], False, [self.emit_stat([Str("call2"), Bin("eq", Var("s1"), Var(a)), Var("x")]), Return(Var("x"))])
            return pre + mk + [Assign([Fld(Var(mt), "__call")], [h]),
                               Local([c], [Call(Var("setmetatable"), Tab(), Tab(FNamed("__call", Var(a))))]),
                               self.emit_stat([Call(Var(c), Int(9))])]
        self.feat("metaevent:__index-rawequal")
        return pre + mk + [self.emit_stat([Call(Var("rawlen"), Tab(FPos(Int(1)), FPos(Int(2)))), Call(Var("rawequal"), Var(a), Var(a)),
                                           Bin("eq", Call(Var("getmetatable"), Var(a)), Var(mt)), Call(Var("getmetatable"), Str("x")) and
                                           Bin("eq", Fld(Call(Var("getmetatable"), Str("x")), "__index"), Var("string"))])]

    ERR_VALUES = ["str", "str1", "str2", "tab", "int", "nil", "false", "flt", "rt-arith", "rt-call", "rt-index", "rt-concat",
                  "rt-compare", "rt-len", "rt-div0", "rt-mod0", "rt-setindex", "rt-intrep", "assert", "assertmsg"]

    def raise_stats(self, kind):
        """statements that raise; each is a single-line statement with one effect"""
        r = self.rng
        self.feat("raise:" + kind)
        n = self.fresh("z")
        if kind == "str":
            return [SCall(Call(Var("error"), Str(r.choice([b"boom", b"bad thing", b"E1"]))))]
        if kind == "str1":
            return [SCall(Call(Var("error"), Str("lvl1"), Int(1)))]
        if kind == "str2":
            return [SCall(Call(Var("error"), Str("lvl0"), Int(0)))]
        if kind == "tab":
            return [SCall(Call(Var("error"), Tab(FNamed("code", self.exp("int", 2, False, True)))))]
        if kind == "int":
            return [SCall(Call(Var("error"), Int(r.below(100))))]
        if kind == "nil":
            return [SCall(Call(Var("error"), Nil()))] if r.chance(1, 2) else [SCall(Call(Var("error")))]
        if kind == "false":
            return [SCall(Call(Var("error"), FalseE()))]
        if kind == "flt":
            return [SCall(Call(Var("error"), Flt(2.5), Int(2)))]
        if kind == "assert":
            if self.pf.get("assert_str") and r.chance(1, 2):
                return [SCall(Call(Var("assert"), r.choice([FalseE(), Nil()]), *([Str("assert msg")] if r.chance(2, 3) else [])))]
            return [SCall(Call(Var("assert"), FalseE(), Tab(FNamed("code", Int(1)))))]
        if kind == "assertmsg":
            return [SCall(Call(Var("assert"), Nil(), Int(77)))]
        loc = Local([n], [Nil()])
        d = {"rt-arith": Bin("add", Var(n), Int(1)), "rt-call": Call(Var(n), Int(1)), "rt-index": Fld(Var(n), "f"),
             "rt-concat": Bin("concat", Var(n), Str("x")), "rt-compare": Bin("lt", Var(n), Int(1)), "rt-len": Un("len", Var(n)),
             "rt-div0": Bin("idiv", Int(1), Int(0)), "rt-mod0": Bin("mod", Int(1), Int(0)),
             "rt-intrep": Bin("bor", Flt(1.5), Int(1))}
        if kind == "rt-setindex":
            return [loc, Assign([Fld(Var(n), "f")], [Int(1)])]
        return [loc, Local([self.fresh("z")], [d[kind]])]

    def protected_body(self, kind, depth=0):
        """a function literal whose body emits, possibly calls deeper, then raises"""
        r = self.rng
        saved = (self.loop_depth, self.in_va, self.cur_rets, self.block_depth)
        self.loop_depth, self.in_va, self.cur_rets, self.block_depth = 0, False, [], 2
        self.fn_level += 1
        self.push()
        body = self.block(r.below(2), new_scope=False)
        if self._ends_abruptly(body):
            body = body[:-1]
        body.append(self.emit_stat([Str("in"), Int(depth)]))
        if kind is None:
            body.append(Return(*[self.exp(r.choice(["int", "str"]), 1, False, True) for _ in range(r.below(7))]))
        else:
            where = r.below(4)
            rs = self.raise_stats(kind)
            if where == 0:
                body += rs
            elif where == 1:
                self.feat("raise-in:loop")
                body.append(For(self.fresh("i"), Int(1), Int(3), None, [If([(Bin("eq", Var("i%d" % self.nname), Int(2)), rs)], None)]))
            elif where == 2:
                self.feat("raise-in:nested-fn")
                g = self.fresh("g")
                body += [LocalFn(g, Fn(["q"], False, rs + [Return(Var("q"))])), self.emit_stat([Call(Var(g), Int(1))])]
            else:
                self.feat("raise-in:if")
                body.append(If([(TrueE(), rs)], [self.emit_stat([Str("no")])]))
            if body[-1].k != "return":
                body.append(self.emit_stat([Str("unreachable")]))
        self.pop()
        self.fn_level -= 1
        self.loop_depth, self.in_va, self.cur_rets, self.block_depth = saved
        return Fn([], False, body)

    def s_pcall(self):
        r = self.rng
        if not self.pf["errors"] or self.pure or self.fn_level > 1 or self.block_depth > 2:
            return None
        kind = r.choice(self.ERR_VALUES + [None, None, None])
        if kind == "flt" and not self.pf["floats"]:
            kind = "int"
        ok, e = self.fresh("ok"), self.fresh("er")
        fn = self.protected_body(kind)
        self.feat("pcall:" + ("returns" if kind is None else "raises"))
        out = []
        if r.chance(1, 3) and kind is not None:
            # nested: the inner pcall catches, the outer sees a normal return
            self.feat("pcall:nested")
            inner = fn
            fn = Fn([], False, [Local(["a", "b"], [Call(Var("pcall"), inner)]), self.emit_stat([Str("inner"), Var("a"), Var("b")]),
                                Return(Var("a"), Var("b"))])
        if kind is None and r.chance(1, 2):
            self.feat("pcall:all-results")
            return [self.emit_stat([Str("res"), Call(Var("pcall"), fn)])]
        out.append(Local([ok, e], [Call(Var("pcall"), fn)]))
        self.declare(V(ok, "bool", mutable=False))
        self.declare(V(e, "any", mutable=False))
        out.append(self.emit_stat([Var(ok), Var(e), Call(Var("type"), Var(e))]))
        if kind in ("tab", "assert"):
            out.append(self.emit_stat([Bin("eq", Call(Var("type"), Var(e)), Str("table")), And(Bin("eq", Call(Var("type"), Var(e)), Str("table")), Fld(Var(e), "code"))]))
        if r.chance(1, 4) and kind is not None and self.fn_level == 0:
            self.feat("rethrow")
            ok2, e2 = self.fresh("ok"), self.fresh("er")
            out.append(Local([ok2, e2], [Call(Var("pcall"), Var("error"), Var(e), Int(0))]))
            out.append(self.emit_stat([Var(ok2), Bin("eq", Var(e2), Var(e)), Call(Var("rawequal"), Var(e2), Var(e))]))
        return out

    def s_xpcall(self):
        r = self.rng
        if not self.pf["errors"] or self.pure or self.fn_level > 0 or self.block_depth > 2:
            return None
        kind = r.choice(self.ERR_VALUES + [None])
        if kind == "flt" and not self.pf["floats"]:
            kind = "int"
        fn = self.protected_body(kind)
        hk = r.below(3)
        self.feat("xpcall:handler%d" % hk)
        if hk == 0:
            h = Fn(["m"], False, [self.emit_stat([Str("handler"), Var("m")]), Return(Var("m"))])
        elif hk == 1:
            h = Fn(["m"], False, [self.emit_stat([Str("handler"), Call(Var("type"), Var("m"))]), Return(Tab(FNamed("wrapped", Var("m"))), Int(2))])
        else:
            h = Fn(["m"], True, [self.emit_stat([Str("handler"), Call(Var("select"), Str("#"), Dots())])])
        ok, e = self.fresh("ok"), self.fresh("er")
        self.declare(V(ok, "bool", mutable=False))
        self.declare(V(e, "any", mutable=False))
        out = [Local([ok, e], [Call(Var("xpcall"), fn, h)]), self.emit_stat([Var(ok), Var(e)])]
        if hk == 1:
            out.append(self.emit_stat([And(Bin("eq", Call(Var("type"), Var(e)), Str("table")), Fld(Var(e), "wrapped"))]))
        return out

    def s_goto(self):
        r = self.rng
        if not self.pf["goto"] or self.block_depth > 2:
            return None
        self.nlabel += 1
        lab = "L%d" % self.nlabel
        k = r.below(3)
        self.feat("goto:%d" % k)
        if k == 0:
            # continue
            x = self.fresh("i")
            self.push()
            self.declare(V(x, "int", mutable=False))
            self.loop_depth += 1
            c = self.exp("bool", 1, False, False)
            body = self.block(1 + r.below(2), new_scope=False)
            self.loop_depth -= 1
            self.pop()
            if self._ends_abruptly(body):
                body = body[:-1]
            return [For(x, Int(1), Int(2 + r.below(3)), None, [If([(c, [Goto(lab)])], None)] + [Do(body)] + [Label(lab)])]
        if k == 1:
            # backward goto loop with a fresh local per round
            i = self.fresh("i")
            self.declare(V(i, "int", mutable=False))
            fs = self.fresh("fs")
            j = self.fresh("j")
            return [Local([i], [Int(0)]), Local([fs], [Tab()]), Label(lab),
                    Do([Local([j], [Bin("mul", Var(i), Int(3))]),
                        Assign([Ix(Var(fs), Bin("add", Un("len", Var(fs)), Int(1)))], [Fn([], False, [Return(Var(j))])]),
                        Assign([Var(i)], [Bin("add", Var(i), Int(1))]),
                        If([(Bin("lt", Var(i), Int(2 + r.below(3))), [Goto(lab)])], None)]),
                    self.emit_stat([Un("len", Var(fs)), Call(Ix(Var(fs), Int(1))), Call(Ix(Var(fs), Un("len", Var(fs))))])]
        # break out of nested loops
        x, y = self.fresh("i"), self.fresh("i")
        return [For(x, Int(1), Int(3), None, [For(y, Int(1), Int(3), None, [
            If([(Bin("eq", Bin("mul", Var(x), Var(y)), Int(r.choice([2, 4, 6, 9, 100]))), [Goto(lab)])], None),
            self.emit_stat([Var(x), Var(y)])])]), Label(lab)]

    def s_varargs(self):
        r = self.rng
        if self.fn_level >= 2 or self.block_depth > 3 or self.pure:
            return None
        f = self.fresh("va")
        k = r.below(6)
        self.feat("vararg:%d" % k)
        if k == 0:
            body = [Local(["a", "b"], [Dots()]), Return(Call(Var("select"), Str("#"), Dots()), Var("a"), Var("b"))]
        elif k == 1:
            body = [Local(["t"], [Tab(FPos(Dots()))]), Return(Un("len", Var("t")), Dots())]
        elif k == 2:
            body = [Local(["t"], [Tab(FPos(Dots()), FPos(Str("end")))]), Return(Un("len", Var("t")), Par(Dots()) if self.pf.get("paren_dots") else Par(Call(Var("select"), Int(1), Dots())))]
        elif k == 3:
            body = [Return(Call(Var("select"), Int(2), Dots()))]
        elif k == 4:
            body = [Local(["p"], [Call(Fld(Var("table"), "pack"), Dots())]), Return(Fld(Var("p"), "n"), Call(Fld(Var("table"), "unpack"), Var("p"), Int(1), Fld(Var("p"), "n")))]
        else:
            g = "g"
            body = [LocalFn(g, Fn(["x"], True, [Return(Dots(), Var("x"))])), Return(Call(Var(g), Dots()))]
        nargs = r.below(4) if r.chance(2, 3) else 4 + r.below(4)
        args = [self.exp(r.choice(["int", "str", "any"] if k not in (1, 2) else ["int", "str"]), 1, False, True) for _ in range(nargs)]
        if k == 3 and nargs < 2:
            args += [Int(1), Int(2)]
        if k == 2 and (nargs == 0 or args[0].k == "nil"):
            args = [Int(5)] + args       # {..., "end"} must not start with nil (border not unique)
        return [LocalFn(f, Fn([], True, body)), self.emit_stat([Call(Var(f), *args)])]

    def s_tailrec(self):
        r = self.rng
        if self.fn_level >= 1 or self.pure:
            return None
        f = self.fresh("rec")
        k = r.below(3)
        self.feat("recursion:%d" % k)
        n = Int(r.below(8))
        if k == 0:
            fn = Fn(["n", "acc"], False, [If([(Bin("le", Var("n"), Int(0)), [Return(Var("acc"))])], None),
                                         Return(Call(Var(f), Bin("sub", Var("n"), Int(1)), Bin("add", Var("acc"), Var("n"))))])
            self.feat("tail-call")
            return [LocalFn(f, fn), self.emit_stat([Call(Var(f), n, Int(0))])]
        if k == 1:
            fn = Fn(["n"], False, [If([(Bin("le", Var("n"), Int(1)), [Return(Int(1))])], None),
                                  Return(Bin("mul", Var("n"), Call(Var(f), Bin("sub", Var("n"), Int(1)))))])
            return [LocalFn(f, fn), self.emit_stat([Call(Var(f), n)])]
        g = self.fresh("rec")
        return [Local([f, g], []),
                Assign([Var(f)], [Fn(["n"], False, [If([(Bin("eq", Var("n"), Int(0)), [Return(TrueE())])], None), Return(Call(Var(g), Bin("sub", Var("n"), Int(1))))])]),
                Assign([Var(g)], [Fn(["n"], False, [If([(Bin("eq", Var("n"), Int(0)), [Return(FalseE())])], None), Return(Call(Var(f), Bin("sub", Var("n"), Int(1))))])]),
                self.emit_stat([Call(Var(f), n)])]


    mk_close = None

    def closer(self, tag):
        """an object whose __close handler emits ("close", tag, type of the error argument)"""
        return Call(Var("setmetatable"), Tab(), Tab(FNamed("__close", Fn(["o", "e"], False, [self.emit_stat([Str("close"), tag, Call(Var("type"), Var("e"))])]))))

    def s_close(self):
        r = self.rng
        if self.pf.get("ref53") or not self.pf["stage4"] or self.pure or self.block_depth > 2 or self.fn_level > 1:
            return None
        k = r.below(9)
        self.feat("close:%d" % k)
        em = lambda *a: self.emit_stat(list(a))
        c, d, f, i = self.fresh("c"), self.fresh("c"), self.fresh("f"), self.fresh("i")
        self.nlabel += 1
        lab = "L%d" % self.nlabel
        if k == 0:
            return [Do([Local([c], [self.closer(Int(1))], ["close"])] + self.block(1 + r.below(2)) + [em(Str("body-end"))]), em(Str("after"))]
        if k == 1:
            return [For(i, Int(1), Int(3), None, [Local([c], [self.closer(Var(i))], ["close"]),
                                                   If([(Bin("eq", Var(i), Int(2)), [Break()])], None), em(Str("it"), Var(i))])]
        if k == 2:
            return [LocalFn(f, Fn([], False, [Local([c], [self.closer(Int(1))], ["close"]), Local([d], [self.closer(Int(2))], ["close"]),
                                              Return(Call(Var("emit"), Str("ret"), Int(7)))])), em(Call(Var(f)))]
        if k == 3:
            return [em(Call(Var("type"), Call(Var("select"), Int(2), Call(Var("pcall"), Fn([], False, [
                Local([c], [self.closer(Int(1))], ["close"]), em(Str("body")), SCall(Call(Var("error"), Tab()))])))))]
        if k == 4:
            return [Do([Local([c], [self.closer(Int(1))], ["close"]), em(Str("body")), Goto(lab)]), em(Str("skipped")), Label(lab), em(Str("after"))]
        if k == 5:
            bad = Call(Var("setmetatable"), Tab(), Tab(FNamed("__close", Fn(["o", "e"], False, [em(Str("bad-close"), Call(Var("type"), Var("e"))), SCall(Call(Var("error"), Str("in close"), Int(0)))]))))
            return [em(Call(Var("pcall"), Fn([], False, [Local([c], [self.closer(Int(1))], ["close"]), Local([d], [bad], ["close"]), em(Str("body"))])))]
        if k == 6:
            return [Do([Local([c], [r.choice([Nil(), FalseE()])], ["close"]), em(Str("nil-close"), Var(c))])]
        if k == 7:
            it = self.fresh("it")
            return [LocalFn(it, Fn(["s", "q"], False, [If([(Bin("lt", Var("q"), Var("s")), [Return(Bin("add", Var("q"), Int(1)))])], None)])),
                    ForIn([i], [Var(it), Int(3), Int(0), self.closer(Str("for"))], [em(Str("it"), Var(i))] + ([If([(Bin("eq", Var(i), Int(2)), [Break()])], None)] if r.chance(1, 2) else [])),
                    em(Str("after-for"))]
        return [For(i, Int(1), Int(2), None, [Local([c], [self.closer(Var(i))], ["close"]), If([(Bin("eq", Var(i), Int(1)), [Goto(lab)])], None), em(Str("it"), Var(i)), Label(lab)])]

    def s_co(self):
        r = self.rng
        if not self.pf["stage4"] or self.pure or self.block_depth > 2 or self.fn_level > 0:
            return None
        k = r.below(12)
        if k in (7, 10, 11) and self.pf.get("ref53"):
            k = 0                       # coroutine.close and <close> are 5.4 only
        self.feat("coroutine:%d" % k)
        em = lambda *a: self.emit_stat(list(a))
        co, g = self.fresh("co"), self.fresh("gen")
        CO = lambda f, *a: Call(Fld(Var("coroutine"), f), *a)
        if k == 0:
            body = Fn(["a", "b"], False, [em(Str("start"), Var("a"), Var("b")),
                                          Local(["x", "y"], [CO("yield", Bin("add", Var("a"), Var("b")))]), em(Str("got"), Var("x"), Var("y")),
                                          Local(["z"], [CO("yield", Bin("mul", Var("x"), Int(2)), Str("second"))]), Return(Str("end"), Var("z"))])
            return [Local([co], [CO("create", body)]), em(CO("status", Var(co))), em(CO("resume", Var(co), self.exp("int", 1, False, True), Int(2))),
                    em(CO("status", Var(co))), em(CO("resume", Var(co), Int(10), Int(20))), em(CO("resume", Var(co), Int(5))),
                    em(CO("status", Var(co))), em(CO("resume", Var(co)))]
        if k == 1:
            n = 1 + r.below(4)
            return [Local([g], [CO("wrap", Fn([], False, [For("i", Int(1), Int(n), None, [SCall(CO("yield", Var("i"), Bin("mul", Var("i"), Var("i"))))])]))]),
                    ForIn(["v", "w"], [Var(g)], [em(Var("v"), Var("w"))])]
        if k == 2:
            return [Local([co], [CO("create", Fn([], False, [em(Str("in")), SCall(Call(Var("error"), Tab(FNamed("code", Int(1)))))]))]),
                    Local(["ok", "e"], [CO("resume", Var(co))]), em(Var("ok"), Call(Var("type"), Var("e")), And(Bin("eq", Call(Var("type"), Var("e")), Str("table")), Fld(Var("e"), "code")), CO("status", Var(co))),
                    em(CO("resume", Var(co)))]
        if k == 3:
            inner = Fn([], False, [Local(["rr"], [CO("yield", Int(1))]), SCall(Call(Var("error"), Bin("concat", Str("after "), Var("rr")), Int(0)))])
            return [Local([co], [CO("create", Fn([], False, [Local(["ok", "v"], [Call(Var("pcall"), inner)]), em(Str("caught"), Var("ok"), Var("v")), Return(Str("done"))]))]),
                    em(CO("resume", Var(co))), em(CO("resume", Var(co), Str("x"))), em(CO("status", Var(co)))]
        if k == 4:
            outer = self.fresh("co")
            return [em(CO("isyieldable"), Call(Var("select"), Int(2), CO("running"))),
                    Local([outer], []),
                    Local([co], [CO("create", Fn([], False, [em(Str("inner"), CO("status", Var(outer)), CO("status", Var(co)), CO("isyieldable"), Call(Var("select"), Int(2), CO("running"))),
                                                             em(Bin("eq", CO("running"), Var(co)))]))]),
                    Assign([Var(outer)], [CO("create", Fn([], False, [em(Str("outer"), CO("status", Var(outer))), em(CO("resume", Var(co))), em(CO("status", Var(co)))]))]),
                    em(CO("resume", Var(outer))), em(CO("status", Var(outer)), CO("status", Var(co)))]
        if k == 5:
            return [Local([co], [CO("create", Fn([], False, [
                Local(["t"], [Call(Var("setmetatable"), Tab(), Tab(FNamed("__index", Fn(["t", "key"], False, [Return(CO("yield", Var("key")))]))))]),
                em(Str("v"), Fld(Var("t"), "foo")),
                ForIn(["x"], [Fn([], False, [Return(CO("yield", Str("iter")))])], [em(Str("x"), Var("x"))])]))]),
                    em(CO("resume", Var(co))), em(CO("resume", Var(co), Int(42))), em(CO("resume", Var(co), Int(7))), em(CO("resume", Var(co), Nil())), em(CO("status", Var(co)))]
        if k == 6:
            return [em(Call(Var("pcall"), Fld(Var("coroutine"), "yield"), Int(1))),
                    Local([co], []), Assign([Var(co)], [CO("create", Fn([], False, [em(CO("resume", Var(co))), Return(Int(1))]))]), em(CO("resume", Var(co)))]
        if k == 7:
            return [Local([co], [CO("create", Fn([], False, [SCall(CO("yield", Int(1))), em(Str("never"))]))]), em(CO("resume", Var(co))), em(CO("close", Var(co))),
                    em(CO("status", Var(co))), em(CO("resume", Var(co))), em(CO("close", CO("create", Fn([], False, []))))]
        if k == 8:
            # producer / consumer through wrap with arguments flowing both ways; closures over loop variables inside the coroutine
            return [Local([g], [CO("wrap", Fn(["a"], True, [Local(["acc"], [Var("a")]),
                                                             While(TrueE(), [Local(["x"], [CO("yield", Var("acc"), Call(Var("select"), Str("#"), Dots()))]),
                                                                             If([(Bin("eq", Var("x"), Nil()), [Return(Str("fin"), Var("acc"))])], None),
                                                                             Assign([Var("acc")], [Bin("add", Var("acc"), Var("x"))])])]))]),
                    em(Call(Var(g), Int(1), Int(2), Int(3))), em(Call(Var(g), Int(10))), em(Call(Var(g), Int(100))), em(Call(Var(g)))]
        if k == 10:
            # coroutine.close runs the pending to-be-closed values of a suspended coroutine, innermost first
            body = Fn([], False, [Local(["a"], [self.closer(Int(1))], ["close"]),
                                  SCall(Call(Var("pcall"), Fn([], False, [Local(["b"], [self.closer(Int(2))], ["close"]), SCall(CO("yield", Int(1))), em(Str("never"))]))),
                                  em(Str("never2"))])
            return [Local([co], [CO("create", body)]), em(CO("resume", Var(co))), em(CO("status", Var(co))), em(CO("close", Var(co))), em(CO("status", Var(co))),
                    em(CO("resume", Var(co)))]
        if k == 11:
            bad = Call(Var("setmetatable"), Tab(), Tab(FNamed("__close", Fn(["o", "e"], False, [em(Str("bad-close"), Call(Var("type"), Var("e"))), SCall(Call(Var("error"), Tab(FNamed("code", Int(9)))))]))))
            body = Fn([], False, [Local(["a"], [self.closer(Int(1))], ["close"]), Local(["b"], [bad], ["close"]), SCall(CO("yield", Int(1))), em(Str("never"))])
            return [Local([co], [CO("create", body)]), em(CO("resume", Var(co))), Local(["ok", "e"], [CO("close", Var(co))]),
                    em(Var("ok"), And(Bin("eq", Call(Var("type"), Var("e")), Str("table")), Fld(Var("e"), "code")), CO("status", Var(co)))]
        # wrap: error with a non-string value propagates to the caller's pcall
        return [Local([g], [CO("wrap", Fn([], False, [SCall(CO("yield", Int(1))), SCall(Call(Var("error"), Tab(FNamed("code", Int(5)))))]))]),
                em(Call(Var(g))), Local(["ok", "e"], [Call(Var("pcall"), Var(g))]), em(Var("ok"), And(Bin("eq", Call(Var("type"), Var("e")), Str("table")), Fld(Var("e"), "code"))),
                em(Call(Var("pcall"), Var(g)))]


    def s_assign_alias(self):
        """multiple assignment whose earlier target is also the table or key of a LATER indexed
        target (manual 3.3.3: `i, a[i] = i+1, 20` sets a[3] with i = 3 before, and i = 4 after):
        all subexpressions are evaluated before any assignment"""
        r = self.rng
        if self.pure or self.block_depth > 3:
            return None
        i, a, t, u = self.fresh("i"), self.fresh("a"), self.fresh("t"), self.fresh("u")
        k = r.below(7)
        self.feat("assign-alias:%d" % k)
        em = lambda *x: self.emit_stat(list(x))
        n = 1 + r.below(5)
        e = self.exp("int", 1, False, True)
        wrap = lambda st: st
        if r.chance(1, 3):
            # inside a function, with the aliased variable an upvalue
            f = self.fresh("f")
            wrap = lambda st: [st[0], LocalFn(f, Fn([], False, st[1:])), SCall(Call(Var(f)))]
            self.feat("assign-alias:upvalue")
        if k == 0:
            return wrap([Local([i, a], [Int(n), Tab()]), Assign([Var(i), Ix(Var(a), Var(i))], [Bin("add", Var(i), Int(1)), e]),
                         em(Var(i), Ix(Var(a), Int(n)), Ix(Var(a), Int(n + 1)))])
        if k == 1:
            return wrap([Local([t, u], [Tab(FNamed("id", Int(1))), Tab(FNamed("id", Int(2)))]), Local([a], [Var(t)]),
                         Assign([Var(t), Fld(Var(t), "tag")], [Var(u), Str("x")]),
                         em(Fld(Var(t), "id"), Fld(Var(t), "tag"), Fld(Var(a), "tag"), Fld(Var(u), "tag"))])
        if k == 2:
            return wrap([Local([i, a], [Int(n), Tab()]),
                         Assign([Var(i), Ix(Var(a), Var(i)), Ix(Var(a), Bin("add", Var(i), Int(1)))], [Int(n + 10), Str("s1"), Str("s2")]),
                         em(Var(i), Ix(Var(a), Int(n)), Ix(Var(a), Int(n + 1)), Ix(Var(a), Int(n + 10)), Ix(Var(a), Int(n + 11)))])
        if k == 3:
            # key and table both reassigned earlier in the same statement
            return wrap([Local([t, i], [Tab(), Str("p")]), Local([a], [Var(t)]),
                         Assign([Var(t), Var(i), Ix(Var(t), Var(i))], [Tab(), Str("q"), e]),
                         em(Ix(Var(a), Str("p")), Ix(Var(a), Str("q")), Ix(Var(t), Str("p")), Ix(Var(t), Str("q")), Var(i))])
        if k == 4:
            # in a loop: the classic shift
            return wrap([Local([i, a], [Int(1), Tab()]),
                         While(Bin("le", Var(i), Int(n)), [Assign([Var(i), Ix(Var(a), Var(i))], [Bin("add", Var(i), Int(1)), Bin("mul", Var(i), Int(10))])]),
                         em(Var(i), Un("len", Var(a)), Ix(Var(a), Int(1)), Ix(Var(a), Int(n)), Ix(Var(a), Int(n + 1)))])
        if k == 5:
            # method-style field of a rebound object, swap of two tables with fields set through the old names
            return wrap([Local([t, u], [Tab(FNamed("n", Int(1))), Tab(FNamed("n", Int(2)))]),
                         Assign([Var(t), Var(u), Fld(Var(t), "v"), Fld(Var(u), "v")], [Var(u), Var(t), Str("vt"), Str("vu")]),
                         em(Fld(Var(t), "n"), Fld(Var(t), "v"), Fld(Var(u), "n"), Fld(Var(u), "v"))])
        # nested key expression built from the reassigned local (not bare) next to a bare one
        return wrap([Local([i, a], [Int(n), Tab(FPos(Tab()), FPos(Tab()), FPos(Tab()), FPos(Tab()), FPos(Tab()), FPos(Tab()), FPos(Tab()))]),
                     Assign([Var(i), Ix(Ix(Var(a), Var(i)), Var(i))], [Bin("add", Var(i), Int(1)), e]),
                     em(Var(i), Ix(Ix(Var(a), Int(n)), Int(n)), Ix(Ix(Var(a), Int(n + 1)), Int(n + 1)), Ix(Ix(Var(a), Int(n)), Int(n + 1)))])

    def s_jump_fresh(self):
        """break / goto leaving a scope whose variable was captured: when the loop or label is
        reached again in the same activation the variable is a fresh one (manual 3.5); the
        closures modify their variable after the loops so that sharing shows"""
        r = self.rng
        if self.pure or self.block_depth > 2 or not self.pf["goto"]:
            return None
        fs, o, i, x, q = self.fresh("fs"), self.fresh("o"), self.fresh("i"), self.fresh("x"), self.fresh("q")
        k = r.below(8)
        self.feat("jump-fresh:%d" % k)
        self.nlabel += 1
        lab = "L%d" % self.nlabel
        em = lambda *a: self.emit_stat(list(a))
        bump = lambda v: Fn([], False, [Assign([Var(v)], [Bin("add", Var(v), Int(1))]), Return(Var(v))])
        push = lambda v: Assign([Ix(Var(fs), Bin("add", Un("len", Var(fs)), Int(1)))], [bump(v)])
        use = [For(q, Int(1), Un("len", Var(fs)), None, [em(Call(Ix(Var(fs), Var(q))), Call(Ix(Var(fs), Var(q))))])]
        n = 2 + r.below(2)
        if k == 0:      # control variable of a numeric for ended by break, inside an outer loop
            body = [For(o, Int(1), Int(n), None, [For(i, Int(1), Int(3), None, [push(i), Break()])])]
        elif k == 1:    # the same with the break in a nested block and a body local in between
            body = [For(o, Int(1), Int(n), None, [For(i, Int(1), Int(3), None, [Local([x], [Bin("mul", Var(i), Int(10))]), push(i), push(x),
                                                                                 If([(Bin("ge", Var(x), Int(10)), [Break()])], None)])])]
        elif k == 2:    # top-level local of a repeat body ended by break
            body = [For(o, Int(1), Int(n), None, [Repeat([Local([x], [Bin("mul", Var(o), Int(10))]), push(x), Break()], FalseE())])]
        elif k == 3:    # while body local, break
            body = [For(o, Int(1), Int(n), None, [While(TrueE(), [Local([x], [Bin("mul", Var(o), Int(10))]), push(x), Break()])])]
        elif k == 4:    # first local after a label re-reached by a backward goto (no enclosing do-block)
            body = [Local([o], [Int(0)]), Label(lab), Local([x], [Bin("mul", Var(o), Int(10))]), push(x),
                    Assign([Var(o)], [Bin("add", Var(o), Int(1))]), If([(Bin("lt", Var(o), Int(n)), [Goto(lab)])], None)]
            body = [Do(body)] if r.chance(1, 2) else [LocalFn(self.fresh("f"), Fn([], False, body)), SCall(Call(Var("f%d" % self.nname)))]
        elif k == 5:    # generic for control variables, break, inside an outer loop
            body = [For(o, Int(1), Int(n), None, [ForIn([i, x], [Call(Var("ipairs"), Tab(FPos(Int(7)), FPos(Int(8))))], [push(i), push(x), Break()])])]
        elif k == 6:    # goto out of two nested scopes to a label after the loops ("continue" of the outer loop)
            body = [For(o, Int(1), Int(n), None, [For(i, Int(1), Int(3), None, [Local([x], [Bin("add", Var(i), Var(o))]), push(i), push(x), Goto(lab)]), Label(lab)])]
        else:           # while loop as the outer repetition, numeric for with break inside
            w = self.fresh("w")
            body = [Local([w], [Int(0)]), While(Bin("lt", Var(w), Int(n)), [Assign([Var(w)], [Bin("add", Var(w), Int(1))]),
                                                                           For(i, Var(w), Int(9), None, [push(i), Break()])])]
        return [Local([fs], [Tab()])] + body + use


    def s_forin_false(self):
        """generic for: the loop ends when the first value is nil — and only then: false is an
        ordinary control value (manual 3.3.5)"""
        r = self.rng
        if self.pure or self.block_depth > 2:
            return None
        k = r.below(7)
        self.feat("forin-false:%d" % k)
        em = lambda *a: self.emit_stat(list(a))
        t, ix, it, v, w = self.fresh("t"), self.fresh("ix"), self.fresh("it"), self.fresh("e"), self.fresh("e")
        vals = [r.choice([FalseE(), TrueE(), FalseE(), Int(r.below(5)), Str("s"), FalseE()]) for _ in range(2 + r.below(4))]
        body = [em(Str("it"), Var(v), Var(w))] + (self.loop_body(1, [V(v, "any", mutable=False)]) if r.chance(1, 3) else [])
        if k == 0:
            # closure iterator walking a list of booleans / mixed values
            return [Local([t, ix], [Tab(*[FPos(x) for x in vals]), Int(0)]),
                    ForIn([v, w], [Fn([], False, [Assign([Var(ix)], [Bin("add", Var(ix), Int(1))]), Return(Ix(Var(t), Var(ix)), Var(ix))])], body),
                    em(Str("after"), Var(ix))]
        if k == 1:
            # stateless iterator whose control value goes nil -> false -> true -> 0 -> nil
            f = Fn(["s", "c"], False, [If([(Bin("eq", Var("c"), Nil()), [Return(FalseE(), Str("first"))]),
                                           (Bin("eq", Var("c"), FalseE()), [Return(TrueE(), Str("second"))]),
                                           (Bin("eq", Var("c"), TrueE()), [Return(Int(0), Str("third"))])], None)])
            return [LocalFn(it, f), ForIn([v, w], [Var(it), Nil(), Nil()], body), em(Str("after"))]
        if k == 2:
            # next over a table whose only key is false
            return [ForIn([v, w], [Var("next"), Tab(FKey(FalseE(), self.exp("int", 1, False, True)))], body), em(Str("after"))]
        if k == 3:
            return [ForIn([v, w], [Call(Var("pairs"), Tab(FKey(FalseE(), Str("x"))))], body), em(Str("after"))]
        if k == 4:
            # initial control value false, iterator flips it
            f = Fn(["s", "c"], False, [If([(Bin("eq", Var("c"), FalseE()), [Return(TrueE(), Var("s"))]), (Bin("eq", Var("c"), TrueE()), [Return(FalseE() if False else Nil())])], None)])
            return [LocalFn(it, f), ForIn([v, w], [Var(it), Str("st"), FalseE()], body), em(Str("after"))]
        if k == 5:
            # closure returning false, nil, false ... the nil ends it
            return [Local([ix], [Int(0)]),
                    ForIn([v, w], [Fn([], False, [Assign([Var(ix)], [Bin("add", Var(ix), Int(1))]),
                                                  If([(Bin("le", Var(ix), Int(2)), [Return(FalseE(), Var(ix))])], None)])], body),
                    em(Str("after"), Var(ix))]
        # coroutine.wrap generator yielding false values
        g = self.fresh("gen")
        return [Local([g], [Call(Fld(Var("coroutine"), "wrap"), Fn([], False, [SCall(Call(Fld(Var("coroutine"), "yield"), FalseE(), Int(1))),
                                                                               SCall(Call(Fld(Var("coroutine"), "yield"), FalseE(), Int(2)))]))]),
                ForIn([v, w], [Var(g)], body), em(Str("after"))]

    def s_excess(self):
        """more expressions than targets: every expression is evaluated, the surplus values are
        thrown away (manual 3.3.3, 3.4.12); the single side effect sits in a surplus position"""
        r = self.rng
        if self.pure or self.block_depth > 3 or self.pf.get("no_excess"):
            return None
        k = r.below(9)
        self.feat("excess-exps:%d" % k)
        em = lambda *a: self.emit_stat(list(a))
        a, b, f, t = self.fresh("x"), self.fresh("x"), self.fresh("f"), self.fresh("t")
        e1, e2 = self.exp("int", 1, False, True), self.exp(r.choice(["int", "str"]), 1, False, True)
        tag = Int(100 + r.below(100))
        eff = Call(Var("emit"), Str("surplus"), tag)
        mk = LocalFn(f, Fn([], True, [self.emit_stat([Str("f"), Call(Var("select"), Str("#"), Dots())]), Return(Int(1), Int(2), Dots())]))
        if k == 0:
            return [Local([a], [e1, eff]), em(Var(a))]
        if k == 1:
            return [Local([a, b], [e1, e2, eff, Int(7)]), em(Var(a), Var(b))]
        if k == 2:
            return [Local([a], [Int(0)]), Assign([Var(a)], [e1, eff]), em(Var(a))]
        if k == 3:
            return [Local([a, t], [Int(0), Tab()]), Assign([Var(a), Ix(Var(t), Int(1))], [e1, e2, Int(3), eff]), em(Var(a), Ix(Var(t), Int(1)))]
        if k == 4:
            # a multi-value call in the last surplus position
            return [mk, Local([a], [e1, Call(Var(f), Int(9), Int(8))]), em(Var(a))]
        if k == 5:
            return [mk, Local([a], [Int(0)]), Assign([Var(a)], [e1, Int(5), Call(Var(f))]), em(Var(a))]
        if k == 6:
            # vararg in the last surplus position, effect before it
            return [LocalFn(f, Fn([], True, [Local([a], [e1, eff, Dots()]), Return(Var(a))])), em(Call(Var(f), Int(1), Int(2)))]
        if k == 7:
            # generic for with more than four expressions in its list
            v, w = self.fresh("e"), self.fresh("e")
            return [ForIn([v, w], [Var("next"), Tab(FNamed("k", e1)), Nil(), Nil(), eff], [em(Var(v), Var(w))])]
        # surplus parenthesised call and a first expression that is itself a call
        return [mk, Local([a], [Call(Var(f)), Par(eff)]), em(Var(a))]

    def s_longstr(self):
        """strings with line ends inside (long-bracket spelling in some renderings)"""
        r = self.rng
        if not self.pf["strings"]:
            return None
        self.feat("string-with-newlines")
        b = r.choice([b"a\nb", b"\nx", b"line1\nline2\n", b"\n", b"\n\ny", b"tail\n"])
        x = self.fresh("v")
        self.declare(V(x, "str", mutable=False))
        return [Local([x], [Str(b)]), self.emit_stat([Var(x), Un("len", Var(x)), Meth(Var(x), "byte", Int(1), Int(-1))])]


    def s_meta_chain(self):
        """__index / __newindex chains of mixed table and function links (depth 2-4); the
        function handlers report which table they were invoked for (manual 2.4: the lookup
        is repeated on the handler table, so a function handler found in the metatable of a
        table further up the chain receives THAT table, not the value indexed originally)"""
        r = self.rng
        if not self.pf["meta"] or self.pure or self.fn_level > 0 or self.block_depth > 2:
            return None
        em = lambda *a: self.emit_stat(list(a))
        depth = 1 + r.below(3)
        kind = r.below(4)
        self.feat("meta-chain:%s:%d" % (["index-fn", "newindex-fn", "index-table-end", "index-nontable"][kind], depth))
        names = [self.fresh("L") for _ in range(depth + 1)]      # names[0] = object, names[i] = link i
        out = []
        # the last link
        last = names[-1]
        ev = "__newindex" if kind == 1 else "__index"
        out.append(Local([last], [Tab(FNamed("tag", Int(depth)), FNamed("deep", Str("deep-value")))]))
        if kind == 0:
            h = Fn(["recv", "key"], False, [em(Str("index-handler"), Fld(Var("recv"), "tag"), Var("key"), Bin("eq", Var("recv"), Var(last))),
                                            Return(Bin("concat", Var("key"), Str("@")), Int(2))])
            out.append(SCall(Call(Var("setmetatable"), Var(last), Tab(FNamed("__index", h)))))
        elif kind == 1:
            h = Fn(["recv", "key", "val"], False, [em(Str("newindex-handler"), Call(Var("rawget"), Var("recv"), Str("tag")), Var("key"), Var("val"), Bin("eq", Var("recv"), Var(last))),
                                                   SCall(Call(Var("rawset"), Var("recv"), Var("key"), Var("val")))])
            out.append(SCall(Call(Var("setmetatable"), Var(last), Tab(FNamed("__newindex", h)))))
        elif kind == 3:
            # a metavalue that is neither table nor function is indexed (strings have a metatable)
            out.append(SCall(Call(Var("setmetatable"), Var(last), Tab(FNamed("__index", Str("abc"))))))
        # intermediate table links, innermost first
        for i in range(depth - 1, -1, -1):
            fields = [FNamed("tag", Int(i))] + ([FNamed("lvl%d" % i, Int(10 * i))] if i > 0 else [])
            out.append(Local([names[i]], [Call(Var("setmetatable"), Tab(*fields), Tab(FNamed(ev, Var(names[i + 1]))))]))
        o = names[0]
        if kind == 1:
            out += [Assign([Fld(Var(o), "newkey")], [self.exp("int", 1, False, True)]),
                    em(Call(Var("rawget"), Var(o), Str("newkey")), Call(Var("rawget"), Var(last), Str("newkey"))),
                    Assign([Fld(Var(o), "tag")], [Int(99)]), em(Call(Var("rawget"), Var(o), Str("tag")), Call(Var("rawget"), Var(last), Str("tag")))]
        elif kind == 3:
            out += [em(Fld(Var(o), "deep"), Fld(Var(o), "tag")), em(Call(Var("type"), Fld(Var(o), "len")), Bin("eq", Fld(Var(o), "rep"), Fld(Var("string"), "rep")))]
        else:
            out += [em(Fld(Var(o), "deep"), Fld(Var(o), "tag")), em(Fld(Var(o), "missing")),
                    em(Ix(Var(o), Int(1)), Fld(Var(o), "lvl1"))]
            if kind == 0:
                out.append(em(Meth(Var(o), "sub", Int(1)) if False else Call(Var("rawget"), Var(o), Str("missing"))))
        return out

    def none_fn(self):
        """(name, statements): a function returning no values / a vararg pass-through"""
        f = self.fresh("nv")
        return f, [LocalFn(f, Fn([], True, [Return(Dots())]))]

    def s_builtin_few(self):
        """library functions with fixed parameters called with a last argument that is a
        multi-value expression producing no or few values: the call sees exactly the values
        delivered (manual 3.4.10/3.4.12), so a missing mandatory argument is an error and a
        missing optional one takes its default"""
        r = self.rng
        if self.pure or self.block_depth > 3:
            return None
        f, pre = self.none_fn()
        em = lambda *a: self.emit_stat(list(a))
        # the library function is called DIRECTLY from Lua code (inside a protected Lua function)
        P = lambda fn, *a: Call(Var("pcall"), Fn([], False, [Return(Call(fn, *a))]))
        none = Call(Var(f))
        one = lambda e: Call(Var(f), e)
        t = self.fresh("t")
        cands = [
            ("type", [P(Var("type"), none), P(Var("type"), one(Int(1))), P(Var("type"), one(Nil()))]),
            ("tonumber", [P(Var("tonumber"), Str("10"), none), P(Var("tonumber"), none), P(Var("tonumber"), one(Str("0x10")))]),
            ("rawequal", [P(Var("rawequal"), Int(1), none), P(Var("rawequal"), one(Int(1))), P(Var("rawequal"), Call(Var(f), Int(1), Int(1)))]),
            ("rawget", [P(Var("rawget"), Tab(FPos(Int(5))), none), P(Var("rawget"), Tab(FPos(Int(5))), one(Int(1)))]),
            ("rawlen", [P(Var("rawlen"), none), P(Var("rawlen"), one(Str("abc")))]),
            ("select", [P(Var("select"), none), P(Var("select"), Str("#"), none), P(Var("select"), Int(1), none), P(Var("select"), one(Int(-1)))]),
            ("setmetatable", [P(Var("setmetatable"), Tab(), none), Call(Var("type"), Call(Var("setmetatable"), Tab(), one(Nil())))]),
            ("getmetatable", [P(Var("getmetatable"), none), P(Var("getmetatable"), one(Int(1)))]),
            ("next", [P(Var("next"), Tab(), none), P(Var("next"), none)]),
            ("math.type", [P(Fld(Var("math"), "type"), none), P(Fld(Var("math"), "type"), one(Int(1)))]),
            ("math.tointeger", [P(Fld(Var("math"), "tointeger"), none), P(Fld(Var("math"), "tointeger"), one(Flt(3.0)))]),
            ("string.rep", [P(Fld(Var("string"), "rep"), Str("ab"), none), P(Fld(Var("string"), "rep"), Str("ab"), one(Int(2)))]),
            ("string.sub", [P(Fld(Var("string"), "sub"), Str("abcdef"), none), P(Fld(Var("string"), "sub"), Str("abcdef"), Int(2), none), P(Fld(Var("string"), "sub"), Str("abcdef"), Call(Var(f), Int(2), Int(3)))]),
            ("string.len", [P(Fld(Var("string"), "len"), none)]),
            ("string.byte", [P(Fld(Var("string"), "byte"), Str("A"), none), P(Fld(Var("string"), "byte"), none)]),
            ("tostring", [P(Var("tostring"), none), P(Var("tostring"), one(Int(7)))]),
            ("ipairs", [P(Var("ipairs"), none)]),
            ("assert", [P(Var("assert"), none), P(Var("assert"), one(Int(1)))]),
            ("error", [P(Var("error"), none), P(Var("error"), Tab(), none)]),
            ("pcall", [P(Var("pcall"), none), P(Var("pcall"), Var("pcall"), none)]),
            ("via-pcall", [Call(Var("pcall"), Var("type"), none), Call(Var("pcall"), Var("rawequal"), one(Int(1))), Call(Var("pcall"), Fld(Var("string"), "rep"), Str("ab"), none)]),
            ("table.insert", [P(Fld(Var("table"), "insert"), Tab(), none)]),
            ("table.unpack", [P(Fld(Var("table"), "unpack"), Tab(FPos(Int(1)), FPos(Int(2))), none)]),
            ("table.concat", [P(Fld(Var("table"), "concat"), Tab(FPos(Str("a")), FPos(Str("b"))), none)]),
            ("rawset", [P(Var("rawset"), Tab(), Int(1), none)]),
            ("dots", None),
        ]
        name, calls = r.choice(cands)
        self.feat("builtin-few-args:" + name)
        if calls is None:
            # the same through `...` of a vararg function called with 0, 1 or 2 values
            g = self.fresh("va")
            PV = lambda fn, *a: Call(Var("pcall"), Fn([], True, [Return(Call(fn, *a))]), Dots())
            body = [em(Str("va"), PV(Var("type"), Dots())), em(PV(Var("rawequal"), Dots())), em(PV(Var("rawlen"), Dots())),
                    em(PV(Fld(Var("string"), "rep"), Str("x"), Dots()))]
            return [LocalFn(g, Fn([], True, body)), SCall(Call(Var(g))), SCall(Call(Var(g), Int(2))), SCall(Call(Var(g), Int(2), Str("s")))]
        return pre + [em(Str(name), c) for c in calls]

    def s_goto_capture_late(self):
        """a closure that captures a block local only AFTER a jump out of the block was already
        met in the source (it is reached first through a backward goto): every iteration still
        has its own variable"""
        r = self.rng
        if self.pure or self.block_depth > 1 or self.fn_level > 0 or not self.pf["goto"]:
            return None
        k = r.below(3)
        self.feat("goto-capture-late:%d" % k)
        fns, j, x, first = self.fresh("fns"), self.fresh("j"), self.fresh("x"), self.fresh("fst")
        self.nlabel += 1
        lab = "T%d" % self.nlabel
        em = lambda *a: self.emit_stat(list(a))
        n = 2 + r.below(2)
        cap = Fn([], False, [Assign([Var(x)], [Bin("add", Var(x), Int(1))]), Return(Var(x))])
        inner = [Local([x], [Bin("mul", Var(j), Int(10))]), Local([first], [TrueE()]), Label(lab),
                 If([(Un("not", Var(first)), [Break()])], None), Assign([Var(first)], [FalseE()]),
                 Assign([Ix(Var(fns), Var(j))], [cap]), Goto(lab)]
        if k == 0:
            loop = For(j, Int(1), Int(n), None, [While(TrueE(), inner)])
        elif k == 1:
            loop = For(j, Int(1), Int(n), None, [Repeat(inner, FalseE())])
        else:
            loop = For(j, Int(1), Int(n), None, [For(self.fresh("q"), Int(1), Int(1), None, inner)])
        q = self.fresh("q")
        return [Local([fns], [Tab()]), loop, For(q, Int(1), Int(n), None, [em(Call(Ix(Var(fns), Var(q))), Call(Ix(Var(fns), Var(q))))])]

    def s_const(self):
        if self.pf.get("ref53"):
            return None
        x = self.fresh("k")
        e = self.exp("int", 1, False, False)
        self.declare(V(x, "int", mutable=False))
        self.feat("attrib:const")
        return [Local([x], [e], ["const"])]

    # ------------------------------------------------------------------ whole program
    def program(self):
        r = self.rng
        nargs = r.below(4)
        tys = [r.choice(["int", "int", "str"]) for _ in range(nargs)]
        tuples = []
        for _ in range(2):
            t = []
            for ty in tys:
                if ty == "int":
                    t.append("i%d" % self.small_int())
                else:
                    s = r.choice(STR_POOL)
                    t.append("s" + s.hex() if s else "s-")
            tuples.append(t)
        body = []
        if nargs:
            names = [self.fresh("a") for _ in range(nargs)]
            for nm, ty in zip(names, tys):
                self.declare(V(nm, ty, mutable=r.chance(1, 2)))
            body.append(Local(names, [Dots()]))
        while self.budget > 0:
            body += self.stat()
            if self._ends_abruptly(body):
                body = body[:-1]
        body.append(self.observe())
        rets = [self.exp(r.choice(["int", "str", "bool", "any"]), 1, False, False) for _ in range(r.below(4))]
        body.append(Return(*rets))
        return body, tuples, self.feats


# =====================================================================================
# Shrinking (AST reduction)
# =====================================================================================
def sub_blocks(s):
    """the statement lists directly contained in statement s: list of (getter, setter)"""
    k = s.k
    out = []
    if k in ("do",):
        out.append((s.a, 0))
    elif k == "while":
        out.append((s.a, 1))
    elif k == "repeat":
        out.append((s.a, 0))
    elif k == "for":
        out.append((s.a, 4))
    elif k == "forin":
        out.append((s.a, 2))
    elif k == "if":
        for i, (c, b) in enumerate(s.a[0]):
            out.append(("arm", s, i))
        if s.a[1] is not None:
            out.append((s.a, 1))
    return out


def fn_nodes(e, acc):
    """function literals inside expression e"""
    if isinstance(e, Node):
        if e.k == "fn":
            acc.append(e)
        for x in e.a:
            fn_nodes(x, acc)
    elif isinstance(e, (list, tuple)):
        for x in e:
            fn_nodes(x, acc)


def all_blocks(block, acc):
    """every statement list in the program (as mutable python lists)"""
    acc.append(block)
    for s in block:
        if s.k == "if":
            for c, b in s.a[0]:
                all_blocks(b, acc)
                f = []
                fn_nodes(c, f)
                for fn in f:
                    all_blocks(fn.a[2], acc)
            if s.a[1] is not None:
                all_blocks(s.a[1], acc)
            continue
        for x in s.a:
            if isinstance(x, list) and x and all(isinstance(y, Node) and y.k in STAT_KINDS for y in x):
                all_blocks(x, acc)
            else:
                f = []
                fn_nodes(x, f)
                for fn in f:
                    all_blocks(fn.a[2], acc)


STAT_KINDS = {"local", "assign", "scall", "do", "while", "repeat", "if", "for", "forin", "goto", "label", "break", "return",
              "localfn", "funstat"}


def shrink(block, still_fails, budget=400):
    """greedy statement deletion / block flattening; still_fails(block) -> bool"""
    changed = True
    while changed and budget > 0:
        changed = False
        blocks = []
        all_blocks(block, blocks)
        for b in blocks:
            i = 0
            while i < len(b) and budget > 0:
                s = b[i]
                saved = list(b)
                del b[i]
                budget -= 1
                if still_fails(block):
                    changed = True
                    continue
                b[:] = saved
                # replace a compound statement by its body
                inner = None
                if s.k == "do":
                    inner = s.a[0]
                elif s.k == "if" and s.a[0]:
                    inner = s.a[0][0][1]
                if inner is not None:
                    b[i:i + 1] = inner
                    budget -= 1
                    if still_fails(block):
                        changed = True
                        continue
                    b[:] = saved
                i += 1
    return block


# =====================================================================================
# Equivalent respellings that avoid a known defect of the implementation.  Each maps an
# AST to an AST with the same meaning under the manual; a disagreement that disappears
# under exactly one of them is attributed to the corresponding known finding.
# =====================================================================================
def map_nodes(x, f):
    """rebuild the tree bottom-up, applying f to every Node"""
    if isinstance(x, Node):
        n = Node(x.k, *[map_nodes(y, f) for y in x.a])
        return f(n)
    if isinstance(x, list):
        return [map_nodes(y, f) for y in x]
    if isinstance(x, tuple):
        return tuple(map_nodes(y, f) for y in x)
    return x


def rw_paren_dots(block):
    """(...)  ->  (select(1, ...))"""
    hit = [0]

    def f(n):
        if n.k == "par" and n.a[0].k == "dots":
            hit[0] += 1
            return Par(Call(Var("select"), Int(1), Dots()))
        return n
    return map_nodes(block, f), hit[0]


def rw_forin_copy(block):
    """for x1..xn in es do B end  ->  for x1_..xn_ in es do local x1..xn = x1_..xn_; B end"""
    hit = [0]

    def f(n):
        if n.k == "forin":
            xs, es, b = n.a
            fns = []
            fn_nodes(b, fns)
            if not fns:
                return n
            hit[0] += 1
            ys = [x + "_" for x in xs]
            return ForIn(ys, es, [Local(xs, [Var(y) for y in ys])] + b)
        return n
    return map_nodes(block, f), hit[0]


def rw_excess(block):
    """local a = e1, e2   ->  local a, x_ = e1, e2        (one more target per surplus expression)
       a = e1, e2         ->  do local x_; a, x_ = e1, e2 end"""
    hit = [0]

    def f(n):
        if n.k == "local" and len(n.a[1]) > len(n.a[0]) and n.a[0]:
            hit[0] += 1
            extra = ["xs%d_" % i for i in range(len(n.a[1]) - len(n.a[0]))]
            return N("local", list(n.a[0]) + [(x, "-") for x in extra], n.a[1])
        if n.k == "assign" and len(n.a[1]) > len(n.a[0]):
            hit[0] += 1
            extra = ["xs%d_" % i for i in range(len(n.a[1]) - len(n.a[0]))]
            return Do([Local(extra, []), Assign(list(n.a[0]) + [Var(x) for x in extra], n.a[1])])
        if n.k == "forin" and len(n.a[1]) > 4:
            hit[0] += 1
            tmp = ["xs%d_" % i for i in range(len(n.a[1]))]
            return Do([Local(tmp, n.a[1]), ForIn(n.a[0], [Var(x) for x in tmp[:4]], n.a[2])])
        return n
    return map_nodes(block, f), hit[0]


REWRITES = {"C01-paren-vararg": rw_paren_dots, "C01-forin-shared-cell": rw_forin_copy, "C01-excess-expressions-dropped": rw_excess}


def count_kinds(x, acc):
    """histogram of AST node kinds"""
    if isinstance(x, Node):
        key = x.k
        if x.k in ("bin", "un"):
            key = "%s:%s" % (x.k, x.a[0])
        acc[key] = acc.get(key, 0) + 1
        for y in x.a:
            count_kinds(y, acc)
    elif isinstance(x, (list, tuple)):
        for y in x:
            count_kinds(y, acc)


# =====================================================================================
# C11: raise-site x catch-site x value matrix
# =====================================================================================
class ErrorGen(ProgramGen):
    """programs built from error scenarios: (value raised) x (where it is raised) x (how it
    is caught), each followed by an observation of the caught value (identity for tables
    and functions) and, at the end, an epilogue that exercises loops, calls, closures and
    tables so that an inconsistent state after a catch shows up in the trace."""

    VALUES = ["nil", "false", "true", "int", "flt", "str0", "str1", "str2", "strdef", "table", "function", "empty",
              "rt-arith", "rt-call", "rt-index", "rt-concat", "rt-compare", "rt-len", "rt-div0", "rt-mod0", "rt-setindex",
              "rt-intrep", "rt-callfield", "rt-forstep", "assert-tab", "assert-int", "str-nil-level"]
    SITES = ["direct", "nested", "deep", "for", "while", "repeat", "forin", "iterator", "meta-index", "meta-newindex", "meta-arith",
             "meta-call", "meta-eq", "meta-lt", "meta-concat", "meta-len", "meta-unm", "operand", "argument", "ctor", "methodarg",
             "concat", "cond", "key", "tailcall", "retparen", "vararg", "andor", "upvalue-fn", "rhs-multi",
             "close-scope", "close-two", "close-in-loop", "co-resume-rethrow", "co-wrap", "meta-index-number"]
    CATCHES = ["pcall", "pcall-args", "xpcall-id", "xpcall-wrap", "xpcall-none", "xpcall-multi", "rethrow", "pcall-pcall", "inner-caught",
               "xpcall-in-pcall", "pcall-in-xpcall", "select-results", "pcall-method", "resume", "wrap-pcall", "resume-in-pcall", "pcall-error-direct"]

    def __init__(self, rng, profile=None):
        super().__init__(rng, profile)
        self.budget = 4 + rng.below(8)
        self.nsc = 0

    # ---- the raising statements; returns (prelude statements outside, raising statements, kind of value)
    def raiser(self, val, E):
        r = self.rng
        n = self.fresh("z")
        nil_local = Local([n], [Nil()])
        msg = r.choice([b"boom", b"bad thing", b"E1", b"", b"x:1: y"])
        if val == "nil": return [SCall(Call(Var("error"), Nil()))]
        if val == "empty": return [SCall(Call(Var("error")))]
        if val == "false": return [SCall(Call(Var("error"), FalseE()))]
        if val == "true": return [SCall(Call(Var("error"), TrueE(), Int(r.choice([0, 1, 2]))))]
        if val == "int": return [SCall(Call(Var("error"), Int(r.below(1000)), Int(r.choice([1, 2]))))]
        if val == "flt": return [SCall(Call(Var("error"), Flt(r.choice([2.5, 0.0, 1e100]))))]
        if val == "str0": return [SCall(Call(Var("error"), Str(msg), Int(0)))]
        if val == "str1": return [SCall(Call(Var("error"), Str(msg), Int(1)))]
        if val == "str2": return [SCall(Call(Var("error"), Str(msg), Int(2)))]
        if val == "strdef": return [SCall(Call(Var("error"), Str(msg)))]
        if val == "str-nil-level": return [SCall(Call(Var("error"), Str(msg), Nil()))]
        if val in ("table", "function"): return [SCall(Call(Var("error"), Var(E), *([Int(r.choice([0, 1, 2]))] if r.chance(1, 2) else [])))]
        if val == "assert-tab": return [SCall(Call(Var("assert"), r.choice([FalseE(), Nil()]), Var(E)))]
        if val == "assert-int":
            if self.pf.get("assert_str") and r.chance(1, 2):
                return [SCall(Call(Var("assert"), FalseE(), *([Str(msg)] if r.chance(2, 3) else [])))]
            return [SCall(Call(Var("assert"), FalseE(), Int(77), Int(78)))]
        d = {"rt-arith": Bin(r.choice(["add", "sub", "mul", "div", "mod", "idiv"] + (["pow"] if self.pf.get("pow_error") else [])), Var(n), Int(1)),
             "rt-call": Call(Var(n), Int(1)), "rt-index": Fld(Var(n), "f"),
             "rt-concat": Bin("concat", Var(n), Str("x")), "rt-compare": Bin(r.choice(["lt", "le", "gt", "ge"]), Var(n), Int(1)),
             "rt-len": Un("len", Var(n)),
             "rt-div0": Bin("idiv", Int(1), Int(0)), "rt-mod0": Bin("mod", Int(1), Int(0)),
             "rt-intrep": Bin(r.choice(["bor", "band", "shl"]), Flt(1.5), Int(1)),
             "rt-callfield": Call(Fld(Tab(), "nope"))}
        if val == "rt-setindex":
            return [nil_local, Assign([Fld(Var(n), "f")], [Int(1)])]
        if val == "rt-forstep":
            return [For(self.fresh("i"), Int(1), Int(2), Int(0), [])]
        return [nil_local, Local([self.fresh("z")], [d[val]])]

    def at_site(self, site, rs):
        """statements (for the body of the protected function) that run rs at the given site"""
        r = self.rng
        g, h, t, x = self.fresh("g"), self.fresh("h"), self.fresh("t"), self.fresh("x")
        em = lambda *a: self.emit_stat(list(a))
        if site == "direct":
            return rs
        if site == "nested":
            return [LocalFn(g, Fn(["q"], False, [em(Str("g"), Var("q"))] + rs + [Return(Var("q"))])), em(Call(Var(g), Int(1)))]
        if site == "deep":
            return [LocalFn(g, Fn(["d"], False, [If([(Bin("le", Var("d"), Int(0)), rs)], None), SCall(Call(Var(g), Bin("sub", Var("d"), Int(1)))),
                                                em(Str("back"), Var("d"))])),
                    SCall(Call(Var(g), Int(1 + r.below(4))))]
        if site == "for":
            return [For(x, Int(1), Int(3), None, [em(Var(x)), If([(Bin("eq", Var(x), Int(2)), rs)], None)])]
        if site == "while":
            return [Local([x], [Int(0)]), While(TrueE(), [Assign([Var(x)], [Bin("add", Var(x), Int(1))]), If([(Bin("eq", Var(x), Int(2)), rs)], None)])]
        if site == "repeat":
            return [Local([x], [Int(0)]), Repeat([Assign([Var(x)], [Bin("add", Var(x), Int(1))]), If([(Bin("eq", Var(x), Int(2)), rs)], None)], Bin("ge", Var(x), Int(5)))]
        if site == "forin":
            return [ForIn([x, t], [Call(Var("ipairs"), Tab(FPos(Int(5)), FPos(Int(6)), FPos(Int(7))))], [em(Var(x), Var(t)), If([(Bin("eq", Var(x), Int(2)), rs)], None)])]
        if site == "iterator":
            c = self.fresh("c")
            it = Fn([], False, [Local([c], [Int(0)]), Return(Fn([], False, [Assign([Var(c)], [Bin("add", Var(c), Int(1))]),
                                                                             If([(Bin("eq", Var(c), Int(2)), rs)], None), Return(Var(c))]))])
            return [ForIn([x], [Call(Par(it))], [em(Str("it"), Var(x))])]
        if site == "meta-index-number":
            # an __index metavalue that is neither a function nor a table is indexed itself
            return [Local([t], [Call(Var("setmetatable"), Tab(), Tab(FNamed("__index", r.choice([Int(5), TrueE(), Flt(1.5)]))))]),
                    Local([self.fresh("pad")], [Int(1)]), Local([x], [Fld(Var(t), "k")])]
        if site.startswith("meta-"):
            ev = {"meta-index": "__index", "meta-newindex": "__newindex", "meta-arith": r.choice(["__add", "__sub", "__mul", "__div", "__mod", "__idiv", "__band", "__shl"]),
                  "meta-call": "__call", "meta-eq": "__eq", "meta-lt": r.choice(["__lt", "__le"]), "meta-concat": "__concat",
                  "meta-len": "__len", "meta-unm": r.choice(["__unm", "__bnot"])}[site]
            opmap = {"__add": "add", "__sub": "sub", "__mul": "mul", "__div": "div", "__mod": "mod", "__idiv": "idiv", "__band": "band", "__shl": "shl",
                     "__lt": "lt", "__le": "le", "__concat": "concat"}
            obj = [Local([t], [Call(Var("setmetatable"), Tab(), Tab(FNamed(ev, Fn(["a", "b"], False, [em(Str(ev))] + rs))))])]
            o2 = Call(Var("setmetatable"), Tab(), Call(Var("getmetatable"), Var(t)))
            if ev == "__index": use = Local([x], [Fld(Var(t), "k")])
            elif ev == "__newindex": use = Assign([Fld(Var(t), "k")], [Int(1)])
            elif ev == "__call": use = SCall(Call(Var(t), Int(1)))
            elif ev == "__eq": use = Local([x], [Bin(r.choice(["eq", "ne"]), Var(t), o2)])
            elif ev == "__len": use = Local([x], [Un("len", Var(t))])
            elif ev == "__unm": use = Local([x], [Un("neg", Var(t))])
            elif ev == "__bnot": use = Local([x], [Un("bnot", Var(t))])
            elif ev in ("__lt", "__le"): use = Local([x], [Bin(opmap[ev], Var(t), r.choice([Int(1), o2]))])
            else:
                a, b = (Var(t), r.choice([Int(1), Str("s")]) if ev == "__concat" else Int(1))
                if r.chance(1, 2):
                    a, b = b, a
                use = Local([x], [Bin(opmap[ev], a, b)])
            # call-free statements between the last call and the operation: the position that
            # error(msg, 2) reports from inside the handler must be the operation's line
            pad = [Local([self.fresh("pad")], [Int(r.below(9))]) for _ in range(r.below(3))]
            return obj + pad + [use]
        if site == "meta-index-number":
            # an __index metavalue that is neither a function nor a table is indexed itself
            return [Local([t], [Call(Var("setmetatable"), Tab(), Tab(FNamed("__index", r.choice([Int(5), TrueE(), Flt(1.5)]))))]),
                    Local([self.fresh("pad")], [Int(1)]), Local([x], [Fld(Var(t), "k")])]
        f = LocalFn(g, Fn([], False, [em(Str("f"))] + rs + [Return(Int(1))]))
        if site == "operand": return [f, Local([x], [Bin(r.choice(["add", "mul", "lt", "concat"]), Int(1), Call(Var(g)))])]
        if site == "argument": return [f, em(Int(1), Call(Var(g)), Int(3))]
        if site == "ctor": return [f, Local([t], [Tab(FPos(Int(1)), FPos(Call(Var(g))), FNamed("k", Int(2)))])]
        if site == "methodarg":
            return [f, Local([t], [Tab(FNamed("m", Fn(["self", "a"], False, [em(Str("m"))])))]), SCall(Meth(Var(t), "m", Call(Var(g))))]
        if site == "concat": return [f, Local([x], [Bin("concat", Str("a"), Bin("concat", Call(Var(g)), Str("b")))])]
        if site == "cond": return [f, If([(Call(Var(g)), [em(Str("then"))])], [em(Str("else"))])]
        if site == "key": return [f, Local([t], [Tab()]), Assign([Ix(Var(t), Call(Var(g)))], [Int(1)])]
        if site == "tailcall":
            return [f, LocalFn(h, Fn([], False, [Return(Call(Var(g)))])), em(Call(Var(h)))]
        if site == "retparen":
            return [f, LocalFn(h, Fn([], False, [Return(Par(Call(Var(g))))])), em(Call(Var(h)))]
        if site == "vararg":
            return [LocalFn(g, Fn([], True, [em(Call(Var("select"), Str("#"), Dots()))] + rs)), SCall(Call(Var(g), Int(1), Nil(), Int(3)))]
        if site == "andor":
            return [f, Local([x], [Or(And(TrueE(), Call(Var(g))), Int(2))])]
        if site == "upvalue-fn":
            return [Local([x], [Int(0)]), LocalFn(g, Fn([], False, [Assign([Var(x)], [Bin("add", Var(x), Int(1))])] + rs)),
                    LocalFn(h, Fn([], False, [SCall(Call(Var(g))), em(Str("unreached"))])), SCall(Call(Var(h)))]
        if site in ("close-scope", "close-two", "close-in-loop", "co-resume-rethrow", "co-wrap") and not self.pf["stage4"]:
            return rs
        if site.startswith("close-") and self.pf.get("ref53"):
            return rs
        if site == "close-scope":
            return [Local([t], [self.closer(Int(1))], ["close"]), em(Str("scope"))] + rs
        if site == "close-two":
            return [Local([t], [self.closer(Int(1))], ["close"]), Do([Local([x], [self.closer(Int(2))], ["close"])] + rs), em(Str("unreached"))]
        if site == "close-in-loop":
            return [For(x, Int(1), Int(3), None, [Local([t], [self.closer(Var(x))], ["close"]), If([(Bin("eq", Var(x), Int(2)), rs)], None)])]
        if site == "co-resume-rethrow":
            return [Local([t], [Call(Fld(Var("coroutine"), "create"), Fn([], False, [em(Str("co"))] + rs))]),
                    Local([x, h], [Call(Fld(Var("coroutine"), "resume"), Var(t))]), em(Str("resumed"), Var(x), Call(Fld(Var("coroutine"), "status"), Var(t))),
                    SCall(Call(Var("error"), Var(h), Int(0)))]
        if site == "co-wrap":
            return [Local([t], [Call(Fld(Var("coroutine"), "wrap"), Fn([], False, [SCall(Call(Fld(Var("coroutine"), "yield"), Int(1))), em(Str("co"))] + rs))]),
                    em(Call(Var(t))), SCall(Call(Var(t)))]
        if site == "rhs-multi":
            return [f, Local([x, t], [Int(1), Int(2)]), Assign([Var(x), Var(t)], [Var(t), Call(Var(g))])]
        return rs

    def scenario(self, val=None, site=None, catch=None):
        r = self.rng
        val = val or r.choice(self.VALUES)
        site = site or r.choice(self.SITES)
        catch = catch or r.choice(self.CATCHES)
        if catch in ("resume", "wrap-pcall", "resume-in-pcall") and not self.pf["stage4"]:
            catch = "pcall"
        if catch == "wrap-pcall" and (val.startswith("str") or val.startswith("rt-") or val == "assert-int"):
            catch = "resume"        # what coroutine.wrap does to string errors is not fixed by the manual
        if site == "co-wrap" and (val.startswith("str") or val.startswith("rt-") or val == "assert-int"):
            site = "co-resume-rethrow"     # coroutine.wrap may decorate string errors (manual silent)
        if val == "rt-forstep" and self.pf.get("ref53"):
            val = "rt-arith"               # a zero step is an error only since 5.4
        if site.startswith("co-") and "xpcall" in catch and not self.pf.get("xpcall_co"):
            catch = "pcall"                # known finding C11-xpcall-handler-sees-coroutine-error (probe only)
        if val == "flt" and not self.pf["floats"]:
            val = "int"
        if val == "str2" and site in ("tailcall", "direct", "iterator", "retparen") and not self.pf.get("level2_any"):
            val = "str1"
        self.nsc += 1
        self.feat("value:" + val)
        self.feat("site:" + site)
        self.feat("catch:" + catch)
        E, F = self.fresh("E"), self.fresh("P")
        out = []
        if val in ("table", "assert-tab"):
            out.append(Local([E], [Tab(FNamed("tag", Int(self.nsc)))]))
        elif val == "function":
            out.append(Local([E], [Fn([], False, [Return(Int(self.nsc))])]))
        saved = (self.loop_depth, self.in_va, self.cur_rets, self.block_depth)
        self.loop_depth, self.in_va, self.cur_rets, self.block_depth = 0, False, [], 2
        self.fn_level += 1
        self.push()
        pre = self.block(r.below(2), new_scope=False) if r.chance(1, 3) else []
        if self._ends_abruptly(pre):
            pre = pre[:-1]
        body = pre + [self.emit_stat([Str("enter"), Int(self.nsc)])] + self.at_site(site, self.raiser(val, E))
        if body[-1].k != "return":
            body.append(self.emit_stat([Str("unreachable")]))
        self.pop()
        self.fn_level -= 1
        self.loop_depth, self.in_va, self.cur_rets, self.block_depth = saved
        params = ["pa", "pb"] if catch == "pcall-args" else []
        fn = Fn(params, False, body)
        ok, e = self.fresh("ok"), self.fresh("er")
        em = lambda *a: self.emit_stat(list(a))
        hid = Fn(["m"], False, [em(Str("handler"), Call(Var("type"), Var("m"))), Return(Var("m"))])
        hwrap = Fn(["m"], False, [em(Str("handler")), Return(Tab(FNamed("wrapped", Var("m"))), Int(2))])
        hnone = Fn(["m"], False, [em(Str("handler"))])
        hmulti = Fn(["m"], True, [em(Str("handler"), Call(Var("select"), Str("#"), Dots())), Return(Var("m"), Int(1), Int(2))])
        wrapped = False
        if catch == "pcall-error-direct" and val in ("str0", "table", "function", "int", "nil"):
            # `error` called directly by pcall: level 1 is a Go function, there is no position to add
            self.feat("catch:pcall(error, v)")
            m0 = Str(r.choice([b"direct", b"msg"]))
            arg = {"str0": [m0, Int(0)], "table": [Var(E)], "function": [Var(E)],
                   "int": [Int(7)], "nil": [Nil()]}[val]
            out.append(Local([ok, e], [Call(Var("pcall"), Var("error"), *arg)]))
        elif catch == "pcall" or catch == "pcall-error-direct":
            out.append(Local([ok, e], [Call(Var("pcall"), fn)]))
        elif catch == "pcall-args":
            out.append(Local([ok, e], [Call(Var("pcall"), fn, Int(1), Str("two"), Int(3))]))
        elif catch == "xpcall-id":
            out.append(Local([ok, e], [Call(Var("xpcall"), fn, hid)]))
        elif catch == "xpcall-wrap":
            out.append(Local([ok, e], [Call(Var("xpcall"), fn, hwrap)]))
            wrapped = True
        elif catch == "xpcall-none":
            out.append(Local([ok, e], [Call(Var("xpcall"), fn, hnone)]))
            out.append(em(Var(ok), Var(e)))
            self.declare(V(ok, "bool", mutable=False))
            return out
        elif catch == "xpcall-multi":
            out.append(Local([ok, e, F], [Call(Var("xpcall"), fn, hmulti, Int(9))]))
            out.append(em(Var(F)))
        elif catch == "rethrow":
            inner = Fn([], False, [Local(["a", "b"], [Call(Var("pcall"), fn)]), em(Str("inner"), Var("a"), Call(Var("type"), Var("b"))),
                                   SCall(Call(Var("error"), Var("b"), Int(0))), em(Str("unreachable"))])
            out.append(Local([ok, e], [Call(Var("pcall"), inner)]))
        elif catch == "pcall-pcall":
            out.append(Local([F, ok, e], [Call(Var("pcall"), Var("pcall"), fn)]))
            out.append(em(Var(F)))
        elif catch == "inner-caught":
            inner = Fn([], False, [Local(["a", "b"], [Call(Var("pcall"), fn)]), em(Str("inner"), Var("a")), Return(Var("a"), Var("b"))])
            out.append(Local([F, ok, e], [Call(Var("pcall"), inner)]))
            out.append(em(Var(F)))
        elif catch == "xpcall-in-pcall":
            inner = Fn([], False, [Return(Call(Var("xpcall"), fn, hid))])
            out.append(Local([F, ok, e], [Call(Var("pcall"), inner)]))
            out.append(em(Var(F)))
        elif catch == "pcall-in-xpcall":
            inner = Fn([], False, [Local(["a", "b"], [Call(Var("pcall"), fn)]), em(Str("inner"), Var("a")), SCall(Call(Var("error"), Var("b"), Int(0)))])
            out.append(Local([ok, e], [Call(Var("xpcall"), inner, hid)]))
        elif catch == "resume":
            out.append(Local([F], [Call(Fld(Var("coroutine"), "create"), fn)]))
            out.append(Local([ok, e], [Call(Fld(Var("coroutine"), "resume"), Var(F))]))
            out.append(em(Call(Fld(Var("coroutine"), "status"), Var(F))))
        elif catch == "wrap-pcall":
            out.append(Local([ok, e], [Call(Var("pcall"), Call(Fld(Var("coroutine"), "wrap"), fn))]))
        elif catch == "resume-in-pcall":
            inner = Fn([], False, [Local(["co"], [Call(Fld(Var("coroutine"), "create"), fn)]), Local(["a", "b"], [Call(Fld(Var("coroutine"), "resume"), Var("co"))]),
                                   em(Str("inner"), Var("a")), SCall(Call(Var("error"), Var("b"), Int(0)))])
            out.append(Local([ok, e], [Call(Var("pcall"), inner)]))
        elif catch == "select-results":
            out.append(Local([ok, e], [Call(Var("select"), Int(1), Call(Var("pcall"), fn))]))
            out.append(em(Call(Var("select"), Str("#"), Call(Var("pcall"), Fn([], False, [Return(Int(1), Int(2), Int(3))])))))
        else:  # pcall-method
            T = self.fresh("T")
            out.append(Local([T], [Tab(FNamed("run", Fn(["self"], False, [Return(Call(Var("pcall"), fn))])))]))
            out.append(Local([ok, e], [Meth(Var(T), "run")]))
        self.declare(V(ok, "bool", mutable=False))
        # observation of the caught value
        if wrapped:
            out.append(em(Var(ok), Call(Var("type"), Var(e))))
            out.append(Local([e], [And(Bin("eq", Call(Var("type"), Var(e)), Str("table")), Fld(Var(e), "wrapped"))]))
        if val in ("table", "assert-tab"):
            out.append(em(Var(ok), Bin("eq", Var(e), Var(E)), Call(Var("rawequal"), Var(e), Var(E)), Call(Var("type"), Var(e))))
            out.append(Assign([Fld(Var(E), "mark")], [Int(100 + self.nsc)]))
            out.append(em(And(Bin("eq", Call(Var("type"), Var(e)), Str("table")), Fld(Var(e), "mark")), Fld(Var(E), "tag")))
        elif val == "function":
            out.append(em(Var(ok), Bin("eq", Var(e), Var(E)), Call(Var("type"), Var(e)), And(Bin("eq", Call(Var("type"), Var(e)), Str("function")), Call(Var(e)))))
        else:
            out.append(em(Var(ok), Var(e), Call(Fld(Var("math"), "type"), Var(e)) if val in ("int", "flt") else Call(Var("type"), Var(e))))
        return out


    def many_errors(self):
        """a long run of caught errors (the runtime must stay usable: later calls work), in the
        main thread or inside a coroutine"""
        r = self.rng
        k = r.below(8)
        n = 1500 + r.below(700)
        self.feat("many-errors:%d" % k)
        em = lambda *a: self.emit_stat(list(a))
        c, i, ok, e, E = self.fresh("cnt"), self.fresh("i"), self.fresh("ok"), self.fresh("er"), self.fresh("E")
        if k == 0:
            call = Call(Var("pcall"), Var("error"), Var(i))
        elif k == 1:
            call = Call(Var("pcall"), Fn([], False, [SCall(Call(Var("error"), Tab(FNamed("i", Var(i)))))]))
        elif k == 2:
            call = Call(Var("pcall"), Fld(Var("string"), "rep"))                      # failing library call
        elif k == 3:
            call = Call(Var("pcall"), Fn([], False, [Local(["z"], [Nil()]), Return(Bin("add", Var("z"), Var(i)))]))   # run-time error
        elif k == 4:
            call = Call(Var("xpcall"), Var("error"), Fn(["m"], False, [Return(Var("m"))]), Var(i))
        elif k == 5:
            call = Call(Fld(Var("coroutine"), "resume"), Call(Fld(Var("coroutine"), "create"), Var("error")), Var(i))
        elif k == 6:
            call = Call(Var("pcall"), Var("setmetatable"), Int(1), Tab())             # failing library call
        else:
            call = Call(Var("pcall"), Var("assert"), FalseE(), Var(i))
        loop = [Local([c], [Int(0)]),
                For(i, Int(1), Int(n), None, [Local([ok, e], [call]), If([(Un("not", Var(ok)), [Assign([Var(c)], [Bin("add", Var(c), Int(1))])])], None)]),
                em(Str("caught"), Var(c))]
        after = [em(Call(Var("pcall"), Var("type"), Int(1))), em(Call(Var("select"), Str("#"), Int(1), Int(2))),
                 Local([E], [Tab(FNamed("v", Int(5)))]), em(Call(Var("pcall"), Fn(["rec"], False, [Return(Var("rec"))]), Var(E))),
                 em(Call(Var("tostring"), Int(12)), Call(Var("rawequal"), Var(E), Var(E)), Call(Fld(Var("string"), "rep"), Str("ab"), Int(2)))]
        if r.chance(1, 3) and self.pf["stage4"]:
            self.feat("many-errors:in-coroutine")
            co = self.fresh("co")
            return [Local([co], [Call(Fld(Var("coroutine"), "wrap"), Fn([], False, loop + after + [Return(Str("co-done"))]))]), em(Call(Var(co)))] + after
        return loop + after


    def close_raise(self):
        """two errors at once: an error unwinds a scope whose closing method raises a different
        error; the error of the closing method replaces the one in flight (manual 3.3.8): the
        next closing method and the nearest protected call / coroutine boundary get the new
        value (tables by identity); under xpcall the handler runs once for each error"""
        r = self.rng
        k = r.below(5)
        vk = r.below(5)
        self.feat("close-raises:%s:%s" % (["pcall", "xpcall", "resume", "wrap-pcall", "nested-pcall"][k], ["str", "table", "nil", "int", "str-pos"][vk]))
        em = lambda *a: self.emit_stat(list(a))
        CE, ok, e, f = self.fresh("CE"), self.fresh("ok"), self.fresh("er"), self.fresh("f")
        pre = [Local([CE], [[Str("close-err"), Tab(FNamed("tag", Int(7))), Nil(), Int(41), Str("cpos")][vk]])]
        raise2 = SCall(Call(Var("error"), Var(CE), *([] if vk == 4 else [Int(0)])))
        good = lambda tag: Call(Var("setmetatable"), Tab(), Tab(FNamed("__close", Fn(["o", "er"], False, [
            em(Str("close"), tag, Call(Var("type"), Var("er")), Call(Var("rawequal"), Var("er"), Var(CE)))]))))
        bad = Call(Var("setmetatable"), Tab(), Tab(FNamed("__close", Fn(["o", "er"], False, [em(Str("bad-close"), Call(Var("type"), Var("er"))), raise2]))))
        orig = r.choice([[SCall(Call(Var("error"), Str("orig"), Int(0)))], [SCall(Call(Var("error"), Tab(FNamed("orig", TrueE()))))],
                         [Local(["z"], [Nil()]), Local(["y"], [Bin("add", Var("z"), Int(1))])], [SCall(Call(Var("error"), Int(5)))]])
        inner_scope = r.chance(1, 2)
        body = [Local(["a"], [good(Int(1))], ["close"])]
        if inner_scope:
            body += [Do([Local(["b"], [bad], ["close"]), Local(["c"], [good(Int(3))], ["close"]), em(Str("body"))] + orig), em(Str("unreachable"))]
        else:
            body += [Local(["b"], [bad], ["close"]), em(Str("body"))] + orig
        fn = Fn([], False, body)
        h = Fn(["m"], False, [em(Str("handler"), Call(Var("type"), Var("m")), Call(Var("rawequal"), Var("m"), Var(CE))), Return(Var("m"))])
        if k == 0:
            call = [Local([ok, e], [Call(Var("pcall"), fn)])]
        elif k == 1:
            call = [Local([ok, e], [Call(Var("xpcall"), fn, h)])]
        elif k == 2:
            call = [Local([f], [Call(Fld(Var("coroutine"), "create"), fn)]), Local([ok, e], [Call(Fld(Var("coroutine"), "resume"), Var(f))]),
                    em(Call(Fld(Var("coroutine"), "status"), Var(f)))]
        elif k == 3 and vk in (1, 2, 3):
            call = [Local([ok, e], [Call(Var("pcall"), Call(Fld(Var("coroutine"), "wrap"), fn))])]
        else:
            call = [Local([ok, e], [Call(Var("pcall"), Fn([], False, [Local(["p", "q"], [Call(Var("pcall"), fn)]),
                                                                      em(Str("inner"), Var("p"), Call(Var("rawequal"), Var("q"), Var(CE))), SCall(Call(Var("error"), Var("q"), Int(0)))]))])]
        return pre + call + [em(Var(ok), Call(Var("type"), Var(e)), Call(Var("rawequal"), Var(e), Var(CE)),
                                And(Bin("ne", Call(Var("type"), Var(e)), Str("table")), Var(e)))]

    def noncallable(self):
        """protected calls of values that cannot be called: the failure is an error like any
        other (xpcall's handler gets the message)"""
        r = self.rng
        self.feat("protected-call-of-noncallable")
        em = lambda *a: self.emit_stat(list(a))
        v = r.choice([Nil(), Int(42), Str("s"), Tab()])
        h = Fn(["m"], False, [em(Str("handler"), Call(Var("type"), Var("m"))), Return(Var("m"), Int(2))])
        return [em(Call(Var("pcall"), v)), em(Call(Var("xpcall"), v, h)), em(Call(Var("pcall"), Var("pcall"), v))]

    def epilogue(self):
        """fixed statements exercising loops, calls, closures, tables, strings after the catches"""
        em = lambda *a: self.emit_stat(list(a))
        s, t, f, i, c = self.fresh("s"), self.fresh("t"), self.fresh("f"), self.fresh("i"), self.fresh("c")
        return [
            Local([s, t], [Int(0), Tab()]),
            For(i, Int(1), Int(4), None, [Assign([Var(s)], [Bin("add", Var(s), Var(i))]),
                                          Assign([Ix(Var(t), Var(i))], [Fn([], False, [Return(Bin("mul", Var(i), Var(i)))])])]),
            em(Var(s), Un("len", Var(t)), Call(Ix(Var(t), Int(3)))),
            LocalFn(f, Fn(["n"], True, [If([(Bin("eq", Var("n"), Int(0)), [Return(Dots())])], None),
                                       Return(Call(Var(f), Bin("sub", Var("n"), Int(1)), Var("n"), Dots()))])),
            em(Call(Var(f), Int(3))),
            Local([c], [Call(Var("setmetatable"), Tab(), Tab(FNamed("__index", Fn(["_", "k"], False, [Return(Bin("concat", Var("k"), Str("!")))]))))]),
            em(Fld(Var(c), "key"), Meth(Str("abc"), "sub", Int(2)), Bin("concat", Int(1), Int(2))),
            em(Call(Var("pcall"), Fn([], False, [Return(Int(1), Int(2))]))),
            em(Call(Var("pcall"), Fn([], False, [SCall(Call(Var("error"), Tab(FNamed("last", TrueE()))))])) if False else
               Call(Var("select"), Str("#"), Call(Var("pcall"), Var("error")))),
        ]

    def program(self):
        r = self.rng
        body = []
        nsc = 2 + r.below(4)
        for _ in range(nsc):
            if self.budget > 0 and r.chance(1, 2):
                body += self.stat()
                if self._ends_abruptly(body):
                    body = body[:-1]
            body += self.scenario()
        if r.chance(1, 6) or self.pf.get("many_errors"):
            body += self.many_errors()
        if self.pf["stage4"] and not self.pf.get("ref53") and r.chance(1, 3):
            body += self.close_raise()
        if r.chance(1, 8):
            body += self.noncallable()
        body += self.epilogue()
        body.append(self.observe())
        # sometimes the program ends with an error that reaches the embedding caller
        if r.chance(1, 3):
            self.feat("uncaught")
            val = r.choice(["int", "str1", "str0", "table", "false", "rt-arith", "rt-index", "flt", "nil"])
            E = self.fresh("E")
            if val == "table":
                body.append(Local([E], [Tab(FNamed("tag", Int(0)))]))
                body.append(self.emit_stat([Var(E)]))
            site = r.choice(["direct", "nested", "for", "meta-index", "operand"])
            body += self.at_site(site, self.raiser(val, E))
        else:
            body.append(Return(Int(1), Str("done")))
        return body, [[], []], self.feats
